#!/usr/bin/env bash
# Run every seeded change against the check of the property it was seeded for (quick tier) and print one line each.
#   usage: tools/seedmatrix.sh [tier] [extra check ids run against every change...]
cd "$(dirname "${BASH_SOURCE[0]}")/.." || exit 2
TIER="${1:-quick}"; shift || true
for d in seeded/C*-*; do
  id="$(basename "$d" | cut -d- -f1)"
  out="$(tools/seedtest.sh "$d" "$TIER" "$id" "$@" 2>&1)"
  base="$(echo "$out" | grep -c '^baseline-tests: pass')"
  printf '%s base=%s' "$(basename "$d")" "$base"
  echo "$out" | grep -E '^C[0-9]+ exit=' | while read -r cid ex rest; do printf ' | %s %s' "$cid" "$ex"; done
  echo
done
