// Command rewriter instruments the internal packages of the module under test for the trace monitor (C19).
//
// It parses every non-test Go file of <repo>/internal/field and <repo>/internal/scalar FROM THE CURRENT WORKING
// TREE, inserts vtrace.Hit(<id>) as the first statement of every function and of every nested block body
// (if / else / for / range / switch and select clauses), prints the files into -out and writes an overlay file that
// maps them over the originals. Only the standard library's go/ast is used.
package main

import (
	"encoding/json"
	"flag"
	"fmt"
	"go/ast"
	"go/parser"
	"go/printer"
	"go/token"
	"os"
	"path/filepath"
	"strconv"
	"strings"
)

const (
	vtracePath  = "github.com/bytemare/secp256k1/zz_verif/vtrace"
	vshadowPath = "github.com/bytemare/secp256k1/zz_verif/vshadow"
)

var names []string

func hit(name string) ast.Stmt {
	id := len(names)
	names = append(names, name)

	return &ast.ExprStmt{X: &ast.CallExpr{
		Fun:  &ast.SelectorExpr{X: ast.NewIdent("vtrace"), Sel: ast.NewIdent("Hit")},
		Args: []ast.Expr{&ast.BasicLit{Kind: token.INT, Value: strconv.Itoa(id)}},
	}}
}

func instrumentBlock(b *ast.BlockStmt, name string, fset *token.FileSet) {
	if b == nil {
		return
	}

	n := 0

	ast.Inspect(b, func(node ast.Node) bool {
		switch s := node.(type) {
		case *ast.FuncLit:
			return false // closures are not expected in these packages; leave them alone
		case *ast.IfStmt:
			n++
			s.Body.List = append([]ast.Stmt{hit(fmt.Sprintf("%s#if%d@%d", name, n, fset.Position(s.Pos()).Line))}, s.Body.List...)

			if eb, ok := s.Else.(*ast.BlockStmt); ok {
				eb.List = append([]ast.Stmt{hit(fmt.Sprintf("%s#else%d@%d", name, n, fset.Position(s.Pos()).Line))}, eb.List...)
			}
		case *ast.ForStmt:
			n++
			s.Body.List = append([]ast.Stmt{hit(fmt.Sprintf("%s#for%d@%d", name, n, fset.Position(s.Pos()).Line))}, s.Body.List...)
		case *ast.RangeStmt:
			n++
			s.Body.List = append([]ast.Stmt{hit(fmt.Sprintf("%s#range%d@%d", name, n, fset.Position(s.Pos()).Line))}, s.Body.List...)
		case *ast.CaseClause:
			n++
			s.Body = append([]ast.Stmt{hit(fmt.Sprintf("%s#case%d@%d", name, n, fset.Position(s.Pos()).Line))}, s.Body...)
		case *ast.CommClause:
			n++
			s.Body = append([]ast.Stmt{hit(fmt.Sprintf("%s#comm%d@%d", name, n, fset.Position(s.Pos()).Line))}, s.Body...)
		}

		return true
	})
}

func main() {
	mode := flag.String("mode", "trace", "trace")
	repo := flag.String("repo", "/repo", "module root")
	out := flag.String("out", "", "output directory")
	flag.Parse()

	if *out == "" || (*mode != "trace" && *mode != "shadow") {
		fmt.Fprintln(os.Stderr, "usage: rewriter -mode trace|shadow -repo <dir> -out <dir>")
		os.Exit(2)
	}

	if *mode == "shadow" {
		shadowMain(*repo, *out)
		return
	}

	ovl := map[string]string{}
	funcs := 0

	for _, pkg := range []string{"internal/field", "internal/scalar"} {
		dir := filepath.Join(*repo, pkg)
		fset := token.NewFileSet()

		ents, err := os.ReadDir(dir)
		if err != nil {
			fmt.Fprintln(os.Stderr, err)
			os.Exit(1)
		}

		for _, e := range ents {
			if !strings.HasSuffix(e.Name(), ".go") || strings.HasSuffix(e.Name(), "_test.go") {
				continue
			}

			p := filepath.Join(dir, e.Name())

			f, err := parser.ParseFile(fset, p, nil, parser.SkipObjectResolution)
			if err != nil {
				fmt.Fprintln(os.Stderr, err)
				os.Exit(1)
			}

			n := 0

			for _, d := range f.Decls {
				fd, ok := d.(*ast.FuncDecl)
				if !ok || fd.Body == nil {
					continue
				}

				name := filepath.Base(pkg) + "." + fd.Name.Name
				if fd.Recv != nil {
					name = filepath.Base(pkg) + ".(m)." + fd.Name.Name
				}

				instrumentBlock(fd.Body, name, fset)
				fd.Body.List = append([]ast.Stmt{hit(name)}, fd.Body.List...)
				n++
			}

			if n == 0 {
				continue
			}

			funcs += n
			imp := &ast.GenDecl{Tok: token.IMPORT, Specs: []ast.Spec{&ast.ImportSpec{Path: &ast.BasicLit{Kind: token.STRING, Value: strconv.Quote(vtracePath)}}}}
			f.Decls = append([]ast.Decl{imp}, f.Decls...)

			dst := filepath.Join(*out, strings.ReplaceAll(pkg, "/", "_")+"_"+e.Name())

			w, err := os.Create(dst)
			if err != nil {
				fmt.Fprintln(os.Stderr, err)
				os.Exit(1)
			}

			if err := printer.Fprint(w, fset, f); err != nil {
				fmt.Fprintln(os.Stderr, err)
				os.Exit(1)
			}

			w.Close()

			ovl[p] = dst
		}
	}

	// the id -> name table, compiled into the vtrace package of this build
	var sb strings.Builder

	sb.WriteString("//go:build verif\n\npackage vtrace\n\nfunc init() {\n\tNames = []string{\n")

	for _, n := range names {
		sb.WriteString("\t\t" + strconv.Quote(n) + ",\n")
	}

	sb.WriteString("\t}\n}\n")

	namesFile := filepath.Join(*out, "vtrace_names_gen.go")
	if err := os.WriteFile(namesFile, []byte(sb.String()), 0o644); err != nil {
		fmt.Fprintln(os.Stderr, err)
		os.Exit(1)
	}

	ovl[filepath.Join(*repo, "zz_verif", "vtrace", "names_gen.go")] = namesFile

	b, _ := json.MarshalIndent(map[string]any{"Replace": ovl}, "", " ")
	if err := os.WriteFile(filepath.Join(*out, "overlay.json"), b, 0o644); err != nil {
		fmt.Fprintln(os.Stderr, err)
		os.Exit(1)
	}

	fmt.Printf("instrumented %d functions, %d probes\n", funcs, len(names))
}

// ---------------------------------------------------------------------------------------------------------------------
// shadow mode: a deferred pre/post-condition check at the entry of every Fiat primitive.

var shadowStmt = map[string]string{
	"Mul":            "defer vshadow.Bin(%d, \"Mul\", (*[4]uint64)(out1), [4]uint64(*arg1), [4]uint64(*arg2))",
	"Add":            "defer vshadow.Bin(%d, \"Add\", (*[4]uint64)(out1), [4]uint64(*arg1), [4]uint64(*arg2))",
	"Sub":            "defer vshadow.Bin(%d, \"Sub\", (*[4]uint64)(out1), [4]uint64(*arg1), [4]uint64(*arg2))",
	"Square":         "defer vshadow.Un(%d, \"Square\", (*[4]uint64)(out1), [4]uint64(*arg1))",
	"Opp":            "defer vshadow.Un(%d, \"Opp\", (*[4]uint64)(out1), [4]uint64(*arg1))",
	"FromMontgomery": "defer vshadow.Un(%d, \"FromMontgomery\", (*[4]uint64)(out1), [4]uint64(*arg1))",
	"ToMontgomery":   "defer vshadow.Un(%d, \"ToMontgomery\", (*[4]uint64)(out1), [4]uint64(*arg1))",
	"Selectznz":      "defer vshadow.Sel(%d, out1, uint64(arg1), *arg2, *arg3)",
	"Nonzero":        "defer vshadow.NZ(%d, out1, *arg1)",
	"SetOne":         "defer vshadow.One(%d, (*[4]uint64)(out1))",
}

func parseStmt(src string) ast.Stmt {
	f, err := parser.ParseFile(token.NewFileSet(), "", "package p\nfunc _() {\n"+src+"\n}\n", 0)
	if err != nil {
		panic(err)
	}

	return f.Decls[0].(*ast.FuncDecl).Body.List[0]
}

func shadowMain(repo, out string) {
	ovl := map[string]string{}
	total := 0

	for pi, pkg := range []string{"internal/field", "internal/scalar"} {
		dir := filepath.Join(repo, pkg)

		ents, err := os.ReadDir(dir)
		if err != nil {
			fmt.Fprintln(os.Stderr, err)
			os.Exit(1)
		}

		for _, e := range ents {
			if !strings.HasPrefix(e.Name(), "secp256k1montgomery") || !strings.HasSuffix(e.Name(), ".go") || strings.HasSuffix(e.Name(), "_test.go") {
				continue
			}

			fset := token.NewFileSet()
			p := filepath.Join(dir, e.Name())

			f, err := parser.ParseFile(fset, p, nil, parser.SkipObjectResolution)
			if err != nil {
				fmt.Fprintln(os.Stderr, err)
				os.Exit(1)
			}

			n := 0

			for _, d := range f.Decls {
				fd, ok := d.(*ast.FuncDecl)
				if !ok || fd.Body == nil || fd.Recv != nil {
					continue
				}

				tmpl, ok := shadowStmt[fd.Name.Name]
				if !ok {
					continue
				}

				fd.Body.List = append([]ast.Stmt{parseStmt(fmt.Sprintf(tmpl, pi))}, fd.Body.List...)
				n++
			}

			if n == 0 {
				continue
			}

			total += n
			imp := &ast.GenDecl{Tok: token.IMPORT, Specs: []ast.Spec{&ast.ImportSpec{Path: &ast.BasicLit{Kind: token.STRING, Value: strconv.Quote(vshadowPath)}}}}
			f.Decls = append([]ast.Decl{imp}, f.Decls...)

			dst := filepath.Join(out, strings.ReplaceAll(pkg, "/", "_")+"_"+e.Name())

			w, err := os.Create(dst)
			if err != nil {
				fmt.Fprintln(os.Stderr, err)
				os.Exit(1)
			}

			if err := printer.Fprint(w, token.NewFileSet(), f); err != nil {
				fmt.Fprintln(os.Stderr, err)
				os.Exit(1)
			}

			w.Close()

			ovl[p] = dst
		}
	}

	b, _ := json.MarshalIndent(map[string]any{"Replace": ovl}, "", " ")
	if err := os.WriteFile(filepath.Join(out, "overlay.json"), b, 0o644); err != nil {
		fmt.Fprintln(os.Stderr, err)
		os.Exit(1)
	}

	fmt.Printf("shadowed %d primitives\n", total)
}
