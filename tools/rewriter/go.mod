module verif/rewriter

go 1.22
