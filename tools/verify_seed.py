#!/usr/bin/env python3
"""Confirm a sub-agent's seeded change in a scratch worktree and file it under /verif/seeded/<ID>-<k>/.

For each /tmp/seeded-out/<ID>/<k>/ : (1) the patch applies to the pristine tree, (2) the module builds and the existing
test suite passes with it, (3) the demonstration PASSES without the change and FAILS with it.
usage: [SEED_SRC=dir SEED_TAG=r2] verify_seed.py <ID>/<k> [...]
"""
import json, os, re, shutil, subprocess, sys, tempfile

ENV = dict(os.environ, GOFLAGS="-mod=mod", GOPROXY="off", GOSUMDB="off", GOTOOLCHAIN="local")  # go1.26.8 also honours these
SRC = os.environ.get("SEED_SRC", "/tmp/seeded-out")
DST = "/verif/seeded"
TAG = os.environ.get("SEED_TAG", "")  # e.g. "r2" -> /verif/seeded/<ID>-r2-<k>

def sh(cmd, cwd=None, env=ENV, timeout=900):
    p = subprocess.run(cmd, shell=True, cwd=cwd, env=env, capture_output=True, text=True, timeout=timeout)
    return p.returncode, (p.stdout + p.stderr)[-3000:]

def main():
    for spec in sys.argv[1:]:
        d = os.path.join(SRC, spec)
        pid, k = spec.split("/")
        wt = tempfile.mkdtemp(prefix="wt-verify-", dir="/tmp")
        os.rmdir(wt)
        rc, out = sh(f"git -C /repo worktree add --detach {wt} HEAD -q")
        res = {"spec": spec}
        try:
            demo = [f for f in os.listdir(d) if f.startswith("demo")][0]
            head = open(os.path.join(d, demo)).read(1500)
            if demo.endswith("_main.go"):
                # standalone program in a scratch module
                mod = os.path.join(wt, "zz_demo_prog")
                os.makedirs(mod)
                shutil.copy(os.path.join(d, demo), os.path.join(mod, "main.go"))
                open(os.path.join(mod, "go.mod"), "w").write(
                    "module demoprog\n\ngo 1.22.2\n\nrequire github.com/bytemare/secp256k1 v0.0.0\n\nreplace github.com/bytemare/secp256k1 => %s\n" % wt)
                env = dict(ENV)
                m = re.search(r"(GOARCH=\w+)\s+go run", head)
                if m:
                    k_, v_ = m.group(1).split("=")
                    env[k_] = v_
                run = lambda: sh("go run .", cwd=mod, env=env)
                place = "scratch module (replace => worktree)"; runcmd = (m.group(1) + " " if m else "") + "go run ."
            else:
                m = re.search(r"[Pp]lace in (?:the )?(tests/|internal/field/|internal/scalar/|module root)[^\n]*? as (\S+?)[;\s(]", head)
                if not m:
                    raise RuntimeError("cannot parse placement: " + head[:200])
                where = "" if m.group(1) == "module root" else m.group(1)
                name = m.group(2).rstrip(";")
                m2 = re.search(r"run: ((?:[A-Z0-9_]+=\S+ )*go[0-9.]* test [^\n(]*)", head)
                runcmd = m2.group(1).strip()
                target = os.path.join(wt, where, name)
                place = os.path.join(where, name)
                run = lambda: sh(runcmd, cwd=wt)
                shutil.copy(os.path.join(d, demo), target)
            rc0, out0 = run()
            res["demo_without_change"] = "pass" if rc0 == 0 else "FAIL"
            rca, outa = sh(f"git apply {d}/patch.diff", cwd=wt)
            res["patch_applies"] = rca == 0
            if demo.endswith("_main.go"):
                rcb, outb = sh("go build ./... && go test -vet=off -count=1 ./...", cwd=wt)
            else:
                # the existing suite, without the demo file
                os.rename(target, target + ".off")
                rcb, outb = sh("go build ./... && go test -vet=off -count=1 ./...", cwd=wt)
                os.rename(target + ".off", target)
            res["existing_suite_with_change"] = "pass" if rcb == 0 else "FAIL"
            rc1, out1 = run()
            res["demo_with_change"] = "fail" if rc1 != 0 else "PASSES (not a demonstration)"
            res["demo_failure_tail"] = out1[-600:]
            ok = rc0 == 0 and rca == 0 and rcb == 0 and rc1 != 0
            res["confirmed"] = ok
            if ok:
                out = os.path.join(DST, f"{pid}-{TAG + '-' if TAG else ''}{k}")
                os.makedirs(out, exist_ok=True)
                shutil.copy(os.path.join(d, "patch.diff"), out)
                shutil.copy(os.path.join(d, demo), out)
                meta = json.load(open(os.path.join(d, "meta.json")))
                meta["property"] = pid
                meta["demo"] = {"file": demo, "placement": place, "run": runcmd}
                meta["confirmed_by_me"] = {
                    "in": "a fresh scratch git worktree of /repo HEAD (removed afterwards)",
                    "patch_applies": True, "existing_suite_with_change": "pass (go build ./... && go test -vet=off -count=1 ./...)",
                    "demo_without_change": "pass", "demo_with_change": "fail"}
                json.dump(meta, open(os.path.join(out, "meta.json"), "w"), indent=1)
        except Exception as e:
            res["error"] = str(e)
        finally:
            sh(f"git -C /repo worktree remove --force {wt}")
        print(json.dumps({k: v for k, v in res.items() if k != "demo_failure_tail"}))

main()
