#!/usr/bin/env python3
"""Write /verif/seeded/RESULTS.md from the seeded changes' meta.json files and a matrix file produced by tools/seedmatrix.sh.

usage: seedtable.py <matrix.txt>
"""
import glob, json, os, re, sys

res = {}
for line in open(sys.argv[1]):
    m = re.match(r"(\S+) base=(\d)(.*)", line.strip())
    if m:
        res[m.group(1)] = (m.group(2), dict(re.findall(r"(C\d+) exit=(\d)", m.group(3))))

rows = []
for d in sorted(glob.glob("/verif/seeded/C*-*/")):
    name = os.path.basename(d.rstrip("/"))
    meta = json.load(open(os.path.join(d, "meta.json")))
    own = name.split("-")[0]
    base, checks = res.get(name, ("?", {}))
    verdict = {"1": "caught", "0": "MISSED", "2": "inconclusive"}.get(checks.get(own, "?"), "not run")
    summ = " ".join(meta["summary"].split())
    need = " ".join(meta["needs"].split())
    rows.append((name, own, verdict, summ, need))

with open("/verif/seeded/RESULTS.md", "w") as f:
    f.write("# Seeded changes and the check of the property they were seeded for (quick tier)\n\n")
    f.write("Regenerate: `tools/seedmatrix.sh quick > m.txt; tools/seedtable.py m.txt`. `caught` = the check exits 1 with a VIOLATION line when pointed at a scratch worktree with the change applied (the existing 60 tests pass with every one of these changes).\n\n")
    caught = sum(1 for r in rows if r[2] == "caught")
    f.write(f"**{caught} of {len(rows)} caught by the check of their own property.**\n\n")
    f.write("| change | check | result | what the change does | what it needs to manifest |\n|---|---|---|---|---|\n")
    for name, own, verdict, summ, need in rows:
        f.write(f"| {name} | {own} | {verdict} | {summ[:260]} | {need[:260]} |\n")
print(f"{sum(1 for r in rows if r[2]=='caught')} / {len(rows)}")
