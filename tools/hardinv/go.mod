module verif/hardinv

go 1.22
