#!/usr/bin/env python3
"""Write the task descriptions for a round of seeded-change sub-agents (one per property) to /tmp/agent-prompts<R>/.

Each agent sees only the text of its property and the one-line summaries of the changes earlier rounds produced for it
(so that it looks elsewhere); nothing else from /verif.   usage: tools/mkprompts.py <round-number>
"""
import glob, json, os, sys

R = int(sys.argv[1])
STYLE = sys.argv[2] if len(sys.argv) > 2 else "exotic"  # exotic | simple
here = os.path.dirname(os.path.abspath(__file__))
props = [json.loads(l) for l in open(os.path.join(here, "..", "properties.jsonl"))]
out = f"/tmp/agent-prompts{R}"
os.makedirs(out, exist_ok=True)

T = """You are helping test a verification framework by writing a realistic, subtle bug ("seeded change") into a Go library. Work ONLY inside your own scratch git worktree at /tmp/wt{R}-{ID} (a checkout of the Go module github.com/bytemare/secp256k1: pure-Go secp256k1 group, Fiat-Crypto field/scalar arithmetic, projective point addition, SEC1 encodings, RFC 9380 hash-to-curve). Do NOT read, list or touch /verif or /repo (other than through your worktree), and do not look at other /tmp/wt* or /tmp/seeded-out* directories than your own. There is no network. Every shell call needs: export GOFLAGS=-mod=mod GOPROXY=off GOSUMDB=off GOTOOLCHAIN=local
IMPORTANT: never use `git stash` (the stash is shared with other people's worktrees); to revert use `git checkout -- .` / `git apply -R` and delete untracked files yourself. Your output budget is limited: keep tool outputs small (head/tail/grep; never print whole generated files such as secp256k1montgomery.go) and your final answer short.

The library is supposed to satisfy this semantic property:

  PROPERTY {ID}: {title}
  {statement}
  (quantified over: {quant})

YOUR TASK: produce 3 DIFFERENT changes to the library source (non-test .go files under /tmp/wt{R}-{ID}, e.g. element.go, scalar.go, group.go, xmd.go, mapping.go, internal/field/*.go, internal/scalar/*.go) such that, for each change:
  1. the module still compiles and the EXISTING test suite still passes unedited:  cd /tmp/wt{R}-{ID} && go build ./... && go test -vet=off -count=1 ./...
  2. the change BREAKS the property above (for at least one input / schedule / history), and
  3. it needs something SPECIFIC to manifest — an unusual or boundary input, a particular internal representation, a multi-step sequence of operations, a particular interleaving, a fault at a particular point, or two cooperating sites that each look fine alone. Do NOT produce changes that ordinary use (or a couple of random inputs) would expose at once. Make them look like plausible maintainer edits (a refactoring, an optimisation, a hardening, a new convenience feature, a port of an idea from another library), not sabotage. The 3 changes should use different mechanisms / different code sites.
  4. you provide a DEMONSTRATION: a Go test file (package secp256k1_test or an in-module test, whichever you need) or a small main program that FAILS with the change applied and PASSES on the unmodified tree. The demonstration is not part of the change.

{NPREV} earlier rounds already produced the changes listed below for this property. They have all been dealt with. Yours must be genuinely NEW: a different mechanism, a different code site and a different kind of trigger from every one of them. Look for what is NOT in the list. Directions that have been used little so far: realistic MAINTENANCE edits (a dependency-free rewrite of a helper, replacing a generated routine by a hand-written one that is right except on a thin set, changing a loop bound or a constant table entry, an "equivalent" reformulation of a formula that silently assumes z = 1 or x != 0 or y != 0 or P != Q), input-dependent early exits, wrong handling of exactly one of several symmetric cases (the second of two points, the last limb, the odd-length case, the final block), state that survives in an object across calls (but not a plain result cache, if one is listed), behaviour that depends on slice capacity or on the argument being the same object as the receiver or as another argument, effects that only show when TWO API functions are combined in a particular order, and faults (entropy source, panics recovered by the caller) at a particular point. Prefer bugs whose failing inputs CANNOT be found by random sampling or by trying boundary values one at a time.
{PREV}
Read the source first (it is small: ~1,900 hand-written lines plus generated Fiat code). Verify everything yourself: run the existing tests with the change applied (must pass), run your demonstration with the change (must fail) and with the change reverted (must pass).

DELIVERABLES, for change number k = 1..3, in directory /tmp/seeded-out{R}/{ID}/k/ (create it):
  - patch.diff : output of `git -C /tmp/wt{R}-{ID} diff` containing ONLY the library change (no test/demo files; if the change adds new files, `git add -N` them first so that they appear in the diff), applicable with `git apply` to the pristine tree
  - demo_test.go (or demo_main.go) : the demonstration, with a FIRST LINE comment of exactly this form: "// place in tests/ as zz_demo_test.go; run: go test -vet=off -count=1 -run TestDemo ./tests/" (adapt directory — tests/, internal/field/, internal/scalar/ or "the module root" — file name and run command, no parenthetical remarks on that line; for a main program say "// Place as main.go in a scratch module; run: go run ." )
  - meta.json : {{"property": "{ID}", "summary": "<one sentence: what the change does>", "needs": "<what specific input/sequence/interleaving is needed to manifest>", "files": ["..."], "ran": ["<commands you ran and their outcome>"]}}
Leave the worktree clean when done. Final answer: a SHORT report (under 12 lines) listing, per change, the one-line summary and what is needed to manifest it. Do not paste diffs into the final answer.
"""

SIMPLE_TASK = """YOUR TASK: produce 5 DIFFERENT small changes to the library source (non-test .go files under /tmp/wt{R}-{ID}, e.g. element.go, scalar.go, group.go, xmd.go, mapping.go, internal/field/*.go, internal/scalar/*.go), each a REALISTIC SLIP of one to five changed lines — the kind of mistake a maintainer really makes and a reviewer really overlooks: an off-by-one in a loop bound or a slice index, a wrong comparison operator (< for <=), swapped arguments or operands, a missing, inverted or duplicated condition, a typo in one digit of a constant or in one entry of a constant table, a dropped carry/borrow, a forgotten negation / reduction / normalisation, a stale or shadowed variable, the wrong variable after copy-paste (x for y, r0 for r1), a missing early return, an ignored error or flag, an index that should have been i+1, a condition on the wrong operand, a step of a numbered algorithm skipped or done twice. For each change:
  1. the module still compiles and the EXISTING test suite still passes unedited:  cd /tmp/wt{R}-{ID} && go build ./... && go test -vet=off -count=1 ./...   (many slips are caught by the tests: discard those and try others — work through the code the property depends on, line by line, and ask of each line what the smallest plausible slip is that the tests would not notice)
  2. the change BREAKS the property above (for at least one input / schedule / history),
  3. you provide a DEMONSTRATION: a Go test file (package secp256k1_test or an in-module test, whichever you need) or a small main program that FAILS with the change applied and PASSES on the unmodified tree. The demonstration is not part of the change.
The 5 changes must be at 5 different code sites. Do not build elaborate new features, caches or fast paths: small slips only.
"""

for p in props:
    ID = p["id"]
    prev = []
    for d in sorted(glob.glob(os.path.join(here, "..", "seeded", ID + "-*"))):
        try:
            m = json.load(open(os.path.join(d, "meta.json")))
        except Exception:
            continue
        prev.append("  - " + m["summary"][:260])
    q = p["quantifier"]["text"] if isinstance(p.get("quantifier"), dict) else str(p.get("quantifier"))
    TT = T
    if STYLE == "simple":
        a = TT.index("YOUR TASK:")
        b = TT.index("{NPREV} earlier rounds")
        TT = TT[:a] + SIMPLE_TASK + "\n" + "Earlier rounds already produced the changes listed below for this property; do not repeat any of them (same site AND same slip).\n{PREV}" + TT[TT.index("Read the source first"):]
        TT = TT.replace("for change number k = 1..3", "for change number k = 1..5").replace("{NPREV}", "")
    txt = TT.format(R=R, ID=ID, title=p["title"], statement=p["statement"], quant=q, NPREV=(["No", "One", "Two", "Three", "Four", "Five", "Six", "Seven", "Eight", "Nine"] + ["Many"] * 20)[R - 1], PREV="\n".join(prev) + "\n")
    open(os.path.join(out, ID + ".txt"), "w").write(txt)
print(out, len(props))
