#!/usr/bin/env bash
# Evaluate a seeded change against the checks WITHOUT touching /repo: the patch is applied to a scratch worktree
# and the checks are pointed at it with VERIF_REPO. Evidence/replays go to a throw-away directory.
#   usage: tools/seedtest.sh <dir with patch.diff> <tier> <ID> [<ID> ...]
# Prints one line per check: "<ID> exit=<code> <first verdict line>", plus the baseline test result.
set -u
export GOFLAGS=-mod=mod GOPROXY=off GOSUMDB=off GOTOOLCHAIN=local
V="$(cd "$(dirname "${BASH_SOURCE[0]}")/.." && pwd)"
D="$(cd "$1" && pwd)"; TIER="$2"; shift 2
WT="${SEED_WT:-/tmp/wt-eval-$$}"
OUT="$(mktemp -d /tmp/seedout.XXXXXX)"
cleanup() { git -C /repo worktree remove --force "$WT" >/dev/null 2>&1; rm -rf "$OUT"; }
trap cleanup EXIT
git -C /repo worktree add --detach "$WT" HEAD -q || exit 3
if ! git -C "$WT" apply "$D/patch.diff"; then echo "PATCH-DOES-NOT-APPLY $D"; exit 3; fi
if ( cd "$WT" && go build ./... && go test -vet=off -count=1 ./... ) >"$OUT/base.log" 2>&1; then echo "baseline-tests: pass"; else echo "baseline-tests: FAIL"; tail -5 "$OUT/base.log"; fi
for id in "$@"; do
  VERIF_REPO="$WT" VERIF_OUT_DIR="$OUT" "$V/check" "$id" "$TIER" >"$OUT/$id.log" 2>&1; rc=$?
  echo "$id exit=$rc $(grep -m1 -E '^  violation:|^INCONCLUSIVE|^HELD' "$OUT/$id.log" | cut -c1-260)"
done
