#!/usr/bin/env python3
"""Write a `go build -overlay` file that injects /verif/harness into the module at <repo> without touching it.

usage: mkoverlay.py <harness dir> <repo dir> <out json> [<extra overlay json> ...]
"""
import json, os, sys

harness, repo, out = sys.argv[1], sys.argv[2], sys.argv[3]
rep = {}
# accessor files go into existing packages
rep[os.path.join(repo, "zz_verif_access.go")] = os.path.join(harness, "access", "root.go")
for f in sorted(os.listdir(os.path.join(harness, "access"))):
    if f.endswith(".go") and f != "root.go":
        rep[os.path.join(repo, "zz_verif_access_" + f)] = os.path.join(harness, "access", f)
# every other harness directory becomes a virtual package under <repo>/zz_verif/
for d, _, files in os.walk(harness):
    rel = os.path.relpath(d, harness)
    if rel == "access" or rel.startswith("access" + os.sep):
        continue
    for f in files:
        if f.endswith(".go"):
            rep[os.path.join(repo, "zz_verif", rel, f)] = os.path.join(d, f)
for extra in sys.argv[4:]:
    rep.update(json.load(open(extra))["Replace"])
json.dump({"Replace": rep}, open(out, "w"), indent=1)
