//go:build verif && !has_addiso

package secp256k1

// VHasAddIso reports whether VAddIso reaches the library's own addition.
const VHasAddIso = false

// VAddIso is not available in this tree.
func VAddIso(a, b *Element) *Element { return nil }
