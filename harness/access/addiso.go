//go:build verif && has_addiso

package secp256k1

// Compiled in only when ./check found the method with exactly this signature in the tree under test (tag has_addiso):
// the addition on the 3-isogenous curve that HashToGroup applies to its two SSWU outputs, which no hash input can steer.

// VHasAddIso reports whether VAddIso reaches the library's own addition.
const VHasAddIso = true

// VAddIso returns a.addAffine3Iso2(b).
func VAddIso(a, b *Element) *Element { return a.addAffine3Iso2(b) }
