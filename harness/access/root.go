//go:build verif

package secp256k1

// Accessors injected into the root package by the verification harness (go build -overlay, tag verif).
// They contain no logic beyond field access and calling an existing unexported function.

import "github.com/bytemare/secp256k1/internal/field"

// VRaw returns the stored (Montgomery-domain) limbs of the projective coordinates.
func VRaw(e *Element) (x, y, z [4]uint64) { return e.x.E, e.y.E, e.z.E }

// VSetRaw overwrites the stored limbs of the projective coordinates.
func VSetRaw(e *Element, x, y, z [4]uint64) { e.x.E, e.y.E, e.z.E = x, y, z }

// VFE exposes the coordinate field elements.
func VFE(e *Element) (x, y, z *field.Element) { return &e.x, &e.y, &e.z }

// VAddIso calls the affine addition on the isogenous curve used by HashToGroup.
func VAddIso(q0, q1 *Element) *Element { return q0.addAffine3Iso2(q1) }

// VExpandXMD calls expand_message_xmd.
func VExpandXMD(in, dst []byte, l uint) []byte { return expandXMD(in, dst, l) }

// VIdentityRaw returns the stored limbs of the package-level identity variable.
func VIdentityRaw() (x, y, z [4]uint64) { return identity.x.E, identity.y.E, identity.z.E }

// VErrs returns the package-level error variables, in a fixed order.
func VErrs() []error {
	return []error{errParamInvalidPointEncoding, errParamScalarLength, errParamNilScalar, errParamScalarTooBig, errZeroLenDST}
}
