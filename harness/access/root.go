//go:build verif

package secp256k1

// Accessors injected into the root package by the verification harness (go build -overlay, tag verif).
//
// They read and write the raw projective coordinates of an Element. To stay compilable when the module under test is
// edited, they refer to NO unexported identifier: the three coordinate fields are located by reflection as the first
// three struct fields of Element whose type is field.Element, and the limb array as the first [4]uint64-shaped field
// of field.Element. The accessors contain no arithmetic.

import (
	"reflect"
	"unsafe"

	"github.com/bytemare/secp256k1/internal/field"
)

var (
	vCoordOff [3]uintptr
	vLimbOff  uintptr
	vOK       bool
)

func init() {
	fe := reflect.TypeOf(field.Element{})
	limbs := reflect.TypeOf([4]uint64{})
	found := false

	for i := 0; i < fe.NumField(); i++ {
		if fe.Field(i).Type.ConvertibleTo(limbs) && fe.Field(i).Type.Kind() == reflect.Array {
			vLimbOff = fe.Field(i).Offset
			found = true

			break
		}
	}

	t := reflect.TypeOf(Element{})
	k := 0

	for i := 0; i < t.NumField() && k < 3; i++ {
		if t.Field(i).Type == fe {
			vCoordOff[k] = t.Field(i).Offset
			k++
		}
	}

	vOK = found && k == 3
}

// VOK reports whether the coordinate fields could be located.
func VOK() bool { return vOK }

func vLimbs(e *Element, i int) *[4]uint64 {
	if !vOK {
		panic("harness: cannot locate the coordinate fields of Element by reflection")
	}

	return (*[4]uint64)(unsafe.Add(unsafe.Pointer(e), vCoordOff[i]+vLimbOff))
}

// VRaw returns the stored (Montgomery-domain) limbs of the projective coordinates.
func VRaw(e *Element) (x, y, z [4]uint64) { return *vLimbs(e, 0), *vLimbs(e, 1), *vLimbs(e, 2) }

// VSetRaw overwrites the stored limbs of the projective coordinates.
func VSetRaw(e *Element, x, y, z [4]uint64) {
	*vLimbs(e, 0), *vLimbs(e, 1), *vLimbs(e, 2) = x, y, z
}
