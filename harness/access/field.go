//go:build verif

package field

// VExpPMin3Div4 exposes the unexported addition chain x^((p-3)/4).
func (z *Element) VExpPMin3Div4(x *Element) *Element { return z.expPMin3Div4(x) }
