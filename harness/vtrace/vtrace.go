//go:build verif

// Package vtrace is the run-time support of the trace build: the rewritten internal packages call Hit at every
// function entry and block entry. The recorder is confined to one goroutine (the C19 monitor is single-threaded).
package vtrace

var (
	// On arms the recorder.
	On bool
	// Seq is the recorded sequence of probe ids.
	Seq []uint16
	// Names maps probe ids to "package.function[#block@line]"; filled by the generated file of the trace build.
	Names []string
)

// Hit records one probe.
func Hit(id int) {
	if On {
		Seq = append(Seq, uint16(id))
	}
}

// Name returns the name of a probe id.
func Name(id uint16) string {
	if int(id) < len(Names) {
		return Names[id]
	}

	return "?"
}
