//go:build verif

// Command vmon is the monitor binary: `vmon check <ID> <tier> <seed>` (parent), `vmon shard ...` (child),
// `vmon replay <ID> <path>`, `vmon flavour <ID>`, `vmon list`.
package main

import (
	"fmt"
	"os"
	"strconv"
	"time"

	"github.com/bytemare/secp256k1/zz_verif/mon"
	"github.com/bytemare/secp256k1/zz_verif/props"
)

func usage() {
	fmt.Fprintln(os.Stderr, "usage: vmon check|shard|replay|flavour|list ...")
	os.Exit(mon.ExitInconclusive)
}

func main() {
	if len(os.Args) < 2 {
		usage()
	}

	switch os.Args[1] {
	case "list":
		for _, id := range props.IDs() {
			fmt.Println(id, props.Registry[id].Flavour)
		}
	case "flavour":
		p := props.Registry[os.Args[2]]
		if p == nil {
			os.Exit(mon.ExitInconclusive)
		}

		fmt.Println(p.Flavour)
	case "check":
		if len(os.Args) < 5 {
			usage()
		}

		p := props.Registry[os.Args[2]]
		if p == nil {
			fmt.Println("INCONCLUSIVE unknown property", os.Args[2])
			os.Exit(mon.ExitInconclusive)
		}

		seed, _ := strconv.ParseUint(os.Args[4], 10, 64)
		exe, _ := os.Executable()
		pc := &mon.ParentCtx{
			Tier: os.Args[3], Seed: seed, Scratch: os.Getenv("VMON_SCRATCH"), VerifDir: os.Getenv("VERIF_DIR"), OutDir: os.Getenv("VERIF_OUT_DIR"),
			Exe: exe, Start: time.Now(),
		}

		if ts := os.Getenv("VMON_START_UNIX"); ts != "" {
			if v, err := strconv.ParseInt(ts, 10, 64); err == nil {
				pc.Start = time.Unix(v, 0)
			}
		}

		if pc.Scratch == "" || pc.VerifDir == "" {
			fmt.Println("INCONCLUSIVE VMON_SCRATCH / VERIF_DIR not set (run through ./check)")
			os.Exit(mon.ExitInconclusive)
		}

		os.Exit(mon.CheckMain(p, pc))
	case "shard":
		// shard <ID> <tier> <seed> <i> <out>
		if len(os.Args) < 7 {
			usage()
		}

		p := props.Registry[os.Args[2]]
		seed, _ := strconv.ParseUint(os.Args[4], 10, 64)
		i, _ := strconv.Atoi(os.Args[5])
		os.Exit(mon.ShardMain(p, os.Args[3], seed, i, os.Args[6]))
	case "replay":
		p := props.Registry[os.Args[2]]
		if p == nil {
			usage()
		}

		os.Exit(mon.ReplayMain(p, os.Args[3]))
	default:
		if f := props.Commands[os.Args[1]]; f != nil {
			os.Exit(f(os.Args[2:]))
		}

		usage()
	}
}
