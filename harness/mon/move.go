//go:build verif

package mon

import (
	"bytes"
	"crypto/rand"
	"fmt"
	"math/big"

	"github.com/bytemare/secp256k1"
	"github.com/bytemare/secp256k1/internal/field"
	"github.com/bytemare/secp256k1/zz_verif/gen"
	"github.com/bytemare/secp256k1/zz_verif/oracle"
)

// Moves: "same object, new value". A property that quantifies over all values implicitly says that what an object
// reports depends only on its current value, not on what it held before or how it got there. A Move takes an object
// that holds From (and has already been observed, so that any memo is filled), drives it to To through one particular
// mutator of the public API, and lets the check observe it again. Hidden caches that one mutator forgets to
// invalidate show up as a disagreement with the oracle value of To.

// ScalarMove is a JSON-serialisable transition of one *Scalar object.
type ScalarMove struct {
	Via  string `json:"via"`
	From string `json:"from"`
	To   string `json:"to"`
	Aux  string `json:"aux,omitempty"`
	Cond uint64 `json:"cond,omitempty"`
	// FromVia: how the object came to hold From before it is moved: "" (limbs written), "setuint64", "decode", "add"
	// (From-1 plus one), "random" (scripted entropy) — whatever bookkeeping those paths attach to an object is then present.
	FromVia string `json:"from_via,omitempty"`
}

// Havoc is the To of a move whose outcome the statement of no property fixes (a rejected Decode of a value >= n
// overwrites the receiver): the object's value afterwards is whatever Encode reports, and every other observer must
// agree with that.
const Havoc = "havoc"

// Start returns a scalar object holding From, built the way FromVia says.
func (mv ScalarMove) Start() *secp256k1.Scalar {
	from := BigH(mv.From)

	switch mv.FromVia {
	case "setuint64":
		if !from.IsUint64() {
			panic("harness: setuint64 start value does not fit")
		}

		return secp256k1.NewScalar().SetUInt64(from.Uint64())
	case "decode":
		s := secp256k1.NewScalar()
		if err := s.Decode(oracle.Bytes32(from)); err != nil {
			panic("harness: scalar start value rejected: " + err.Error())
		}

		return s
	case "add":
		return Scal(oracle.Mod(new(big.Int).Sub(from, big.NewInt(1)), oracle.N)).Add(secp256k1.NewScalar().One())
	case "random":
		if from.Sign() == 0 {
			return secp256k1.NewScalar()
		}

		old := rand.Reader
		rand.Reader = bytes.NewReader(oracle.Bytes32(from))

		defer func() { rand.Reader = old }()

		return secp256k1.NewScalar().Random()
	}

	return Scal(from)
}

// MoveScalar builds the object of a move, lets observe look at it while it holds From (so that anything memoised is
// filled), applies the move and returns the object together with the value it must now hold. A panic of the mutator is
// returned as panicked/pv (harness panics are re-raised).
func MoveScalar(mv ScalarMove, observe func(*secp256k1.Scalar)) (s *secp256k1.Scalar, to *big.Int, panicked bool, pv any) {
	s = mv.Start()

	if observe != nil {
		observe(s)
	}

	if panicked, pv = Call(func() { ApplyScalarMove(s, mv) }); panicked {
		if IsHarnessPanic(pv) {
			panic(pv)
		}

		return s, nil, true, pv
	}

	if mv.To == Havoc {
		return s, ScalVal(s), false, nil
	}

	return s, BigH(mv.To), false, nil
}

// ScalarVias lists the mutators a scalar can be moved through.
var ScalarVias = []string{
	"set", "decode", "unmarshal", "decodehex", "cselect0", "cselect1", "cselect-high", "add", "sub", "mul", "setuint64",
	"zero", "one", "minusone", "random", "invert", "pow", "square", "set-nil", "mul-nil", "pow-nil", "decode-rejected",
	"random-high", "random-retry",
	"add-self", "sub-self", "mul-self", "set-self", "cselect-self", "pow-self", "add-to-zero", "add-to-one", "sub-equal", "decode-rejected-range",
	"unmarshal-rejected-range", "decodehex-rejected-range", "lessorequal-nil-recovered", "random-fault-recovered", "copy-then-change-copy", "set-then-change-source", "copy-from-then-change-source",
	"arg-of-panicking-call", "argument-of-calls", "random-skip-then-fault-recovered", "mul-special",
}

// MulSpecialIndex, when >= 0, fixes the pair of factors of the next "mul-special" plan (0..NMulSpecial-1) instead of drawing it.
var MulSpecialIndex = -1

// NMulSpecial is the number of factor pairs of the "mul-special" move.
const NMulSpecial = 36

// PlanScalarMove draws a transition through the given mutator.
func PlanScalarMove(via string, r *gen.Rng) ScalarMove {
	n := oracle.N
	hx := func(v *big.Int) string { return fmt.Sprintf("%x", v) }
	from := gen.Draw(r, n).X
	to := gen.Draw(r, n).X
	mv := ScalarMove{Via: via}

	switch via {
	case "setuint64":
		to = new(big.Int).SetUint64(r.U64() >> uint(r.Intn(64)))
	case "zero", "set-nil", "mul-nil":
		to = new(big.Int)
	case "one", "pow-nil":
		to = big.NewInt(1)
	case "minusone":
		to = new(big.Int).Sub(n, big.NewInt(1))
	case "mul":
		if from.Sign() == 0 {
			from = big.NewInt(3)
		}
	case "mul-special":
		// both factors from {0, 1, 2, n-1, n-2, (n+1)/2}: the joint special cases of a multiplication with fast paths
		sp := []*big.Int{new(big.Int), big.NewInt(1), big.NewInt(2), new(big.Int).Sub(n, big.NewInt(1)), new(big.Int).Sub(n, big.NewInt(2)), new(big.Int).Rsh(new(big.Int).Add(n, big.NewInt(1)), 1)}
		k := r.Intn(len(sp) * len(sp))
		if MulSpecialIndex >= 0 {
			k = MulSpecialIndex % (len(sp) * len(sp))
		}

		from = sp[k%len(sp)]
		arg := sp[k/len(sp)]
		to = oracle.Mod(new(big.Int).Mul(from, arg), n)
		mv.Aux = hx(arg)
	case "invert", "pow":
		if to.Sign() == 0 {
			to = big.NewInt(5)
		}

		from = new(big.Int).ModInverse(to, n)
	case "square":
		to = oracle.Mod(new(big.Int).Mul(from, from), n)
	case "random", "random-retry":
		if to.Sign() == 0 {
			to = big.NewInt(9)
		}
	case "random-high":
		// the entropy source delivers to+n, an integer in [n, 2^256): Random must reduce it
		to = oracle.Mod(to, new(big.Int).Sub(new(big.Int).Lsh(big.NewInt(1), 256), n))
		if to.Sign() == 0 {
			to = big.NewInt(9)
		}
	case "cselect-high":
		mv.Cond = uint64(1) << uint(1+r.Intn(63))
	case "decode-rejected":
		// a rejected decode of a wrong-length input must at least leave something consistent: the value stays From
		to = from
	}

	// one time in three the object starts from a 64-bit value set through SetUInt64 (top bit set half of the time), where
	// the mutator leaves the start value free
	free := map[string]bool{"set": true, "decode": true, "unmarshal": true, "decodehex": true, "cselect0": true, "cselect1": true, "cselect-high": true, "add": true, "sub": true,
		"setuint64": true, "zero": true, "one": true, "minusone": true, "random": true, "random-high": true, "random-retry": true, "set-nil": true, "mul-nil": true, "pow-nil": true,
		"decode-rejected": true, "square": true, "add-self": true, "sub-self": true, "mul-self": true, "set-self": true, "cselect-self": true, "pow-self": true, "add-to-zero": true,
		"add-to-one": true, "sub-equal": true, "decode-rejected-range": true, "unmarshal-rejected-range": true, "decodehex-rejected-range": true, "lessorequal-nil-recovered": true,
		"random-fault-recovered": true, "copy-then-change-copy": true, "set-then-change-source": true, "copy-from-then-change-source": true, "arg-of-panicking-call": true, "argument-of-calls": true, "random-skip-then-fault-recovered": true}

	if free[via] {
		switch r.Intn(6) {
		case 0, 1:
			u := r.U64() >> uint(r.Intn(8))
			if r.Bool() {
				u |= 1 << 63
			}

			from = new(big.Int).SetUint64(u)
			mv.FromVia = "setuint64"
		case 2:
			mv.FromVia = "decode"
		case 3:
			mv.FromVia = "add"
		case 4:
			mv.FromVia = "random"
		}
	}

	if from.Sign() == 0 && (via == "add-to-zero" || via == "add-to-one" || via == "pow-self") {
		from = big.NewInt(7)
		mv.FromVia = ""
	}

	havoc := false

	switch via {
	case "square", "mul-self":
		to = oracle.Mod(new(big.Int).Mul(from, from), n)
	case "add-self":
		to = oracle.Mod(new(big.Int).Lsh(from, 1), n)
	case "sub-self", "add-to-zero", "sub-equal":
		to = new(big.Int)
	case "add-to-one":
		to = big.NewInt(1)
	case "set-self", "cselect-self", "lessorequal-nil-recovered", "random-fault-recovered", "copy-then-change-copy", "set-then-change-source", "copy-from-then-change-source", "decode-rejected", "arg-of-panicking-call", "argument-of-calls":
		to = from
	case "pow-self":
		to = new(big.Int).Exp(from, from, n)
	case "decode-rejected-range", "unmarshal-rejected-range", "decodehex-rejected-range", "random-skip-then-fault-recovered":
		havoc = true
	}

	if via == "cselect-self" {
		mv.Cond = []uint64{0, 1, 2, 1 << 63, ^uint64(0)}[r.Intn(5)]
	}

	if via == "random-fault-recovered" {
		mv.Cond = uint64(r.Intn(32)) // bytes the source delivers before it fails
	}

	mv.From, mv.To = hx(from), hx(to)

	if a := hx(gen.Draw(r, n).X); mv.Aux == "" {
		mv.Aux = a
	}

	if havoc && via == "random-skip-then-fault-recovered" {
		// the source delivers a block that must be skipped (0 or n, by Cond), then Cond%32 more bytes, then fails
		mv.Cond = uint64(r.Intn(64))
		mv.To = Havoc

		return mv
	}

	if havoc {
		// Aux is the rejected input: an integer in [n, 2^256)
		span := new(big.Int).Sub(new(big.Int).Lsh(big.NewInt(1), 256), n)

		var v *big.Int

		switch r.Intn(5) {
		case 0:
			v = new(big.Int).Set(n)
		case 1:
			v = new(big.Int).Add(n, big.NewInt(int64(1+r.Intn(3))))
		case 2:
			v = new(big.Int).Sub(new(big.Int).Lsh(big.NewInt(1), 256), big.NewInt(int64(1+r.Intn(3))))
		default:
			v = new(big.Int).Add(n, oracle.Mod(gen.Draw(r, n).X, span))
		}

		mv.Aux, mv.To = hx(v), Havoc
	}

	return mv
}

// ApplyScalarMove performs the transition on s, which must currently hold From.
func ApplyScalarMove(s *secp256k1.Scalar, mv ScalarMove) {
	n := oracle.N
	from, to, aux := BigH(mv.From), new(big.Int), BigH(mv.Aux)
	if mv.To != Havoc {
		to = BigH(mv.To)
	}

	must := func(err error) {
		if err != nil {
			panic("harness: scalar move " + mv.Via + " rejected a canonical value: " + err.Error())
		}
	}

	switch mv.Via {
	case "set":
		s.Set(Scal(to))
	case "decode":
		buf := oracle.Bytes32(to)
		must(s.Decode(buf))
		scribble(buf) // the caller reuses its buffer: the scalar must not have kept it
	case "unmarshal":
		buf := oracle.Bytes32(to)
		must(s.UnmarshalBinary(buf))
		scribble(buf)
	case "decodehex":
		must(s.DecodeHex(H(oracle.Bytes32(to))))
	case "cselect0":
		must(s.CSelect(0, Scal(to), Scal(aux)))
	case "cselect1":
		must(s.CSelect(1, Scal(aux), Scal(to)))
	case "cselect-high":
		must(s.CSelect(mv.Cond, Scal(aux), Scal(to)))
	case "add":
		s.Add(Scal(oracle.Mod(new(big.Int).Sub(to, from), n)))
	case "sub":
		s.Subtract(Scal(oracle.Mod(new(big.Int).Sub(from, to), n)))
	case "mul":
		s.Multiply(Scal(oracle.Mod(new(big.Int).Mul(to, new(big.Int).ModInverse(from, n)), n)))
	case "mul-special":
		if aux.Cmp(new(big.Int).Sub(n, big.NewInt(1))) == 0 {
			s.Multiply(secp256k1.NewScalar().MinusOne()) // the argument as the library itself makes it
		} else {
			s.Multiply(Scal(aux))
		}
	case "setuint64":
		s.SetUInt64(to.Uint64())
	case "zero":
		s.Zero()
	case "one":
		s.One()
	case "minusone":
		s.MinusOne()
	case "random":
		old := rand.Reader
		rand.Reader = bytes.NewReader(oracle.Bytes32(to))

		defer func() { rand.Reader = old }()

		s.Random()
	case "random-high":
		old := rand.Reader
		rand.Reader = bytes.NewReader(oracle.Bytes32(new(big.Int).Add(to, n)))

		defer func() { rand.Reader = old }()

		s.Random()
	case "random-retry":
		// the first draws are 0 modulo n (0, n): Random never returns zero and must draw again
		old := rand.Reader
		rand.Reader = bytes.NewReader(append(append(make([]byte, 32), oracle.Bytes32(n)...), oracle.Bytes32(to)...))

		defer func() { rand.Reader = old }()

		s.Random()
	case "invert":
		s.Invert()
	case "pow":
		s.Pow(Scal(new(big.Int).Sub(n, big.NewInt(2))))
	case "square":
		s.Square()
	case "set-nil":
		s.Set(nil).Set(NilScal)
	case "mul-nil":
		s.Multiply(NilScal)
	case "pow-nil":
		s.Pow(nil).Pow(NilScal)
	case "decode-rejected":
		_ = s.Decode(oracle.Bytes32(to)[:31])
	case "add-self":
		s.Add(s)
	case "sub-self":
		s.Subtract(s)
	case "mul-self":
		s.Multiply(s)
	case "set-self":
		s.Set(s)
	case "cselect-self":
		must(s.CSelect(mv.Cond, s, s))
	case "pow-self":
		s.Pow(s)
	case "add-to-zero":
		s.Add(Scal(new(big.Int).Sub(n, from)))
	case "add-to-one":
		s.Add(Scal(oracle.Mod(new(big.Int).Sub(big.NewInt(1), from), n)))
	case "sub-equal":
		s.Subtract(Scal(from))
	case "decode-rejected-range", "unmarshal-rejected-range", "decodehex-rejected-range":
		var err error

		switch mv.Via {
		case "decode-rejected-range":
			err = s.Decode(oracle.Bytes32(aux))
		case "unmarshal-rejected-range":
			err = s.UnmarshalBinary(oracle.Bytes32(aux))
		default:
			err = s.DecodeHex(H(oracle.Bytes32(aux)))
		}

		if err == nil {
			panic("harness: scalar move " + mv.Via + ": a value >= n was accepted (C07's business)")
		}
	case "lessorequal-nil-recovered":
		// the documented misuse: LessOrEqual dereferences its argument; the caller recovers and carries on
		_, _ = Call(func() { s.LessOrEqual(nil) })
	case "random-fault-recovered":
		old := rand.Reader
		rand.Reader = bytes.NewReader(oracle.Bytes32(aux)[:int(mv.Cond%32)])

		func() {
			defer func() { rand.Reader = old }()

			_, _ = Call(func() { s.Random() })
		}()
	case "arg-of-panicking-call":
		// the object is the ARGUMENT of calls that panic on a nil receiver and are recovered
		_, _ = Call(func() { NilScal.Subtract(s) })
		_, _ = Call(func() { NilScal.Add(s) })
		_, _ = Call(func() { NilScal.Multiply(s) })
		_, _ = Call(func() { NilScal.Set(s) })
		_, _ = Call(func() { _ = NilScal.Equal(s) })
		_, _ = Call(func() { _ = NilScal.LessOrEqual(s) })
	case "argument-of-calls":
		// the object is the (read-only) argument of every call that takes a scalar
		o := Scal(aux)
		_ = s.LessOrEqual(o)
		_ = o.Equal(s)
		o.Add(s).Subtract(s).Multiply(s)
		_ = o.CSelect(mv.Cond|1, s, s)
		o.Set(s).Pow(secp256k1.NewScalar().SetUInt64(3))
		secp256k1.Base().Multiply(s)
		secp256k1.NewElement().Multiply(s)             // an identity receiver
		secp256k1.Base().Subtract(secp256k1.Base()).Multiply(s) // ... as arithmetic leaves it
		secp256k1.Base().Negate().Multiply(s)
		_, _ = o.Encode(), o.Bits()
		_ = Scal(aux).LessOrEqual(s) // last: the object as the ARGUMENT of a comparison
	case "random-skip-then-fault-recovered":
		skip := make([]byte, 32)
		if mv.Cond%2 == 1 {
			skip = oracle.Bytes32(n)
		}

		old := rand.Reader
		rand.Reader = bytes.NewReader(append(skip, oracle.Bytes32(aux)[:int(mv.Cond/2)%32]...))

		func() {
			defer func() { rand.Reader = old }()

			_, _ = Call(func() { s.Random() })
		}()
	case "copy-then-change-copy":
		_, _ = s.Bits(), s.Encode()
		c := s.Copy()
		c.Add(Scal(aux)).Square().Invert()
		_, _ = c.Encode(), c.Bits()
	case "set-then-change-source":
		src := Scal(from)
		_, _ = src.Bits(), src.Encode()
		s.Set(src)
		src.MinusOne().Square()
		_, _ = src.Encode(), src.Bits()
	case "copy-from-then-change-source":
		src := Scal(from)
		_, _ = src.Bits(), src.Encode()
		*s = *src.Copy() // the object under test IS the copy (a plain struct assignment of it, as callers do with value types)
		src.MinusOne().Square()
		_, _ = src.Encode(), src.Bits()
	default:
		panic("harness: unknown scalar move " + mv.Via)
	}
}

// scribble overwrites a buffer the harness handed to a decoder (what a caller does when it reuses the buffer).
func scribble(b []byte) {
	for i := range b {
		b[i] ^= 0xa5
	}
}

// PlanScalarMoveFrom is PlanScalarMove with the start value chosen by the caller (for the mutators that leave it free;
// the object then starts from written limbs).
func PlanScalarMoveFrom(via string, r *gen.Rng, from *big.Int) ScalarMove {
	n := oracle.N
	mv := PlanScalarMove(via, r)
	mv.FromVia = ""
	mv.From = fmt.Sprintf("%x", from)

	var to *big.Int

	switch via {
	case "square", "mul-self":
		to = oracle.Mod(new(big.Int).Mul(from, from), n)
	case "add-self":
		to = oracle.Mod(new(big.Int).Lsh(from, 1), n)
	case "sub-self", "sub-equal", "add-to-zero":
		to = new(big.Int)
	case "add-to-one":
		to = big.NewInt(1)
	case "set-self", "cselect-self", "copy-then-change-copy", "set-then-change-source", "lessorequal-nil-recovered", "random-fault-recovered", "decode-rejected":
		to = from
	case "pow-self":
		to = new(big.Int).Exp(from, from, n)
	default:
		panic("harness: PlanScalarMoveFrom does not support " + via)
	}

	mv.To = fmt.Sprintf("%x", to)

	return mv
}

// SelfVias are the scalar moves in which the object is its own argument or meets an equal / opposite value.
var SelfVias = []string{"add-self", "sub-self", "mul-self", "set-self", "cselect-self", "sub-equal", "add-to-zero", "square"}

// ElemMove is a JSON-serialisable transition of one *Element object.
type ElemMove struct {
	Via  string   `json:"via"`
	From ElemCase `json:"from"`
	To   PtCase   `json:"to"`
	Aux  ElemCase `json:"aux,omitempty"` // the argument element, where the mutator takes one
	K    string   `json:"k,omitempty"`
	// ZeroRecv: the object is a zero-value Element (new(Element), never initialised) instead of one holding From; only
	// used with mutators that overwrite the receiver completely.
	ZeroRecv bool `json:"zero_value_receiver,omitempty"`
	// Bad, BadDec (decode-rejected): the input (hex) that must be rejected, and the decoder it is given to.
	Bad    string `json:"bad,omitempty"`
	BadDec string `json:"bad_decoder,omitempty"`
}

// Start returns the object the move begins with.
func (mv ElemMove) Start() *secp256k1.Element {
	if mv.ZeroRecv {
		return new(secp256k1.Element)
	}

	return mv.From.Build()
}

// ElemVias lists the mutators an element can be moved through.
var ElemVias = []string{
	"set", "decode", "decodeC", "decodeU", "decodeU-any", "unmarshal", "decodehex", "coords", "identity", "base", "negate", "add", "sub",
	"double", "mul-small", "mul-n-1", "mul-1", "mul-0", "mul-nil", "add-nil", "sub-nil", "decode-identity", "decode-rejected", "sub-self", "add-self",
	"arg-of-panicking-call", "copy-then-change-copy", "set-then-change-source",
}

// PlanElemMove draws a transition through the given mutator.
func PlanElemMove(via string, r *gen.Rng) ElemMove {
	// one time in three the objects come out of the implementation's own decoder / operations rather than from raw
	// limbs, so that whatever bookkeeping those paths attach to an object is present
	nat := -1
	if r.Intn(3) == 0 {
		nat = 4 // nat-decode: value unchanged
	}

	return PlanElemMoveFrom(via, r, nat)
}

// PlanElemMoveFrom is PlanElemMove with the origin of the moved object chosen by the caller: natFrom < 0 = raw limbs in a
// drawn representation, otherwise the index of a natural kind (mon.NaturalKinds: 4 = out of the decoder, 7 = Base(), 0..3
// = left by Double / Add / Subtract / Multiply).
func PlanElemMoveFrom(via string, r *gen.Rng, natFrom int) ElemMove {
	fresh := func() gen.PV { return gen.Fresh(r) }
	from := fresh()
	fromCase := MkElemCase(from, gen.DrawRepr(r, false))
	aux := fresh()
	auxCase := MkElemCase(aux, gen.DrawRepr(r, false))

	if natFrom >= 0 {
		fromCase = MkNatElemCase(from, natFrom)
		from = gen.PV{P: fromCase.P.Pt(), Tag: fromCase.P.Tag}
	}

	if r.Intn(3) == 0 {
		auxCase = MkNatElemCase(aux, 4)
	}
	mv := ElemMove{Via: via, From: fromCase, Aux: auxCase}

	var to oracle.Pt

	switch via {
	case "set":
		to = aux.P
	case "decode", "decodeC", "decodeU", "decodeU-any", "unmarshal", "decodehex", "coords":
		to = aux.P
	case "identity", "mul-0", "mul-nil", "decode-identity", "sub-self":
		to = oracle.Inf()
	case "base":
		to = oracle.G()
	case "negate":
		to = oracle.Neg(from.P)
	case "add":
		to = oracle.Add(from.P, aux.P)
	case "sub":
		to = oracle.Sub(from.P, aux.P)
	case "double", "add-self":
		to = oracle.Dbl(from.P)
	case "mul-small":
		k := 2 + r.Intn(9)
		mv.K = fmt.Sprintf("%x", k)
		to = oracle.MulNaive(k, from.P)
	case "mul-n-1":
		mv.K = fmt.Sprintf("%x", new(big.Int).Sub(oracle.N, big.NewInt(1)))
		to = oracle.Neg(from.P)
	case "mul-1":
		mv.K = "1"
		to = from.P
	case "add-nil", "sub-nil", "arg-of-panicking-call", "copy-then-change-copy", "set-then-change-source":
		to = from.P
	case "decode-rejected":
		to = from.P
		mv.Bad, mv.BadDec = planRejected(aux.P, r)
	default:
		panic("harness: unknown element move " + via)
	}

	mv.To = PtToCase(to, via)

	switch via {
	case "set", "decode", "decodeC", "decodeU", "decodeU-any", "unmarshal", "decodehex", "coords", "identity", "base", "decode-identity":
		// mutators that overwrite the receiver completely must also work on a zero-value Element
		mv.ZeroRecv = r.Intn(4) == 0
	}

	return mv
}

// ApplyElemMove performs the transition on e, which must currently hold From.
func ApplyElemMove(e *secp256k1.Element, mv ElemMove) {
	to := mv.To.Pt()
	must := func(err error) {
		if err != nil {
			panic("harness: element move " + mv.Via + " rejected a valid encoding: " + err.Error())
		}
	}

	switch mv.Via {
	case "set":
		e.Set(mv.Aux.Build())
	case "decode":
		buf := oracle.EncC(to)
		must(e.Decode(buf))
		scribble(buf) // the caller reuses its buffer: the element must not have kept it
	case "decodeC":
		buf := oracle.EncC(to)
		must(e.DecodeCompressed(buf))
		scribble(buf)
	case "decodeU":
		buf := oracle.EncU(to)
		must(e.DecodeUncompressed(buf))
		scribble(buf)
	case "decodeU-any":
		buf := oracle.EncU(to)
		must(e.Decode(buf))
		scribble(buf)
	case "unmarshal":
		buf := oracle.EncC(to)
		must(e.UnmarshalBinary(buf))
		scribble(buf)
	case "decodehex":
		must(e.DecodeHex(H(oracle.EncC(to))))
	case "coords":
		must(e.DecodeCoordinates([32]byte(oracle.Bytes32(to.X)), [32]byte(oracle.Bytes32(to.Y))))
	case "identity":
		e.Identity()
	case "base":
		e.Base()
	case "negate":
		e.Negate()
	case "add":
		e.Add(mv.Aux.Build())
	case "sub":
		e.Subtract(mv.Aux.Build())
	case "double":
		e.Double()
	case "add-self":
		e.Add(e)
	case "sub-self":
		e.Subtract(e)
	case "mul-small", "mul-n-1", "mul-1":
		e.Multiply(Scal(BigH(mv.K)))
	case "mul-0":
		e.Multiply(secp256k1.NewScalar())
	case "mul-nil":
		e.Multiply(NilScal)
	case "add-nil":
		e.Add(nil).Add(NilElem)
	case "sub-nil":
		e.Subtract(nil).Subtract(NilElem)
	case "decode-identity":
		must(e.Decode([]byte{0}))
	case "arg-of-panicking-call":
		// the object is the ARGUMENT of calls that panic (a nil receiver) and are recovered by the caller: whatever the call
		// did to its argument on the way must have been undone
		_, _ = Call(func() { NilElem.Subtract(e) })
		_, _ = Call(func() { NilElem.Add(e) })
		_, _ = Call(func() { NilElem.Set(e) })
		_, _ = Call(func() { _ = NilElem.Equal(e) })
	case "copy-then-change-copy":
		_ = e.Encode()
		cp := e.Copy()
		cp.Double().Negate().Add(mv.Aux.Build())
		_, _ = cp.Encode(), cp.EncodeUncompressed()
	case "set-then-change-source":
		src := mv.From.Build()
		_, _ = src.Encode(), src.EncodeUncompressed()
		e.Set(src)
		src.Negate()
		_ = src.Encode()
		src.Double().Add(mv.Aux.Build())
		_, _ = src.Encode(), src.EncodeUncompressed()
	case "decode-rejected":
		bad := oracle.EncC(mv.Aux.P.Pt())
		bad[0] = 5

		if mv.Bad != "" {
			bad = UnH(mv.Bad)
		}

		var err error

		switch mv.BadDec {
		case "", "Decode":
			err = e.Decode(bad)
		case "DecodeCompressed":
			err = e.DecodeCompressed(bad)
		case "DecodeUncompressed":
			err = e.DecodeUncompressed(bad)
		case "UnmarshalBinary":
			err = e.UnmarshalBinary(bad)
		case "DecodeHex":
			err = e.DecodeHex(H(bad))
		case "DecodeCoordinates":
			err = e.DecodeCoordinates([32]byte(bad[1:33]), [32]byte(bad[33:65]))
		default:
			panic("harness: unknown decoder " + mv.BadDec)
		}

		if err == nil {
			// accepting it is a decoding defect (C03's business); a history built on it says nothing about this property
			panic("harness: element move decode-rejected: " + mv.BadDec + " accepted the invalid encoding " + mv.Bad)
		}
	default:
		panic("harness: unknown element move " + mv.Via)
	}
}

// planRejected draws an input that an element decoder must reject, failing at a different stage of the decoder each time
// (length, prefix, range of x, x not on the curve, range of y, curve equation), and the decoder to give it to.
func planRejected(p oracle.Pt, r *gen.Rng) (string, string) {
	if p.IsInf() {
		p = oracle.G()
	}

	small := func() *big.Int { return new(big.Int).Add(oracle.P, big.NewInt(int64(r.Intn(1000)))) } // in [p, 2^256)
	offX := new(big.Int).Set(p.X)

	for {
		if _, ok := oracle.LiftX(offX, 0); !ok {
			break
		}

		offX = oracle.FAdd(offX, big.NewInt(1))
	}

	c33 := func(pfx byte, x *big.Int) []byte { return append([]byte{pfx}, oracle.Bytes32(x)...) }
	u65 := func(pfx byte, x, y *big.Int) []byte { return append(c33(pfx, x), oracle.Bytes32(y)...) }

	var (
		bad  []byte
		decs []string
	)

	comp := []string{"Decode", "DecodeCompressed", "UnmarshalBinary", "DecodeHex"}
	unc := []string{"Decode", "DecodeUncompressed", "UnmarshalBinary", "DecodeHex", "DecodeCoordinates"}

	switch r.Intn(10) {
	case 0:
		bad, decs = c33(5, p.X), comp
	case 1:
		bad, decs = c33(2+byte(r.Intn(2)), small()), comp // x not reduced
	case 2:
		bad, decs = c33(2+byte(r.Intn(2)), offX), comp // x^3+7 not a square
	case 3:
		bad, decs = u65(4, p.X, oracle.FAdd(p.Y, big.NewInt(1))), unc // off the curve
	case 4:
		bad, decs = u65(4, p.X, small()), unc // y not reduced
	case 5:
		bad, decs = u65(4, small(), p.Y), unc // x not reduced
	case 6:
		bad, decs = oracle.EncC(p)[:32], comp[:3] // one byte short
	case 7:
		bad, decs = append(oracle.EncU(p), 0), unc[:3] // one byte long
	case 8:
		bad, decs = u65(4, offX, p.Y), unc // x on the twist, some y
	default:
		bad, decs = u65(6+byte(p.Y.Bit(0)), p.X, p.Y), unc[:4] // SEC1 hybrid form
	}

	return H(bad), decs[r.Intn(len(decs))]
}

var noiseExceptional = func() []*big.Int {
	ex, _ := oracle.FSqrt(oracle.FNeg(oracle.FInv0(oracle.Z)))
	return []*big.Int{big.NewInt(0), ex, oracle.FNeg(ex)}
}()

// Noise calls a few unrelated API functions on throw-away objects. A library without mutable global state cannot be
// influenced by it; a library that keeps one (a lazily initialised constant, a pooled buffer, a "last result" memo)
// may be. Checks sprinkle it between cases so that no monitored call is always the first of its kind in the process.
func Noise(r *gen.Rng) {
	for i := 0; i < 3; i++ {
		switch r.Intn(22) {
		case 20, 21:
			// inputs rejected at each stage of the decoders (length and prefix pass): abscissa not reduced, abscissa off the
			// curve, ordinate that does not match, coordinates off the curve, scalar out of range
			x := r.Bytes(32)
			y := r.Bytes(32)
			_ = secp256k1.NewElement().Decode(append([]byte{2}, x...))
			_ = secp256k1.NewElement().Decode(append([]byte{3}, oracle.Bytes32(new(big.Int).Add(oracle.P, big.NewInt(int64(r.Intn(900)))))...))
			_ = secp256k1.Base().DecodeCompressed(append([]byte{2}, make([]byte, 32)...))
			_ = secp256k1.Base().Decode(append(append([]byte{4}, x...), y...))
			_ = secp256k1.NewElement().DecodeUncompressed(append(append([]byte{4}, oracle.Bytes32(oracle.Gx)...), y...))
			_ = secp256k1.NewElement().DecodeCoordinates([32]byte(x), [32]byte(y))
			_ = secp256k1.NewScalar().Decode(oracle.Bytes32(new(big.Int).Add(oracle.N, big.NewInt(int64(r.Intn(900))))))
			_ = secp256k1.NewScalar().DecodeHex("zz")
		case 0:
			secp256k1.NewScalar().MinusOne()
		case 1:
			secp256k1.NewScalar().One().Invert()
		case 2:
			secp256k1.Order()[0] ^= 0xff
		case 3:
			secp256k1.Base().Double().Negate().Encode()[0] ^= 0xff
		case 4:
			secp256k1.NewElement().EncodeUncompressed()
		case 5:
			s := secp256k1.NewScalar().SetUInt64(r.U64())
			s.Pow(secp256k1.NewScalar().SetUInt64(3)).Bits()
		case 6:
			_ = secp256k1.NewScalar().Decode(oracle.Bytes32(oracle.N))
		case 7:
			_ = secp256k1.NewElement().Decode([]byte{2, 1, 2, 3})
		case 8:
			secp256k1.HashToScalar(r.Bytes(5), r.Bytes(1+r.Intn(300))).Encode()
		case 9:
			secp256k1.EncodeToGroup(r.Bytes(3), r.Bytes(1+r.Intn(40))).Encode()
		case 10:
			secp256k1.Base().Multiply(secp256k1.NewScalar().SetUInt64(uint64(r.Intn(5)))).Equal(secp256k1.Base())
		case 11:
			a := secp256k1.NewScalar().SetUInt64(r.U64())
			_ = a.CSelect(r.U64(), a, secp256k1.NewScalar())
			a.LessOrEqual(secp256k1.NewScalar())
		case 12:
			secp256k1.Base().Subtract(secp256k1.Base()).Encode()
		case 13:
			x := secp256k1.NewScalar().SetUInt64(r.U64() | 1)
			x.Copy().Invert().Multiply(x).IsOne()
		case 14:
			// the exported map-to-curve entry points on their exceptional inputs (u = 0 and u^2 = -1/Z)
			u := noiseExceptional[r.Intn(len(noiseExceptional))]
			q := secp256k1.IsogenySecp256k13iso(secp256k1.SSWU(FE(u)))
			_ = q.Encode()
			q.Add(secp256k1.Base()).Double() // what the map functions return is the caller's to work on

			// and the isogeny on the abscissa at which its denominators vanish; the result is worked on in place as well
			in := secp256k1.NewElement()
			xk := oracle.FMul(oracle.FNeg(oracle.K[1][1]), oracle.FInv0(big.NewInt(2)))
			secp256k1.VSetRaw(in, oracle.ToMont(xk, oracle.P), oracle.ToMont(big.NewInt(3), oracle.P), oracle.ToMont(big.NewInt(1), oracle.P))
			secp256k1.IsogenySecp256k13iso(in).Add(secp256k1.Base()).Negate()
		case 15:
			// the caller owns every slice it is handed
			e := secp256k1.Base().Double()
			for _, b := range [][]byte{e.Encode(), e.EncodeUncompressed(), e.XCoordinate(), secp256k1.NewElement().Encode(), secp256k1.NewElement().EncodeUncompressed(),
				secp256k1.NewScalar().Encode(), secp256k1.NewScalar().MinusOne().Encode(), secp256k1.Order()} {
				full := b[:cap(b)]
				for i := range full {
					full[i] ^= 0x3c
				}
			}
		case 16:
			var y field.Element
			secp256k1.Secp256Polynomial(&y, FE(big.NewInt(int64(r.Intn(9)))))
		case 17:
			// hashing with very short tags, all three functions on the same tag
			d := r.Bytes(1 + r.Intn(3))
			secp256k1.HashToGroup(r.Bytes(2), d)
			secp256k1.HashToScalar(r.Bytes(2), d)
			secp256k1.EncodeToGroup(r.Bytes(2), d)
		case 18:
			// caller bugs that panic inside the library (a nil receiver), recovered by the caller: whatever the call had
			// acquired by then must not stay acquired
			k := secp256k1.NewScalar().SetUInt64(5 + uint64(r.Intn(9)))
			_, _ = Call(func() { NilElem.Multiply(k) })
			_, _ = Call(func() { NilElem.Add(secp256k1.Base()) })
			_, _ = Call(func() { NilElem.Subtract(secp256k1.Base()) })
			_, _ = Call(func() { NilElem.Double() })
			_, _ = Call(func() { _ = NilElem.Encode() })
			_, _ = Call(func() { _ = NilElem.Decode(secp256k1.Base().Encode()) })
			_, _ = Call(func() { NilScal.Add(k) })
			_, _ = Call(func() { NilScal.Pow(k) })
			_, _ = Call(func() { NilScal.Random() })
			_, _ = Call(func() { _ = NilScal.Encode() })
			_, _ = Call(func() { k.LessOrEqual(nil) })
			_, _ = Call(func() { secp256k1.SSWU(nil) })
			_, _ = Call(func() { secp256k1.IsogenySecp256k13iso(nil) })
			_, _ = Call(func() { secp256k1.Secp256Polynomial(nil, nil) })
		default:
			// the documented mistake, recovered from
			_, _ = Call(func() { secp256k1.HashToGroup([]byte("x"), nil) })
			_, _ = Call(func() { secp256k1.EncodeToGroup(nil, []byte{}) })
		}
	}
}

// ConstantsIntact reads the values the package hands out as constants (the identity, the generator, 0, 1, -1, the order)
// through fresh objects and compares them with the oracle; it returns "" or what is wrong.
func ConstantsIntact() string {
	if e := secp256k1.NewElement(); !e.IsIdentity() || !bytes.Equal(e.Encode(), []byte{0}) {
		return "NewElement() is no longer the identity"
	}

	if e := secp256k1.Base().Identity(); !e.IsIdentity() || !bytes.Equal(e.Encode(), []byte{0}) {
		return "Identity() is no longer the identity"
	}

	if e := secp256k1.Base(); !bytes.Equal(e.Encode(), oracle.EncC(oracle.G())) {
		return "Base() is no longer the generator"
	}

	if e := secp256k1.Base().Double(); !bytes.Equal(e.Encode(), oracle.EncC(oracle.Dbl(oracle.G()))) {
		return "Base().Double() is no longer 2G"
	}

	if e := secp256k1.Base().Subtract(secp256k1.Base()); !e.IsIdentity() {
		return "G - G is no longer the identity"
	}

	n1 := new(big.Int).Sub(oracle.N, big.NewInt(1))
	if s := secp256k1.NewScalar(); !s.IsZero() || ScalVal(s.One()).Cmp(big.NewInt(1)) != 0 || ScalVal(s.MinusOne()).Cmp(n1) != 0 {
		return "NewScalar() / One() / MinusOne() are no longer 0 / 1 / n-1"
	}

	if !bytes.Equal(secp256k1.Order(), oracle.Bytes32(oracle.N)) {
		return "Order() is no longer n"
	}

	return ""
}
