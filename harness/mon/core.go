//go:build verif

// Package mon is the monitoring framework: per-shard contexts that count what was observed, the parent that fans a
// deterministic case list out to child processes and aggregates their results, and the evidence / replay writers.
package mon

import (
	"crypto"
	"crypto/sha256"
	"crypto/sha512"
	"hash"
	"crypto/rand"
	"encoding/binary"
	"errors"
	"encoding/json"
	"fmt"
	"hash/fnv"
	"os"
	"runtime"
	"runtime/debug"
	"sort"
	"strconv"
	"strings"
	"sync"
	"sync/atomic"

	"github.com/bytemare/secp256k1/zz_verif/gen"
)

// NShards is fixed so that the case list is a pure function of (property, tier, seed), whatever the machine.
const NShards = 16

// Prop describes one property check.
type Prop struct {
	ID      string
	Flavour string // build flavour needed: plain | race | trace | shadow
	Rule    string // how cases are generated and what makes one distinct / non-trivial (evidence text)
	Assume  []string
	// NewCase returns a pointer to a zero case struct (used to decode replay files).
	NewCase func() any
	// Generate enumerates the cases through c.Structured / c.Random.
	Generate func(c *Ctx)
	// Run executes one case against the implementation and reports through c.
	Run func(c *Ctx, cs any)
	// Require lists counters/classes that must be at least the given value over the whole run (else inconclusive).
	Require func(tier string) map[string]int64
	// Parent, when set, replaces the standard fan-out (C16, C17).
	Parent func(p *Prop, pc *ParentCtx) *Aggregate
	// ColdStart, when set, runs first in every shard process, before anything else has used the library in that process
	// (first-use races on lazily initialised package state only exist there). It reports through c like a case.
	ColdStart func(c *Ctx)
	// NoNoise disables the API-noise bursts between cases.
	NoNoise bool
	// Finish, when set, runs in each shard after Generate (e.g. to flush per-shard coverage bitmaps).
	Finish func(c *Ctx)
}

// Violation is one observed refutation.
type Violation struct {
	Property string `json:"property"`
	What     string `json:"what"`
	// Key identifies the failing input / call site for the known-findings filter.
	Key  string `json:"key"`
	Case any    `json:"case"`
	More any    `json:"more,omitempty"`
}

// ShardResult is what a child process reports.
type ShardResult struct {
	Property       string           `json:"property"`
	Tier           string           `json:"tier"`
	Seed           uint64           `json:"seed"`
	Shard          int              `json:"shard"`
	Evaluations    int64            `json:"evaluations"`
	Counters       map[string]int64 `json:"counters"`
	Samples        []any            `json:"samples"`
	Violations     []Violation      `json:"violations"`
	ViolationCount int64            `json:"violation_count"`
	Inconclusive   string           `json:"inconclusive,omitempty"`
	Notes          []string         `json:"notes,omitempty"`
	Bitmaps        map[string][]byte `json:"bitmaps,omitempty"`
	Done           bool             `json:"done"`
}

// Ctx is the per-shard monitoring context.
type Ctx struct {
	Prop   *Prop
	Tier   string
	Seed   uint64
	Shard  int
	Replay bool
	Rng    *gen.Rng // shard-specific stream for Random cases
	Res    ShardResult

	idx       int64
	scale     int          // VMON_SCALE: divisor of tier-dependent sizes (slow build variants)
	caseSeq   atomic.Int64 // bumped at the start of every case: read by the livelock watch
	distinct  map[uint64]struct{}
	maxSample int
	maxViol   int
	cur       any
	paranoid  string
	noiseRng  *gen.Rng
	noiseN    int64
	// Scratch is available to a property for per-shard state (pools etc.).
	Scratch map[string]any
}

func NewCtx(p *Prop, tier string, seed uint64, shard int) *Ctx {
	return &Ctx{
		Prop: p, Tier: tier, Seed: seed, Shard: shard,
		Rng:       gen.New(seed, fmt.Sprintf("%s/shard%d", p.ID, shard)),
		Res:       ShardResult{Property: p.ID, Tier: tier, Seed: seed, Shard: shard, Counters: map[string]int64{}, Bitmaps: map[string][]byte{}},
		distinct:  map[uint64]struct{}{},
		maxSample: 2, maxViol: 10,
		paranoid: os.Getenv("VMON_PARANOID"),
		noiseRng: gen.New(seed, fmt.Sprintf("%s/noise%d", p.ID, shard)),
		Scratch:  map[string]any{},
		scale:    func() int { n, _ := strconv.Atoi(os.Getenv("VMON_SCALE")); return n }(),
	}
}

// Thorough reports whether the thorough tier is running.
func (c *Ctx) Thorough() bool { return c.Tier == "thorough" }

// N picks the tier-dependent size.
func (c *Ctx) N(quick, thorough int) int {
	n := quick
	if c.Thorough() {
		n = thorough
	}

	// a child running a much slower build of the monitors (the race detector's) takes a fraction of every tier-sized list
	if c.scale > 1 && n > c.scale {
		n /= c.scale
	}

	return n
}

// Stride is 1, or the scale divisor in a child that runs a much slower build of the monitors: such a child takes every
// Stride-th entry of the long structured lists (the ordinary shards take all of them).
func (c *Ctx) Stride() int {
	if c.scale > 1 {
		return c.scale
	}

	return 1
}

// NConc is N for the sizes of CONCURRENT workloads: not scaled down in the slow build variants (the race detector's build
// is where they matter most).
func (c *Ctx) NConc(quick, thorough int) int {
	if c.Thorough() {
		return thorough
	}

	return quick
}

// SharedRng returns a stream that is identical in every shard (for building shared pools and structured lists).
func (c *Ctx) SharedRng(name string) *gen.Rng { return gen.New(c.Seed, c.Prop.ID+"/shared/"+name) }

// Structured submits one case of the deterministic list; it runs in exactly one shard.
func (c *Ctx) Structured(mk func() any) {
	i := c.idx
	c.idx++

	if c.Replay || int(i%NShards) != c.Shard {
		return
	}

	c.exec(mk())
}

// Random submits total PRNG-generated cases, split evenly over the shards; mk draws from the shard's own stream.
func (c *Ctx) Random(total int, mk func(r *gen.Rng) any) {
	if c.Replay {
		return
	}

	n := total / NShards
	if c.Shard < total%NShards {
		n++
	}

	for i := 0; i < n; i++ {
		c.exec(mk(c.Rng))
	}
}

// Exec runs one case unconditionally (used by replay).
func (c *Ctx) Exec(cs any) { c.exec(cs) }

func (c *Ctx) exec(cs any) {
	c.cur = cs
	c.caseSeq.Add(1)

	if c.paranoid != "" {
		b, _ := json.Marshal(cs)
		_ = os.WriteFile(c.paranoid, b, 0o644)
	}

	defer func() {
		if r := recover(); r != nil {
			if s, ok := r.(string); ok && strings.HasPrefix(s, "harness:") {
				c.Inconclusive(s)
				return
			}
			// A panic that escaped the property's own call guards: either the library panicked where the harness
			// did not expect it, or the harness is wrong. Report it with the stack so that it can be told apart.
			c.Fail("unexpected panic: "+fmt.Sprint(r), "unexpected-panic", map[string]any{"stack": string(debug.Stack())})
		}
	}()

	// API noise between cases: unrelated calls on throw-away objects (see Noise). Always before the first few cases of
	// a shard, then before one case in eight.
	if !c.Prop.NoNoise && (c.noiseN < 4 || c.noiseRng.Intn(8) == 0) {
		c.noiseN++
		c.Res.Counters["api-noise-bursts"]++

		if pan, pv := Call(func() { Noise(c.noiseRng) }); pan {
			c.Fail(fmt.Sprintf("an unrelated API call made between cases panicked: %v", pv), "noise-panic", nil)
		}

		// what the package hands out as constants is still what it was (the caller worked, in place, only on values it had
		// been handed)
		c.Res.Counters["package-constants-rechecked"]++

		var why string

		if pan, pv := Call(func() { why = ConstantsIntact() }); pan {
			why = fmt.Sprint("reading the package's constants panicked: ", pv)
		}

		if why != "" {
			c.Fail("after unrelated API calls on values owned by the caller, "+why, "package-state-corrupted", nil)
		}
	}

	// Hostile ambient entropy for one case in eight: crypto/rand.Reader serves a degenerate prefix (all zero, the bytes
	// of p, the bytes of n, all ones) before pseudo-random bytes. The library reads entropy only in Scalar.Random, which
	// the checks script themselves, so on a tree that holds the properties this changes nothing; an operation that starts
	// to depend on "random" blinding or nonces is exposed to the values it must not trust.
	firstOfShard := c.caseSeq.Load() == 1 && c.Shard%4 == 1

	if !c.Prop.NoNoise && (firstOfShard || c.noiseRng.Intn(8) == 0) {
		old := rand.Reader
		hr := newHostileReader(c.noiseRng)

		if firstOfShard {
			// the very first monitored call of this process meets an entropy source that fails: what the library sets up once
			// per process must not be left half-made by that
			hr.failures = 2
		}

		rand.Reader = hr

		c.Res.Counters["cases-run-under-hostile-entropy"]++

		defer func() { rand.Reader = old }()
	}

	// A hostile hash registry for one case in eight: some other package of the program has (re-)registered crypto.SHA256
	// with something that is not SHA-256. A library that links and calls its hash directly never notices; one that looks
	// it up in the process-wide registry computes garbage.
	if !c.Prop.NoNoise && c.noiseRng.Intn(8) == 0 {
		crypto.RegisterHash(crypto.SHA256, func() hash.Hash { return sha512.New512_256() })

		c.Res.Counters["cases-run-under-a-hostile-hash-registry"]++

		defer crypto.RegisterHash(crypto.SHA256, sha256.New)
	}

	c.Prop.Run(c, cs)
}

type hostileReader struct {
	failures int
	prefix []byte
	pos    int
	r      *gen.Rng
}

var hostilePrefixes = [][]byte{
	make([]byte, 32),
	{0xff, 0xff, 0xff, 0xff, 0xff, 0xff, 0xff, 0xff, 0xff, 0xff, 0xff, 0xff, 0xff, 0xff, 0xff, 0xff, 0xff, 0xff, 0xff, 0xff, 0xff, 0xff, 0xff, 0xff, 0xff, 0xff, 0xff, 0xfe, 0xff, 0xff, 0xfc, 0x2f}, // p
	{0xff, 0xff, 0xff, 0xff, 0xff, 0xff, 0xff, 0xff, 0xff, 0xff, 0xff, 0xff, 0xff, 0xff, 0xff, 0xfe, 0xba, 0xae, 0xdc, 0xe6, 0xaf, 0x48, 0xa0, 0x3b, 0xbf, 0xd2, 0x5e, 0x8c, 0xd0, 0x36, 0x41, 0x41}, // n
	{0xff, 0xff, 0xff, 0xff, 0xff, 0xff, 0xff, 0xff, 0xff, 0xff, 0xff, 0xff, 0xff, 0xff, 0xff, 0xff, 0xff, 0xff, 0xff, 0xff, 0xff, 0xff, 0xff, 0xff, 0xff, 0xff, 0xff, 0xff, 0xff, 0xff, 0xff, 0xff},
}

func newHostileReader(r *gen.Rng) *hostileReader {
	pat := hostilePrefixes[r.Intn(len(hostilePrefixes))]

	var prefix []byte
	for i := 0; i < 4; i++ {
		prefix = append(prefix, pat...)
	}

	h := &hostileReader{prefix: prefix, r: gen.New(r.U64(), "hostile-entropy")}

	// one time in three the source FAILS its first reads (one to three of them) before it serves anything
	if r.Intn(3) == 0 {
		h.failures = 1 + r.Intn(3)
	}

	return h
}

func (h *hostileReader) Read(p []byte) (int, error) {
	if h.failures > 0 {
		h.failures--
		return 0, errors.New("entropy source not ready (injected)")
	}

	for i := range p {
		if h.pos < len(h.prefix) {
			p[i] = h.prefix[h.pos]
		} else {
			p[i] = byte(h.r.U64())
		}

		h.pos++
	}

	return len(p), nil
}

// Eval counts n monitored calls.
func (c *Ctx) Eval(n int) { c.Res.Evaluations += int64(n) }

// Count bumps a named counter (input classes, API functions, branch outcomes...).
func (c *Ctx) Count(name string) { c.Res.Counters[name]++ }

// CountN adds n to a named counter.
func (c *Ctx) CountN(name string, n int64) { c.Res.Counters[name] += n }

// Seen records the fingerprint of a non-trivial case for the distinct count.
func (c *Ctx) Seen(parts ...any) {
	h := fnv.New64a()
	fmt.Fprint(h, parts...)
	c.distinct[h.Sum64()] = struct{}{}
}

// SetBit sets a bit in a named coverage bitmap (OR-ed over shards by the parent).
func (c *Ctx) SetBit(name string, size, i int) {
	b := c.Res.Bitmaps[name]
	if b == nil {
		b = make([]byte, (size+7)/8)
		c.Res.Bitmaps[name] = b
	}

	b[i/8] |= 1 << (i % 8)
}

// Sample keeps a few cases, written out in full, for the evidence file.
func (c *Ctx) Sample(v any) {
	if len(c.Res.Samples) < c.maxSample {
		c.Res.Samples = append(c.Res.Samples, v)
	}
}

// WantSample says whether another sample would be kept (avoid building expensive sample objects otherwise).
func (c *Ctx) WantSample() bool { return len(c.Res.Samples) < c.maxSample }

// Fail records a violation for the current case.
func (c *Ctx) Fail(what, key string, more any) {
	c.Res.ViolationCount++
	if len(c.Res.Violations) < c.maxViol {
		c.Res.Violations = append(c.Res.Violations, Violation{Property: c.Prop.ID, What: what, Key: key, Case: c.cur, More: more})
	}
}

// Inconclusive marks the shard inconclusive.
func (c *Ctx) Inconclusive(why string) {
	if c.Res.Inconclusive == "" {
		c.Res.Inconclusive = why
	}
}

// Call runs f and reports whether it panicked, with the panic value; a panic is an observed event, not a crash.
func Call(f func()) (panicked bool, pv any) {
	defer func() {
		if r := recover(); r != nil {
			panicked, pv = true, r
		}
	}()
	f()

	return false, nil
}

// WriteShard writes the shard result and its sorted distinct-fingerprint file.
func (c *Ctx) WriteShard(out string) error {
	hs := make([]uint64, 0, len(c.distinct))
	for h := range c.distinct {
		hs = append(hs, h)
	}

	sort.Slice(hs, func(i, j int) bool { return hs[i] < hs[j] })

	buf := make([]byte, 8*len(hs))
	for i, h := range hs {
		binary.LittleEndian.PutUint64(buf[8*i:], h)
	}

	if err := os.WriteFile(out+".fp", buf, 0o644); err != nil {
		return err
	}

	c.Res.Done = true

	b, err := json.Marshal(&c.Res)
	if err != nil {
		return err
	}

	return os.WriteFile(out, b, 0o644)
}

// Hex helpers shared by properties.

func HexLimbs(l [4]uint64) string { return fmt.Sprintf("%016x.%016x.%016x.%016x", l[3], l[2], l[1], l[0]) }

func Trunc(s string, n int) string {
	if len(s) <= n {
		return s
	}

	return s[:n] + "…"
}

func firstLines(s string, n int) string {
	l := strings.Split(s, "\n")
	if len(l) > n {
		l = l[:n]
	}

	return strings.Join(l, "\n")
}

// RunConcurrent executes the jobs simultaneously, one goroutine each, released together, each job reps times. A job
// returns "" when what it observed agrees with the expectation it computed beforehand (jobs must only touch objects
// they own: concurrency on shared arguments is the subject of C16, not of this helper). Wrong results under
// simultaneous execution expose package-level scratch state even in properties that are not about concurrency.
func (c *Ctx) RunConcurrent(what, key string, reps int, jobs []func() string) bool {
	type res struct {
		msg string
		pan any
	}

	out := make([]res, len(jobs))
	line := StartLine(len(jobs))

	var wg sync.WaitGroup

	for i, j := range jobs {
		wg.Add(1)

		go func(i int, j func() string) {
			defer wg.Done()
			defer func() {
				if r := recover(); r != nil {
					out[i].pan = r
				}
			}()
			line()

			for rep := 0; rep < reps; rep++ {
				if m := j(); m != "" {
					out[i].msg = m
					return
				}
			}
		}(i, j)
	}

	wg.Wait()

	c.Res.Counters["concurrent-batches"]++
	c.Res.Counters["concurrent-calls"] += int64(reps * len(jobs))
	c.Eval(reps * len(jobs))

	for i, r := range out {
		if r.pan != nil {
			if s, ok := r.pan.(string); ok && strings.HasPrefix(s, "harness:") {
				panic(s)
			}

			c.Fail(fmt.Sprintf("%s panicked when %d goroutines ran simultaneously on objects they own (job %d): %v", what, len(jobs), i, r.pan), key+"-panic", nil)

			return false
		}

		if r.msg != "" {
			c.Fail(fmt.Sprintf("%s is wrong when %d goroutines run simultaneously on objects they own (job %d): %s", what, len(jobs), i, r.msg), key, nil)
			return false
		}
	}

	return true
}

// StartLine returns a function that n goroutines call to leave together: a spinning barrier. A channel close readies the
// waiters one after the other and they reach the processors over tens of microseconds; after a spin barrier all of them
// are already running when the last one arrives, so that their next instruction — typically the first use of some
// library function — happens within about a hundred nanoseconds of each other.
func StartLine(n int) func() {
	var arrived int32

	spin := n <= runtime.GOMAXPROCS(0)

	return func() {
		atomic.AddInt32(&arrived, 1)

		for atomic.LoadInt32(&arrived) < int32(n) {
			if !spin {
				runtime.Gosched()
			}
		}
	}
}

// IsHarnessPanic reports whether a recovered panic value was raised by the harness itself (inconclusive, not a verdict).
func IsHarnessPanic(pv any) bool {
	s, ok := pv.(string)

	return ok && strings.HasPrefix(s, "harness:")
}

// RunParallel runs the given cases of the property simultaneously, one goroutine each, every goroutine with a monitoring
// context of its own (the contexts are merged into c afterwards): a sequential property run as several independent
// instances at once. What each instance observes must still be what it observes alone — interference through package-level
// state shows as an ordinary violation of one of the instances.
func (c *Ctx) RunParallel(cases []any) {
	subs := make([]*Ctx, len(cases))
	line := StartLine(len(cases))
	done := make(chan int, len(cases))

	for i := range cases {
		sub := NewCtx(c.Prop, c.Tier, c.Seed, c.Shard)
		sub.paranoid = ""
		sub.cur = cases[i]
		subs[i] = sub

		go func(i int) {
			defer func() {
				if r := recover(); r != nil {
					if s, ok := r.(string); ok && strings.HasPrefix(s, "harness:") {
						subs[i].Inconclusive(s)
					} else {
						subs[i].Fail("unexpected panic in one of several instances run simultaneously: "+fmt.Sprint(r), "unexpected-panic", map[string]any{"stack": string(debug.Stack())})
					}
				}

				done <- i
			}()

			line()
			c.Prop.Run(subs[i], cases[i])
		}(i)
	}

	for range cases {
		<-done
	}

	for _, sub := range subs {
		c.Res.Evaluations += sub.Res.Evaluations
		c.Res.ViolationCount += sub.Res.ViolationCount

		for _, v := range sub.Res.Violations {
			if len(c.Res.Violations) < c.maxViol {
				v.What = "[run as one of " + fmt.Sprint(len(cases)) + " simultaneous instances] " + v.What
				c.Res.Violations = append(c.Res.Violations, v)
			}
		}

		for k, n := range sub.Res.Counters {
			c.Res.Counters[k] += n
		}

		for h := range sub.distinct {
			c.distinct[h] = struct{}{}
		}

		if sub.Res.Inconclusive != "" {
			c.Inconclusive(sub.Res.Inconclusive)
		}
	}

	c.Res.Counters["parallel-batches"]++
	c.Res.Counters["parallel-instances"] += int64(len(cases))
}
