//go:build verif

package mon

import (
	"bytes"
	"encoding/hex"
	"fmt"
	"math/big"

	"github.com/bytemare/secp256k1"
	"github.com/bytemare/secp256k1/internal/field"
	"github.com/bytemare/secp256k1/zz_verif/gen"
	"github.com/bytemare/secp256k1/zz_verif/oracle"
)

// Elem materialises the oracle value p in representation rp as an implementation Element, by writing the stored
// Montgomery limbs computed by the oracle (no implementation arithmetic is involved).
func Elem(p oracle.Pt, rp gen.Repr) *secp256k1.Element {
	x, y, z := rp.Coords(p)
	e := secp256k1.NewElement()
	secp256k1.VSetRaw(e, oracle.ToMont(x, oracle.P), oracle.ToMont(y, oracle.P), oracle.ToMont(z, oracle.P))

	return e
}

// ElemAffine materialises p with Z = 1 (identity as (0:1:0)).
func ElemAffine(p oracle.Pt) *secp256k1.Element {
	return Elem(p, gen.Repr{Kind: "affine", L: big.NewInt(1)})
}

// Scal materialises the canonical integer v (< n) as an implementation Scalar by writing its stored limbs.
func Scal(v *big.Int) *secp256k1.Scalar {
	s := secp256k1.NewScalar()
	s.S = oracle.ToMont(v, oracle.N)

	return s
}

// NilElem and NilScal are the nil argument as callers usually hold it: a nil pointer in a typed variable (a missing map
// entry, an unset struct field, a failed lookup's result), not the untyped literal. The two are the same thing to the
// unchanged API and must be treated alike.
var (
	NilElem *secp256k1.Element
	NilScal *secp256k1.Scalar
)

// ScalVal reads a scalar's value at the API boundary.
func ScalVal(s *secp256k1.Scalar) *big.Int { return new(big.Int).SetBytes(s.Encode()) }

// ScalCanonical reports whether the stored limbs are < n.
func ScalCanonical(s *secp256k1.Scalar) bool { return oracle.FromLimbs(s.S).Cmp(oracle.N) < 0 }

// FE materialises a canonical integer as a field element (stored limbs written directly).
func FE(v *big.Int) *field.Element {
	e := field.New()
	e.E = oracle.ToMont(v, oracle.P)

	return e
}

// FEVal is the canonical value of a field element as read from its stored limbs by the oracle.
func FEVal(e *field.Element) *big.Int { return oracle.FromMont(e.E, oracle.P) }

// FECanonical reports whether the stored limbs are < p.
func FECanonical(e *field.Element) bool { return oracle.FromLimbs(e.E).Cmp(oracle.P) < 0 }

// RawValid checks that the element's raw coordinates are canonical and form a valid projective curve point.
func RawValid(e *secp256k1.Element) (bool, string) {
	xl, yl, zl := secp256k1.VRaw(e)

	for i, l := range [][4]uint64{xl, yl, zl} {
		if oracle.FromLimbs(l).Cmp(oracle.P) >= 0 {
			return false, fmt.Sprintf("coordinate %c stored non-canonically: %s", "xyz"[i], HexLimbs(l))
		}
	}

	x, y, z := oracle.FromMont(xl, oracle.P), oracle.FromMont(yl, oracle.P), oracle.FromMont(zl, oracle.P)
	if x.Sign() == 0 && y.Sign() == 0 && z.Sign() == 0 {
		return false, "coordinates (0:0:0)"
	}

	// Y^2 Z = X^3 + 7 Z^3
	lhs := oracle.FMul(oracle.FSqr(y), z)
	z3 := oracle.FMul(oracle.FSqr(z), z)
	rhs := oracle.FAdd(oracle.FMul(oracle.FSqr(x), x), oracle.FMul(oracle.B7, z3))

	if lhs.Cmp(rhs) != 0 {
		return false, fmt.Sprintf("off curve: X=%x Y=%x Z=%x", x, y, z)
	}

	return true, ""
}

// RawValue reads the group element straight from the raw coordinates with oracle arithmetic (no implementation
// arithmetic). ok is false when the coordinates are not a valid point.
func RawValue(e *secp256k1.Element) (oracle.Pt, bool) {
	if ok, _ := RawValid(e); !ok {
		return oracle.Pt{}, false
	}

	xl, yl, zl := secp256k1.VRaw(e)
	x, y, z := oracle.FromMont(xl, oracle.P), oracle.FromMont(yl, oracle.P), oracle.FromMont(zl, oracle.P)

	if z.Sign() == 0 {
		return oracle.Inf(), true
	}

	zi := oracle.FInv0(z)

	return oracle.Pt{X: oracle.FMul(x, zi), Y: oracle.FMul(y, zi)}, true
}

// ElemIs compares the boundary value (Encode) of e with the oracle value want.
func ElemIs(e *secp256k1.Element, want oracle.Pt) (bool, string) {
	got := e.Encode()
	exp := oracle.EncC(want)

	if !bytes.Equal(got, exp) {
		return false, fmt.Sprintf("Encode=%s want %s", hex.EncodeToString(got), hex.EncodeToString(exp))
	}

	return true, ""
}

// RawSnap is a bit-exact snapshot of an element's storage.
type RawSnap [3][4]uint64

func Snap(e *secp256k1.Element) RawSnap {
	x, y, z := secp256k1.VRaw(e)
	return RawSnap{x, y, z}
}

func (s RawSnap) String() string {
	return HexLimbs(s[0]) + "/" + HexLimbs(s[1]) + "/" + HexLimbs(s[2])
}

// H is a short alias of hex.EncodeToString.
func H(b []byte) string { return hex.EncodeToString(b) }

// UnH decodes hex, panicking on harness error.
func UnH(s string) []byte {
	b, err := hex.DecodeString(s)
	if err != nil {
		panic("harness: bad hex in case: " + err.Error())
	}

	return b
}

// BigH parses a hex integer from a case file.
func BigH(s string) *big.Int {
	v, ok := new(big.Int).SetString(s, 16)
	if !ok {
		panic("harness: bad hex integer in case: " + s)
	}

	return v
}

// PtCase is the JSON form of an oracle point inside a case.
type PtCase struct {
	Inf bool   `json:"inf,omitempty"`
	X   string `json:"x,omitempty"`
	Y   string `json:"y,omitempty"`
	Tag string `json:"tag,omitempty"`
}

func PtToCase(p oracle.Pt, tag string) PtCase {
	if p.IsInf() {
		return PtCase{Inf: true, Tag: tag}
	}

	return PtCase{X: fmt.Sprintf("%064x", p.X), Y: fmt.Sprintf("%064x", p.Y), Tag: tag}
}

func (pc PtCase) Pt() oracle.Pt {
	if pc.Inf {
		return oracle.Inf()
	}

	return oracle.Pt{X: BigH(pc.X), Y: BigH(pc.Y)}
}

// ReprCase is the JSON form of a representation.
type ReprCase struct {
	Kind string  `json:"kind"`
	L    string  `json:"l"`
	Src  *PtCase `json:"src,omitempty"` // natural kinds: the point the producing operation starts from
	// nat2-* kinds: the library's own Add / Subtract of two operands each given in a chosen representation
	Recv *ElemCase `json:"receiver,omitempty"`
	Arg  *ElemCase `json:"argument,omitempty"`
}

func ReprToCase(r gen.Repr) ReprCase { return ReprCase{Kind: r.Kind, L: fmt.Sprintf("%x", r.L)} }
func (rc ReprCase) Repr() gen.Repr   { return gen.Repr{Kind: rc.Kind, L: BigH(rc.L)} }

// ElemCase is a value in a representation.
type ElemCase struct {
	P PtCase   `json:"p"`
	R ReprCase `json:"repr"`
}

func MkElemCase(pv gen.PV, r gen.Repr) ElemCase { return ElemCase{PtToCase(pv.P, pv.Tag), ReprToCase(r)} }

// Build materialises the case. Kinds "affine"/"scaled"/"id-*" write raw limbs computed by the oracle; kinds "nat-*"
// produce the value through the implementation's own operations from a source point, so that the element carries
// the "natural" representation real use leaves behind (the value is then re-read with oracle arithmetic and must be
// the intended one, otherwise the case is unusable and reported as a harness-level inconclusive).
func (ec ElemCase) Build() *secp256k1.Element {
	p := ec.P.Pt()

	switch ec.R.Kind {
	case "nat2-add":
		return ec.R.Recv.Build().Add(ec.R.Arg.Build())
	case "nat2-sub":
		return ec.R.Recv.Build().Subtract(ec.R.Arg.Build())
	case "nat2-double":
		return ec.R.Recv.Build().Double()
	case "nat2-negate":
		return ec.R.Recv.Build().Negate()
	}

	if len(ec.R.Kind) < 4 || ec.R.Kind[:4] != "nat-" {
		return Elem(p, ec.R.Repr())
	}

	if ec.R.Src == nil {
		panic("harness: natural representation without a source point")
	}

	src := ElemAffine(ec.R.Src.Pt())

	var e *secp256k1.Element

	switch ec.R.Kind {
	case "nat-double":
		e = src.Double()
	case "nat-add":
		e = src.Add(secp256k1.Base())
	case "nat-sub":
		e = src.Subtract(secp256k1.Base())
	case "nat-mul":
		e = src.Multiply(Scal(big.NewInt(3)))
	case "nat-decode":
		e = secp256k1.NewElement()
		if err := e.Decode(oracle.EncC(p)); err != nil {
			panic("harness: cannot build a decoded element: " + err.Error())
		}
	case "nat-mulk":
		// the library's own [k]src: like the constructors, not second-guessed here (the property's observations judge it)
		return src.Multiply(Scal(BigH(ec.R.L)))
	case "nat-iso-kernel":
		in := secp256k1.NewElement()
		xk := oracle.FMul(oracle.FNeg(oracle.K[1][1]), oracle.FInv0(big.NewInt(2)))
		secp256k1.VSetRaw(in, oracle.ToMont(xk, oracle.P), oracle.ToMont(big.NewInt(3), oracle.P), oracle.ToMont(big.NewInt(1), oracle.P))

		return secp256k1.IsogenySecp256k13iso(in)
	case "nat-new":
		return secp256k1.NewElement()
	case "nat-identity":
		return src.Identity()
	case "nat-base":
		return secp256k1.Base()
	default:
		panic("harness: unknown representation kind " + ec.R.Kind)
	}

	if v, ok := RawValue(e); !ok || !v.Equal(p) {
		panic("harness: the implementation operation used to build a natural representation (" + ec.R.Kind + ") did not produce the intended value")
	}

	return e
}

// MkNatElemCase derives, from a source point, a value together with the implementation operation that produces it.
func MkNatElemCase(src gen.PV, i int) ElemCase {
	kind := NaturalKinds[i%len(NaturalKinds)]
	q := src.P

	var p oracle.Pt

	switch kind {
	case "nat-double":
		p = oracle.Dbl(q)
	case "nat-add":
		p = oracle.Add(q, oracle.G())
	case "nat-sub":
		p = oracle.Sub(q, oracle.G())
	case "nat-mul":
		p = oracle.Add(oracle.Dbl(q), q)
	case "nat-new", "nat-identity", "nat-iso-kernel":
		p = oracle.Inf()
	case "nat-base":
		p = oracle.G()
	default:
		p = q
	}

	sc := PtToCase(q, src.Tag)

	return ElemCase{P: PtToCase(p, kind+"("+src.Tag+")"), R: ReprCase{Kind: kind, L: "1", Src: &sc}}
}

// MkOpElemCase is the element op(recv, arg) (op in add, sub, double, negate) as the library's own operation leaves it, the
// operands in the given representations. Like the constructors it is not second-guessed by the harness.
func MkOpElemCase(op string, recv, arg ElemCase) ElemCase {
	a, b := recv.P.Pt(), arg.P.Pt()

	var v oracle.Pt

	switch op {
	case "add":
		v = oracle.Add(a, b)
	case "sub":
		v = oracle.Sub(a, b)
	case "double":
		v = oracle.Dbl(a)
	case "negate":
		v = oracle.Neg(a)
	default:
		panic("harness: unknown operation " + op)
	}

	return ElemCase{P: PtToCase(v, op+"("+recv.P.Tag+","+arg.P.Tag+")"), R: ReprCase{Kind: "nat2-" + op, L: "1", Recv: &recv, Arg: &arg}}
}

// MkMulKElemCase is the element [k]src as the library's own Multiply leaves it.
func MkMulKElemCase(src gen.PV, k *big.Int) ElemCase {
	sc := PtToCase(src.P, src.Tag)

	return ElemCase{P: PtToCase(oracle.Mul(k, src.P), "["+fmt.Sprintf("%x", k)+"]"+src.Tag), R: ReprCase{Kind: "nat-mulk", L: fmt.Sprintf("%x", k), Src: &sc}}
}

// NaturalKinds lists the representation kinds produced through implementation operations.
// The last three are the package's constructors themselves (their value is what the documentation says they return; the
// raw form they produce is not second-guessed here: the properties' own observations judge it).
// "nat-iso-kernel" is what the exported isogeny returns for the abscissa at which its denominators vanish (x' = -k21/2,
// not the abscissa of a rational point: the documented result is the identity).
var NaturalKinds = []string{"nat-double", "nat-add", "nat-sub", "nat-mul", "nat-decode", "nat-new", "nat-identity", "nat-base", "nat-iso-kernel"}
