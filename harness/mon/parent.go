//go:build verif

package mon

import (
	"crypto/rand"
	"encoding/binary"
	"encoding/json"
	"fmt"
	"os"
	"os/exec"
	"path/filepath"
	"runtime"
	"runtime/debug"
	"sort"
	"strconv"
	"strings"
	"sync"
	"time"

	"github.com/bytemare/secp256k1/zz_verif/oracle"
)

// Exit codes of the three-valued verdict.
const (
	ExitHeld         = 0
	ExitViolated     = 1
	ExitInconclusive = 2
)

// ParentCtx is the parent-side context of one check run.
type ParentCtx struct {
	Tier     string
	Seed     uint64
	Scratch  string // removed by the driver when the check ends
	VerifDir string
	OutDir   string // where evidence/ and replays/ are written (defaults to VerifDir)
	Exe      string
	Start    time.Time
	Env      []string
}

// Aggregate is the merged result of all shards.
type Aggregate struct {
	Evaluations  int64
	Distinct     int64
	Counters     map[string]int64
	Samples      []any
	Violations   []Violation
	ViolCount    int64
	Inconclusive []string
	Notes        []string
	Bitmaps      map[string][]byte
	Extra        map[string]any
}

func NewAggregate() *Aggregate {
	return &Aggregate{Counters: map[string]int64{}, Bitmaps: map[string][]byte{}, Extra: map[string]any{}}
}

func (a *Aggregate) Incon(format string, args ...any) {
	a.Inconclusive = append(a.Inconclusive, fmt.Sprintf(format, args...))
}

func watchdog(tier string) time.Duration {
	// Generous: its firing is inconclusive, never a violation.
	if tier == "thorough" {
		return 90 * time.Minute
	}

	return 20 * time.Minute
}

// RunShards fans the case list out to NShards child processes and merges their results.
func RunShards(p *Prop, pc *ParentCtx, extraEnv []string) *Aggregate {
	agg := NewAggregate()

	// shards re-run under the 32-bit build of the same monitors (see ./check): a subset in the quick tier
	var shards386 []int

	if exe := os.Getenv("VMON_EXE_386"); exe != "" && extraEnv == nil && pc.Exe != exe {
		step := 5
		if pc.Tier == "thorough" {
			step = 2
		}

		for i := int(pc.Seed % uint64(step)); i < NShards; i += step {
			shards386 = append(shards386, i)
		}
	}

	outs := make([]childOutcome, NShards, NShards+len(shards386)+512)
	sem := make(chan struct{}, max(1, runtime.NumCPU()))

	var wg sync.WaitGroup

	for i := 0; i < NShards; i++ {
		wg.Add(1)

		go func(i int) {
			defer wg.Done()
			sem <- struct{}{}
			defer func() { <-sem }()

			outs[i] = runChildEnv(p, pc, i, extraEnv, "")
		}(i)
	}

	for _, i := range shards386 {
		wg.Add(1)

		outs = append(outs, childOutcome{})
		slot := len(outs) - 1

		go func(i, slot int) {
			defer wg.Done()
			sem <- struct{}{}
			defer func() { <-sem }()

			sub := *pc
			sub.Exe = os.Getenv("VMON_EXE_386")
			outs[slot] = runChildEnv(p, &sub, i, nil, ".386")
		}(i, slot)
	}

	// shards re-run under the monitors built in other configurations (see ./check): extra build tags, the race detector's
	// build. One or two shards each in the quick tier.
	if extraEnv == nil {
		for vi, variant := range []struct{ env, suffix, counter string }{
			{"VMON_EXE_TAGS", ".tags", "shards-also-run-built-with-tags-purego,noasm,safe,appengine"},
			{"VMON_EXE_RACEBUILD", ".racebuild", "shards-also-run-built-with-the-race-detector"},
		} {
			exe := os.Getenv(variant.env)
			if exe == "" || exe == pc.Exe {
				continue
			}

			step := 8
			if pc.Tier == "thorough" {
				step = 4
			}

			if variant.suffix == ".racebuild" {
				step /= 2 // its shards are scaled down eightfold, and it is the one that sees races
			}

			for i := int((pc.Seed + uint64(5*vi+1)) % uint64(step)); i < NShards; i += step {
				wg.Add(1)

				outs = append(outs, childOutcome{})
				slot := len(outs) - 1
				agg.Counters[variant.counter]++

				go func(i, slot int, exe, suffix string) {
					defer wg.Done()
					sem <- struct{}{}
					defer func() { <-sem }()

					sub := *pc
					sub.Exe = exe
					env := []string{"GORACE=halt_on_error=0"}
					if suffix == ".racebuild" {
						env = append(env, "VMON_SCALE=8")
					}

					outs[slot] = runChildEnv(p, &sub, i, env, suffix)
				}(i, slot, exe, variant.suffix)
			}
		}
	}

	// shards re-run on ONE processor (GOMAXPROCS=1: a one-CPU container): code that asks how many processors there are and
	// takes another path on one is only wrong there
	if extraEnv == nil {
		step := 6
		if pc.Tier == "thorough" {
			step = 2
		}

		for i := int((pc.Seed + 3) % uint64(step)); i < NShards; i += step {
			wg.Add(1)

			outs = append(outs, childOutcome{})
			slot := len(outs) - 1
			agg.Counters["shards-also-run-with-GOMAXPROCS=1"]++

			go func(i, slot int) {
				defer wg.Done()
				sem <- struct{}{}
				defer func() { <-sem }()

				outs[slot] = runChildEnv(p, pc, i, []string{"GOMAXPROCS=1"}, ".1cpu")
			}(i, slot)
		}
	}

	// extra processes that do nothing but the cold start (first use of the library in a fresh process, concurrently):
	// first-use races are a property of a process, so the sample size is the number of processes
	coldSem := make(chan struct{}, 2)

	if p.ColdStart != nil && extraEnv == nil {
		// wait for the ordinary shards first
		wg.Wait()

		nCold := 200
		if pc.Tier == "thorough" {
			nCold = 1200
		}

		for j := 0; j < nCold; j++ {
			wg.Add(1)

			outs = append(outs, childOutcome{})
			slot := len(outs) - 1

			go func(j, slot int) {
				defer wg.Done()
				// only two of these at a time, and after the ordinary shards: each process should have the cores to
				// itself, otherwise its goroutines are serialised and nothing overlaps at the instant of first use
				coldSem <- struct{}{}
				defer func() { <-coldSem }()

				env := []string{"VMON_COLD_ONLY=1"}
				if j%6 == 5 {
					env = append(env, "GOMAXPROCS=4")
				}

				if j%5 == 2 {
					// the process's very first use of the library meets an entropy source that fails its first reads
					env = append(env, "VMON_FAILING_ENTROPY=1")
				}

				outs[slot] = runChildEnv(p, pc, 1000+j, env, ".cold")
			}(j, slot)
		}
	}

	wg.Wait()

	if len(shards386) > 0 {
		agg.Counters["shards-also-run-under-GOARCH=386"] = int64(len(shards386))
	}

	var fpFiles []string

	for idx := range outs {
		o := outs[idx]
		i := o.shard

		if strings.HasSuffix(o.out, ".racebuild.json") {
			// the shard was run by the monitors built with the race detector: its reports about the module's own code count
			if rep := raceReportInModule(o.log); rep != "" {
				agg.ViolCount++
				agg.Violations = append(agg.Violations, Violation{Property: p.ID, Key: "data-race-in-race-build-rerun",
					What: "the race detector (shard " + fmt.Sprint(i) + " re-run under the race-detector build of the monitors) reports a data race involving the module's code during this check's own concurrent workloads",
					More: map[string]any{"report": Trunc(rep, 3000)}})
			}
		}

		if o.stall.Deadlock != "" {
			// which case? run the shard again, recording each case before it runs (it will stall again)
			last := pc.Scratch + fmt.Sprintf("/shard.%d.last", i)
			o2 := runChildParanoid(p, pc, i, extraEnv, last)
			lastCase, _ := os.ReadFile(last)

			var cs any

			_ = json.Unmarshal(lastCase, &cs)

			what := "a monitored call never returns: " + o.stall.Deadlock
			if o2.stall.Deadlock == "" {
				what += " (not reproduced when the shard was run again: the hang depends on the schedule)"
				cs = nil
			}

			agg.ViolCount++
			agg.Violations = append(agg.Violations, Violation{Property: p.ID, What: what, Key: "deadlock", Case: cs, More: map[string]any{"goroutine_dump": o.stall.Dump}})

			continue
		}

		if o.timed {
			agg.Incon("shard %d: idle or over the wall-clock limit (%s) and the goroutine dump does not show a deadlock (log %s)", i, watchdog(pc.Tier), o.log)
			continue
		}

		var res ShardResult

		raw, rerr := os.ReadFile(o.out)
		if rerr == nil {
			rerr = json.Unmarshal(raw, &res)
		}

		if o.err != nil || rerr != nil || !res.Done {
			// The child died without reporting: a process-fatal error inside a monitored call (stack overflow,
			// runtime fatal error) or a harness failure. Re-run the shard recording each case before it runs.
			logTxt, _ := os.ReadFile(o.log)
			last := pc.Scratch + fmt.Sprintf("/shard.%d.last", i)
			o2 := runChildParanoid(p, pc, i, extraEnv, last)
			lastCase, _ := os.ReadFile(last)

			var cs any

			_ = json.Unmarshal(lastCase, &cs)

			if o2.timed {
				agg.Incon("shard %d crashed (%v) and its replay timed out", i, o.err)
				continue
			}

			what, key := "child process died while running a monitored call (process-fatal error)", "process-fatal"
			if strings.Contains(string(logTxt), "all goroutines are asleep - deadlock!") {
				what, key = "a monitored call never returns (Go runtime: all goroutines are asleep - deadlock!)", "deadlock"
			}

			agg.ViolCount++
			agg.Violations = append(agg.Violations, Violation{
				Property: p.ID,
				What:     what,
				Key:      key,
				Case:     cs,
				More:     map[string]any{"exit": fmt.Sprint(o.err), "log_head": firstLines(string(logTxt), 60)},
			})

			continue
		}

		agg.Evaluations += res.Evaluations
		agg.ViolCount += res.ViolationCount
		agg.Violations = append(agg.Violations, res.Violations...)
		agg.Notes = append(agg.Notes, res.Notes...)

		if res.Inconclusive != "" {
			agg.Incon("shard %d: %s", i, res.Inconclusive)
		}

		for k, v := range res.Counters {
			agg.Counters[k] += v
		}

		for k, b := range res.Bitmaps {
			if agg.Bitmaps[k] == nil {
				agg.Bitmaps[k] = make([]byte, len(b))
			}

			for j := range b {
				agg.Bitmaps[k][j] |= b[j]
			}
		}

		if len(agg.Samples) < 8 {
			agg.Samples = append(agg.Samples, res.Samples...)
		}

		fpFiles = append(fpFiles, o.out+".fp")
	}

	agg.Distinct = countDistinct(fpFiles)

	return agg
}

type childOutcome struct {
	shard int
	err   error
	timed bool
	stall Stall
	out   string
	log   string
}

func runChildParanoid(p *Prop, pc *ParentCtx, i int, extraEnv []string, last string) childOutcome {
	return runChildEnv(p, pc, i, append(append([]string{}, extraEnv...), "VMON_PARANOID="+last), ".paranoid")
}

func runChildEnv(p *Prop, pc *ParentCtx, i int, extraEnv []string, suffix string) childOutcome {
	out := filepath.Join(pc.Scratch, fmt.Sprintf("shard.%d%s.json", i, suffix))
	logp := filepath.Join(pc.Scratch, fmt.Sprintf("shard.%d%s.log", i, suffix))

	cmd := exec.Command(pc.Exe, "shard", p.ID, pc.Tier, strconv.FormatUint(pc.Seed, 10), strconv.Itoa(i), out)
	cmd.Env = append(append(append(os.Environ(), "GOTRACEBACK=all"), pc.Env...), extraEnv...)

	lf, err := os.Create(logp)
	if err != nil {
		return childOutcome{shard: i, err: err, out: out, log: logp}
	}
	defer lf.Close()

	cmd.Stdout, cmd.Stderr = lf, lf

	if err = cmd.Start(); err != nil {
		return childOutcome{shard: i, err: err, out: out, log: logp}
	}

	// a shard is CPU-bound from start to finish: see watch.go for how a hang is told from slowness
	err, stall := WaitWatched(cmd, logp, stallAfter, watchdog(pc.Tier))

	return childOutcome{shard: i, err: err, timed: stall.Stalled && stall.Deadlock == "", stall: stall, out: out, log: logp}
}

// stallAfter: how long a child must have been completely idle (no runnable thread, no CPU time used) before it is asked
// for its goroutine dump.
const stallAfter = 25 * time.Second

// raceReportInModule returns the first race report of a child's log in which BOTH accesses were made from code of the
// module under test (top frame of each of the two stacks; harness frames are under zz_verif and do not count).
func raceReportInModule(logPath string) string {
	b, err := os.ReadFile(logPath)
	if err != nil {
		return ""
	}

	for _, blk := range strings.Split(string(b), "==================") {
		if !strings.Contains(blk, "WARNING: DATA RACE") {
			continue
		}

		// the two access stacks are the first two paragraphs ("Write at ... by goroutine N:" / "Previous read at ...")
		paras := strings.Split(strings.TrimSpace(blk), "\n\n")
		tops := 0

		for _, para := range paras {
			lines := strings.Split(strings.TrimSpace(para), "\n")
			if len(lines) < 2 || !(strings.Contains(lines[0], " at 0x") && strings.Contains(lines[0], "by ")) {
				continue
			}

			top := strings.TrimSpace(lines[1])
			if strings.HasPrefix(top, ModulePath+".") || strings.HasPrefix(top, ModulePath+"/internal/") {
				tops++
			}
		}

		if tops >= 2 {
			return strings.TrimSpace(blk)
		}
	}

	return ""
}

// countDistinct merges the sorted fingerprint files of all shards and counts distinct values exactly.
func countDistinct(files []string) int64 {
	var all [][]byte

	total := 0

	for _, f := range files {
		b, err := os.ReadFile(f)
		if err != nil {
			continue
		}

		all = append(all, b)
		total += len(b) / 8
	}

	merged := make([]uint64, 0, total)

	for _, b := range all {
		for i := 0; i+8 <= len(b); i += 8 {
			merged = append(merged, binary.LittleEndian.Uint64(b[i:]))
		}
	}

	sort.Slice(merged, func(i, j int) bool { return merged[i] < merged[j] })

	var n int64

	for i := range merged {
		if i == 0 || merged[i] != merged[i-1] {
			n++
		}
	}

	return n
}

// ---------------------------------------------------------------------------------------------------------------------
// Known findings.

type knownFindings struct {
	Fixed []string `json:"fixed"`
	Known []struct {
		Property string `json:"property"`
		Key      string `json:"key"`
		What     string `json:"what"`
	} `json:"known"`
}

func loadKnown(dir string) knownFindings {
	var k knownFindings

	b, err := os.ReadFile(filepath.Join(dir, "known_findings.json"))
	if err == nil {
		_ = json.Unmarshal(b, &k)
	}

	return k
}

// ---------------------------------------------------------------------------------------------------------------------
// Verdict, evidence, replay files.

// CheckMain runs one property check end to end and returns the process exit code.
func CheckMain(p *Prop, pc *ParentCtx) int {
	var agg *Aggregate

	if pc.OutDir == "" {
		pc.OutDir = pc.VerifDir
	}

	if err := oracle.SelfTest(); err != nil {
		agg = NewAggregate()
		agg.Incon("oracle self-test failed: %v", err)
	} else if p.Parent != nil {
		agg = p.Parent(p, pc)
	} else {
		agg = RunShards(p, pc, nil)
	}

	// minimum-observation requirements: a run that observed nothing is not a pass
	if p.Require != nil {
		req := p.Require(pc.Tier)
		keys := make([]string, 0, len(req))

		for k := range req {
			keys = append(keys, k)
		}

		sort.Strings(keys)

		for _, k := range keys {
			if strings.HasPrefix(k, "bits:") {
				if got := int64(bitmapCount(agg.Bitmaps[strings.TrimPrefix(k, "bits:")])); got < req[k] && len(agg.Violations) == 0 {
					agg.Incon("coverage bitmap %q has %d < required %d bits set", k, got, req[k])
				}

				continue
			}

			if agg.Counters[k] < req[k] && len(agg.Violations) == 0 {
				agg.Incon("observed %d < required %d events of class %q", agg.Counters[k], req[k], k)
			}
		}
	}

	if agg.Evaluations == 0 && len(agg.Violations) == 0 {
		agg.Incon("no monitored call was observed")
	}

	// known-findings filter
	known := loadKnown(pc.VerifDir)

	var fresh []Violation

	for _, v := range agg.Violations {
		matched := false

		for _, k := range known.Known {
			if k.Property == p.ID && k.Key == v.Key {
				matched = true

				fmt.Printf("KNOWN-FINDING: property=%s %s\n", p.ID, k.What)
			}
		}

		if !matched {
			fresh = append(fresh, v)
		}
	}

	wall := time.Since(pc.Start).Seconds()

	// replay files
	var replayPaths []string

	if len(fresh) > 0 {
		_ = os.MkdirAll(filepath.Join(pc.OutDir, "replays"), 0o755)
	}

	for i, v := range fresh {
		if i >= 5 {
			break
		}

		path := filepath.Join(pc.OutDir, "replays", fmt.Sprintf("%s-%s-%d-%d.json", p.ID, pc.Tier, pc.Seed, i))
		b, _ := json.MarshalIndent(map[string]any{"property": p.ID, "tier": pc.Tier, "seed": pc.Seed, "violation": v}, "", " ")
		_ = os.WriteFile(path, b, 0o644)
		replayPaths = append(replayPaths, path)
	}

	writeEvidence(p, pc, agg, len(fresh), wall)

	// verdict lines
	fmt.Printf("check %s tier=%s seed=%d: evaluations=%d distinct_nontrivial=%d violations=%d (unlisted %d) wall=%.1fs\n",
		p.ID, pc.Tier, pc.Seed, agg.Evaluations, agg.Distinct, agg.ViolCount, len(fresh), wall)

	if len(fresh) > 0 {
		for i, v := range fresh {
			if i >= 5 {
				break
			}

			fmt.Printf("  violation: %s [%s]\n", Trunc(strings.Join(strings.Fields(v.What), " "), 400), v.Key)
			fmt.Printf("VIOLATION property=%s replay=%s\n", p.ID, replayPaths[i])
		}

		return ExitViolated
	}

	if len(agg.Inconclusive) > 0 {
		for i, s := range agg.Inconclusive {
			if i >= 4 {
				fmt.Printf("INCONCLUSIVE property=%s ... and %d more reasons (see the evidence file)\n", p.ID, len(agg.Inconclusive)-i)
				break
			}

			fmt.Printf("INCONCLUSIVE property=%s %s\n", p.ID, Trunc(firstLines(s, 1), 400))
		}

		return ExitInconclusive
	}

	fmt.Printf("HELD property=%s on everything explored\n", p.ID)

	return ExitHeld
}

func bitmapCount(b []byte) int {
	n := 0
	for _, x := range b {
		for ; x != 0; x &= x - 1 {
			n++
		}
	}

	return n
}

func writeEvidence(p *Prop, pc *ParentCtx, agg *Aggregate, unlisted int, wall float64) {
	tier := pc.Tier
	if tier != "thorough" {
		tier = "quick"
	}

	cov := map[string]any{
		"evaluations":         agg.Evaluations,
		"distinct_nontrivial": agg.Distinct,
		"rule":                p.Rule,
		"samples":             agg.Samples,
		"counters":            agg.Counters,
		"shards":              NShards,
		"build_flavour":       p.Flavour,
	}

	if len(agg.Samples) == 0 {
		cov["samples"] = []any{"(no sample recorded)"}
	}

	bm := map[string]int{}
	for k, b := range agg.Bitmaps {
		bm[k] = bitmapCount(b)
	}

	if len(bm) > 0 {
		cov["coverage_bits_set"] = bm
	}

	for k, v := range agg.Extra {
		cov[k] = v
	}

	if len(agg.Inconclusive) > 0 {
		cov["inconclusive"] = agg.Inconclusive
	}

	if len(agg.Notes) > 0 {
		n := agg.Notes
		if len(n) > 20 {
			n = n[:20]
		}

		cov["notes"] = n
	}

	verdict := "held"
	if unlisted > 0 {
		verdict = "violated"
	} else if len(agg.Inconclusive) > 0 {
		verdict = "inconclusive"
	}

	cov["verdict"] = verdict

	ev := map[string]any{
		"property_id": p.ID,
		"tier":        tier,
		"seed":        pc.Seed,
		"level":       "exploration",
		"coverage":    cov,
		"assumptions": append([]string{
			"Go math/big and crypto/sha256 are correct (trusted base of the reference oracle)",
			"the oracle's self-test against the RFC 9380 vectors and [n]G = O passed in this run",
			"claim is 'held on the executions counted here', not a proof",
		}, p.Assume...),
		"wall_s":     wall,
		"violations": agg.ViolCount,
	}

	_ = os.MkdirAll(filepath.Join(pc.OutDir, "evidence"), 0o755)
	b, _ := json.MarshalIndent(ev, "", " ")
	_ = os.WriteFile(filepath.Join(pc.OutDir, "evidence", p.ID+".json"), b, 0o644)
}

// ShardMain is the entry point of a child process.
func ShardMain(p *Prop, tier string, seed uint64, shard int, out string) int {
	c := NewCtx(p, tier, seed, shard)

	go livelockWatch(c, out)

	if os.Getenv("VMON_FAILING_ENTROPY") != "" {
		hr := newHostileReader(c.noiseRng)
		hr.failures = 2
		rand.Reader = hr
	}

	var stErr error
	if os.Getenv("VMON_COLD_ONLY") == "" {
		stErr = oracle.SelfTest() // (the parent has run it too; cold-start-only children skip it to stay short)
	}

	if err := stErr; err != nil {
		c.Inconclusive("oracle self-test failed in child: " + err.Error())
	} else {
		func() {
			// A panic that reaches this point did not happen inside a monitored case (those are caught in exec): it is
			// a failure of the harness's own generator code, which makes the run inconclusive, never a violation.
			defer func() {
				if r := recover(); r != nil {
					if strings.Contains(fmt.Sprint(r), "(injected)") {
						// the value of the panic is the error this harness injected into the entropy source: a library call made
						// while a batch was being set up read entropy and gave up on it
						c.Fail(fmt.Sprintf("an API call that needs no entropy panicked because the process's entropy source failed: %v", r), "panic-on-entropy-fault",
							map[string]any{"stack": firstLines(string(debug.Stack()), 30)})

						return
					}

					c.Inconclusive(fmt.Sprintf("harness failure outside a monitored call: %v\n%s", r, firstLines(string(debug.Stack()), 30)))
				}
			}()

			if p.ColdStart != nil {
				c.cur = map[string]any{"phase": "cold start of shard process", "shard": shard}
				p.ColdStart(c)
				c.Res.Counters["cold-starts"]++
			}

			if os.Getenv("VMON_COLD_ONLY") != "" {
				return
			}

			p.Generate(c)

			if p.Finish != nil {
				p.Finish(c)
			}
		}()
	}

	if err := c.WriteShard(out); err != nil {
		fmt.Fprintln(os.Stderr, "write shard:", err)
		return 3
	}

	return 0
}

// ReplayMain re-executes the case stored in a replay file against the current tree.
func ReplayMain(p *Prop, path string) int {
	raw, err := os.ReadFile(path)
	if err != nil {
		fmt.Println("INCONCLUSIVE cannot read replay file:", err)
		return ExitInconclusive
	}

	var doc struct {
		Tier      string `json:"tier"`
		Seed      uint64 `json:"seed"`
		Violation struct {
			Case json.RawMessage `json:"case"`
			What string          `json:"what"`
		} `json:"violation"`
	}

	if err := json.Unmarshal(raw, &doc); err != nil {
		fmt.Println("INCONCLUSIVE bad replay file:", err)
		return ExitInconclusive
	}

	if p.NewCase == nil || p.Run == nil {
		fmt.Printf("replay of %s re-runs the whole check (no per-case replay for this property); recorded: %s\n", p.ID, doc.Violation.What)
		return ExitInconclusive
	}

	cs := p.NewCase()
	if err := json.Unmarshal(doc.Violation.Case, cs); err != nil {
		fmt.Println("INCONCLUSIVE cannot decode case:", err)
		return ExitInconclusive
	}

	c := NewCtx(p, doc.Tier, doc.Seed, 0)
	c.Replay = true
	c.Exec(cs)

	if c.Res.ViolationCount > 0 {
		for _, v := range c.Res.Violations {
			fmt.Printf("  violation: %s [%s]\n", v.What, v.Key)
		}

		fmt.Printf("VIOLATION property=%s replay=%s\n", p.ID, path)

		return ExitViolated
	}

	fmt.Printf("replayed case no longer violates %s (recorded: %s)\n", p.ID, Trunc(doc.Violation.What, 200))

	return ExitHeld
}

// EnvList parses KEY=VALUE,KEY=VALUE.
func EnvList(s string) []string {
	if s == "" {
		return nil
	}

	return strings.Split(s, ",")
}
