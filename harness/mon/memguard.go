//go:build verif

package mon

import (
	"fmt"
	"runtime/debug"
	"strings"
	"syscall"
	"unsafe"
)

// Guard is a hardware write-protection sanitizer for caller-owned memory: anonymous pages laid out as
// [1 RW scratch page][PayloadPages payload pages][1 PROT_NONE guard page]. Caller-owned buffers and argument objects
// are materialised inside the payload, which is then made read-only, so that ANY store into them traps — including
// same-value stores and write-then-restore sequences that a before/after comparison cannot see.
type Guard struct {
	mem     []byte
	pg      int
	Payload []byte // the protected region (writable only between Unprotect and Protect)
	base    uintptr
}

const PayloadPages = 20

func NewGuard() (*Guard, error) {
	pg := syscall.Getpagesize()

	mem, err := syscall.Mmap(-1, 0, (PayloadPages+2)*pg, syscall.PROT_READ|syscall.PROT_WRITE, syscall.MAP_ANON|syscall.MAP_PRIVATE)
	if err != nil {
		return nil, err
	}

	g := &Guard{mem: mem, pg: pg, Payload: mem[pg : (PayloadPages+1)*pg : (PayloadPages+1)*pg]}
	g.base = uintptr(unsafe.Pointer(&g.Payload[0]))

	if err := syscall.Mprotect(mem[(PayloadPages+1)*pg:], syscall.PROT_NONE); err != nil {
		return nil, err
	}

	return g, nil
}

func (g *Guard) Protect() {
	if err := syscall.Mprotect(g.mem[g.pg:(PayloadPages+1)*g.pg], syscall.PROT_READ); err != nil {
		panic("harness: mprotect: " + err.Error())
	}
}

func (g *Guard) Unprotect() {
	if err := syscall.Mprotect(g.mem[g.pg:(PayloadPages+1)*g.pg], syscall.PROT_READ|syscall.PROT_WRITE); err != nil {
		panic("harness: mprotect: " + err.Error())
	}
}

// Offset translates a fault address into an offset inside the payload (ok=false if outside payload and guard page).
func (g *Guard) Offset(addr uintptr) (int, bool) {
	if addr < g.base || addr >= g.base+uintptr(len(g.Payload)+g.pg) {
		return 0, false
	}

	return int(addr - g.base), true
}

// Ptr returns an unsafe pointer to payload offset off (8-byte aligned by the caller).
func (g *Guard) Ptr(off int) unsafe.Pointer { return unsafe.Pointer(&g.Payload[off]) }

type addrErr interface{ Addr() uintptr }

// Fault describes a trapped memory access.
type Fault struct {
	Addr   uintptr
	Stack  string
	Writer string // first frame of the library (not harness, not runtime) in the stack
}

// Trap runs f with faults converted to panics. It returns the trapped fault (if any) or the ordinary panic value.
func Trap(f func()) (fault *Fault, panicked bool, pv any) {
	old := debug.SetPanicOnFault(true)
	defer debug.SetPanicOnFault(old)

	defer func() {
		if r := recover(); r != nil {
			if e, ok := r.(addrErr); ok {
				st := string(debug.Stack())
				fault = &Fault{Addr: e.Addr(), Stack: firstLines(st, 40), Writer: libraryFrame(st)}

				return
			}

			panicked, pv = true, r
		}
	}()

	f()

	return nil, false, nil
}

// libraryFrame extracts the innermost stack frame that belongs to the module under test (not the harness).
func libraryFrame(stack string) string {
	lines := strings.Split(stack, "\n")
	for i := 0; i+1 < len(lines); i++ {
		l := lines[i]
		if strings.HasPrefix(l, "github.com/bytemare/secp256k1") && !strings.Contains(l, "/zz_verif/") {
			return strings.TrimSpace(l) + " @ " + strings.TrimSpace(lines[i+1])
		}
	}

	return ""
}

func (f *Fault) String() string { return fmt.Sprintf("store trapped at %#x by %s", f.Addr, f.Writer) }
