//go:build verif

package mon

import (
	"fmt"
	"os"
	"os/exec"
	"path/filepath"
	"regexp"
	"strconv"
	"strings"
	"syscall"
	"time"
)

// Deadlock verdicts.
//
// A monitored call that never returns is a violation of every property that says what the call returns, but "it has not
// returned yet" is a statement about the clock, and the clock decides nothing here (a loaded machine makes everything
// slow). What decides is the state of the child process:
//
//  1. the watcher samples /proc/<pid>/task/*/stat once a second; the child is "idle" while no thread is runnable (state R)
//     or in uninterruptible sleep (D) and the CPU time of the whole process does not advance. A starved process is
//     runnable, not idle; every workload of this framework is CPU-bound, so a healthy child is never idle for long;
//  2. after idleFor of uninterrupted idleness the child is sent SIGQUIT, which makes the Go runtime print every goroutine
//     with its wait state and stack;
//  3. the dump is the evidence: if no goroutine is running, runnable or in a system call, at least one is blocked on a
//     channel / mutex / semaphore / condition variable, and a frame of the module under test is on a blocked stack, no
//     goroutine can ever make progress (the workloads have no timers, network or signals that could wake one): deadlock.
//     Anything else is inconclusive.

// Livelock verdicts. A monitored call that spins instead of blocking is never idle, so the watcher above does not see it.
// The shard process watches itself: a goroutine notes the process's CPU time (getrusage: user + system, all threads)
// whenever a new case starts; if ONE case has consumed more than livelockBudget of CPU time without ending, the call is
// reported as a violation with the case as the witness. CPU time measures work done by this process, not elapsed time: a
// loaded machine does not inflate it. The budget is 5 minutes of CPU time in the quick tier and 20 in the thorough tier;
// the most expensive legitimate cases are the soaks (2^18 resp. 2^20 map evaluations: about 10 s resp. 40 s, a few times
// that in the 32-bit re-run).
func livelockBudget(tier string) time.Duration {
	if tier == "thorough" {
		return 20 * time.Minute
	}

	return 5 * time.Minute
}

func processCPU() time.Duration {
	var ru syscall.Rusage
	if err := syscall.Getrusage(syscall.RUSAGE_SELF, &ru); err != nil {
		return 0
	}

	return time.Duration(ru.Utime.Nano() + ru.Stime.Nano())
}

// livelockWatch runs in the shard child for its whole life (its goroutine is recognised by name in AnalyzeGoroutineDump).
func livelockWatch(c *Ctx, out string) {
	last, cpu0 := int64(-1), processCPU()

	for {
		time.Sleep(2 * time.Second)

		seq, cpu := c.caseSeq.Load(), processCPU()
		if seq != last {
			last, cpu0 = seq, cpu
			continue
		}

		if cpu-cpu0 > livelockBudget(c.Tier) {
			c.Res.ViolationCount++
			c.Res.Violations = append(c.Res.Violations, Violation{Property: c.Prop.ID, Key: "livelock", Case: c.cur,
				What: fmt.Sprintf("a monitored call never returns: the case below has been running for %s of CPU time without ending (busy, not blocked)", (cpu - cpu0).Round(time.Second))})
			_ = c.WriteShard(out)

			os.Exit(0)
		}
	}
}

// Stall is what the watcher found.
type Stall struct {
	// Stalled: the child was idle for idleFor and was sent SIGQUIT (or hit the hard limit).
	Stalled bool
	// HardLimit: the wall-clock limit fired (inconclusive unless the dump shows a deadlock).
	HardLimit bool
	// Deadlock: non-empty when the goroutine dump shows that no goroutine can run and the module is on a blocked stack.
	Deadlock string
	// Dump: head of the goroutine dump.
	Dump string
}

var goroutineHeader = regexp.MustCompile(`(?m)^goroutine \d+ (?:gp=\S+ m=\S+ (?:mp=\S+ )?)?\[([^\],]+)`)

// ModulePath is the import path whose frames identify "the module under test" in a goroutine dump.
const ModulePath = "github.com/bytemare/secp256k1"

// AnalyzeGoroutineDump decides whether a SIGQUIT goroutine dump shows a deadlock involving the module under test.
func AnalyzeGoroutineDump(dump string) string {
	states := map[string]int{}

	for _, blk := range strings.Split(dump, "\n\n") {
		if strings.Contains(blk, "mon.livelockWatch") {
			continue // the shard's own CPU-time watch (asleep between two looks)
		}

		if m := goroutineHeader.FindStringSubmatch(blk); m != nil {
			states[m[1]]++
		}
	}

	blocked, live := 0, 0

	for st, n := range states {
		switch st {
		case "chan receive", "chan send", "select", "select (no cases)", "semacquire", "sync.Mutex.Lock", "sync.RWMutex.Lock", "sync.RWMutex.RLock",
			"sync.Cond.Wait", "sync.WaitGroup.Wait", "chan receive (nil chan)", "chan send (nil chan)":
			blocked += n
		case "idle", "GC worker (idle)", "GC sweep wait", "GC scavenge wait", "finalizer wait", "force gc (idle)", "cleanup wait", "GC assist wait", "runfinq", "debug call", "trace reader (blocked)":
			// runtime housekeeping
		case "syscall":
			// the os/signal goroutine sits in a system call; so does a goroutine blocked in a read. Counted as housekeeping only
			// when it is the signal loop.
			if !strings.Contains(dump, "os/signal.signal_recv") {
				live += n
			}
		default:
			live += n
		}
	}

	// a blocked stack must contain a frame of the module itself (not of the harness packages injected below it)
	inModule := false

	for _, blk := range strings.Split(dump, "\n\n") {
		m := goroutineHeader.FindStringSubmatch(blk)
		if m == nil {
			continue
		}

		switch m[1] {
		case "chan receive", "chan send", "select", "semacquire", "sync.Mutex.Lock", "sync.RWMutex.Lock", "sync.RWMutex.RLock", "sync.Cond.Wait":
			for _, ln := range strings.Split(blk, "\n") {
				if strings.HasPrefix(ln, ModulePath+".") || strings.HasPrefix(ln, ModulePath+"/internal/") {
					inModule = true
				}
			}
		}
	}

	if blocked > 0 && live == 0 && inModule {
		return fmt.Sprintf("%d goroutines blocked, none running or runnable, the module under test on a blocked stack; states %v", blocked, states)
	}

	return ""
}

// procIdle reports whether no thread of pid is runnable and returns the CPU ticks the process has used.
func procIdle(pid int) (idle bool, ticks int64, ok bool) {
	tasks, err := filepath.Glob(fmt.Sprintf("/proc/%d/task/*/stat", pid))
	if err != nil || len(tasks) == 0 {
		return false, 0, false
	}

	idle = true

	for _, t := range tasks {
		b, err := os.ReadFile(t)
		if err != nil {
			continue
		}

		// pid (comm) state ppid ... utime(14) stime(15): fields after the closing parenthesis of comm
		s := string(b)
		i := strings.LastIndexByte(s, ')')

		if i < 0 {
			continue
		}

		f := strings.Fields(s[i+1:])
		if len(f) < 14 {
			continue
		}

		if f[0] == "R" || f[0] == "D" {
			idle = false
		}

		u, _ := strconv.ParseInt(f[11], 10, 64)
		st, _ := strconv.ParseInt(f[12], 10, 64)
		ticks += u + st
	}

	return idle, ticks, true
}

// WaitWatched waits for a started command whose stderr goes to the file logPath. See the comment at the top of the file.
func WaitWatched(cmd *exec.Cmd, logPath string, idleFor, hard time.Duration) (error, Stall) {
	done := make(chan error, 1)
	go func() { done <- cmd.Wait() }()

	var (
		st        Stall
		idleSince time.Time
		lastTicks int64 = -1
		began           = time.Now()
	)

	tick := time.NewTicker(time.Second)
	defer tick.Stop()

	for {
		select {
		case err := <-done:
			return err, st
		case <-tick.C:
		}

		idle, ticks, ok := procIdle(cmd.Process.Pid)

		switch {
		case !ok:
			idleSince = time.Time{}
		case idle && (lastTicks < 0 || ticks-lastTicks <= 1):
			if idleSince.IsZero() {
				idleSince = time.Now()
			}
		default:
			idleSince = time.Time{}
		}

		lastTicks = ticks
		over := time.Since(began) > hard

		if (!idleSince.IsZero() && time.Since(idleSince) >= idleFor) || over {
			st.Stalled, st.HardLimit = true, over

			var before int64
			if fi, err := os.Stat(logPath); err == nil {
				before = fi.Size()
			}

			_ = cmd.Process.Signal(syscall.SIGQUIT)

			var err error

			select {
			case err = <-done:
			case <-time.After(30 * time.Second):
				_ = cmd.Process.Kill()
				err = <-done
			}

			if b, rerr := os.ReadFile(logPath); rerr == nil && int64(len(b)) >= before {
				dump := string(b[before:])
				st.Deadlock = AnalyzeGoroutineDump(dump)
				st.Dump = Trunc(dump, 6000)
			}

			return err, st
		}
	}
}
