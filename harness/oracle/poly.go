//go:build verif

package oracle

import "math/big"

// Roots of low-degree polynomials over F_p, for steering: inputs are solved so that a chosen intermediate of a formula
// takes a chosen value, and some intermediates are cubic in the input. Equal-degree splitting (Cantor-Zassenhaus) on
// gcd(x^p - x, f); polynomials are coefficient slices, lowest degree first.

type fpPoly []*big.Int

func (f fpPoly) trim() fpPoly {
	for len(f) > 0 && f[len(f)-1].Sign() == 0 {
		f = f[:len(f)-1]
	}

	return f
}

func polyMod(a, m fpPoly) fpPoly {
	a = append(fpPoly{}, a...).trim()
	m = m.trim()

	if len(m) == 0 {
		panic("harness: polynomial division by zero")
	}

	inv := FInv0(m[len(m)-1])

	for len(a) >= len(m) {
		q := FMul(a[len(a)-1], inv)
		off := len(a) - len(m)

		for i, c := range m {
			a[off+i] = FSub(a[off+i], FMul(q, c))
		}

		a = a.trim()
	}

	return a
}

func polyMulMod(a, b, m fpPoly) fpPoly {
	if len(a) == 0 || len(b) == 0 {
		return fpPoly{}
	}

	out := make(fpPoly, len(a)+len(b)-1)
	for i := range out {
		out[i] = new(big.Int)
	}

	for i, x := range a {
		for j, y := range b {
			out[i+j] = FAdd(out[i+j], FMul(x, y))
		}
	}

	return polyMod(out, m)
}

func polyPowMod(base fpPoly, e *big.Int, m fpPoly) fpPoly {
	res := fpPoly{big.NewInt(1)}
	base = polyMod(base, m)

	for i := e.BitLen() - 1; i >= 0; i-- {
		res = polyMulMod(res, res, m)
		if e.Bit(i) == 1 {
			res = polyMulMod(res, base, m)
		}
	}

	return res
}

func polyGCD(a, b fpPoly) fpPoly {
	a, b = a.trim(), b.trim()
	for len(b) > 0 {
		a, b = b, polyMod(a, b)
	}

	if len(a) > 0 {
		inv := FInv0(a[len(a)-1])
		for i := range a {
			a[i] = FMul(a[i], inv)
		}
	}

	return a
}

func polySub(a, b fpPoly) fpPoly {
	n := len(a)
	if len(b) > n {
		n = len(b)
	}

	out := make(fpPoly, n)
	for i := range out {
		x, y := new(big.Int), new(big.Int)
		if i < len(a) {
			x = a[i]
		}

		if i < len(b) {
			y = b[i]
		}

		out[i] = FSub(x, y)
	}

	return out.trim()
}

// PolyRoots returns the roots in F_p of the polynomial with the given coefficients (lowest degree first, degree <= 6).
func PolyRoots(coeffs ...*big.Int) []*big.Int {
	f := make(fpPoly, len(coeffs))
	for i, c := range coeffs {
		f[i] = Mod(c, P)
	}

	f = f.trim()
	if len(f) <= 1 {
		return nil
	}

	// the product of the distinct linear factors
	x := fpPoly{new(big.Int), big.NewInt(1)}
	g := polyGCD(polySub(polyPowMod(x, P, f), x), f)

	var roots []*big.Int

	var split func(g fpPoly, shift int64)

	split = func(g fpPoly, shift int64) {
		g = g.trim()

		switch len(g) {
		case 0, 1:
			return
		case 2:
			roots = append(roots, FMul(FNeg(g[0]), FInv0(g[1])))
			return
		}

		if shift > 60 {
			return
		}

		// gcd((x + shift)^((p-1)/2) - 1, g) separates the roots r with r + shift a square from the others
		h := polyPowMod(fpPoly{big.NewInt(shift), big.NewInt(1)}, new(big.Int).Rsh(P, 1), g)
		d := polyGCD(polySub(h, fpPoly{big.NewInt(1)}), g)

		if len(d) <= 1 || len(d) == len(g) {
			split(g, shift+1)
			return
		}

		split(d, shift+1)

		// g / d
		q := polyDivExact(g, d)
		split(q, shift+1)
	}

	split(g, 1)

	return roots
}

func polyDivExact(a, b fpPoly) fpPoly {
	a = append(fpPoly{}, a...).trim()
	b = b.trim()
	inv := FInv0(b[len(b)-1])
	q := make(fpPoly, len(a)-len(b)+1)

	for i := range q {
		q[i] = new(big.Int)
	}

	for len(a) >= len(b) {
		c := FMul(a[len(a)-1], inv)
		off := len(a) - len(b)
		q[off] = c

		for i, x := range b {
			a[off+i] = FSub(a[off+i], FMul(c, x))
		}

		a = a.trim()
	}

	return q
}
