//go:build verif

// Package oracle is an independent big-integer reference model of everything bytemare/secp256k1 computes.
// It imports nothing from the repository, holds no constant in Montgomery form and uses textbook affine
// arithmetic, so that it shares neither code nor algorithmic structure with the implementation under test.
package oracle

import (
	"bytes"
	"crypto/sha256"
	"errors"
	"fmt"
	"math/big"
)

func hx(s string) *big.Int {
	v, ok := new(big.Int).SetString(s, 16)
	if !ok {
		panic("oracle: bad hex " + s)
	}

	return v
}

var (
	// P is the field prime 2^256 - 2^32 - 977.
	P = hx("fffffffffffffffffffffffffffffffffffffffffffffffffffffffefffffc2f")
	// N is the group order.
	N = hx("fffffffffffffffffffffffffffffffebaaedce6af48a03bbfd25e8cd0364141")
	// R is 2^256, the Montgomery radix of both Fiat layers.
	R  = new(big.Int).Lsh(big.NewInt(1), 256)
	Gx = hx("79be667ef9dcbbac55a06295ce870b07029bfcdb2dce28d959f2815b16f81798")
	Gy = hx("483ada7726a3c4655da4fbfc0e1108a8fd17b448a68554199c47d08ffb10d4b8")
	B7 = big.NewInt(7)

	// Curve E': y^2 = x^3 + IsoA x + IsoB, 3-isogenous to secp256k1 (RFC 9380 section 8.7).
	IsoA = hx("3f8731abdd661adca08a5558f0f5d272e953d363cb6f0e5d405447c01a444533")
	IsoB = big.NewInt(1771)
	// Z is the SSWU constant -11.
	Z = new(big.Int).Sub(P, big.NewInt(11))

	// K holds the 3-isogeny map constants of RFC 9380 appendix E.1 (k_(i,j) = K[i-1][j]), canonical hex.
	K = [4][]*big.Int{
		{
			hx("8e38e38e38e38e38e38e38e38e38e38e38e38e38e38e38e38e38e38daaaaa8c7"),
			hx("07d3d4c80bc321d5b9f315cea7fd44c5d595d2fc0bf63b92dfff1044f17c6581"),
			hx("534c328d23f234e6e2a413deca25caece4506144037c40314ecbd0b53d9dd262"),
			hx("8e38e38e38e38e38e38e38e38e38e38e38e38e38e38e38e38e38e38daaaaa88c"),
		},
		{
			hx("d35771193d94918a9ca34ccbb7b640dd86cd409542f8487d9fe6b745781eb49b"),
			hx("edadc6f64383dc1df7c4b2d51b54225406d36b641f5e41bbc52a56612a8c6d14"),
		},
		{
			hx("4bda12f684bda12f684bda12f684bda12f684bda12f684bda12f684b8e38e23c"),
			hx("c75e0c32d5cb7c0fa9d0a54b12a0a6d5647ab046d686da6fdffc90fc201d71a3"),
			hx("29a6194691f91a73715209ef6512e576722830a201be2018a765e85a9ecee931"),
			hx("2f684bda12f684bda12f684bda12f684bda12f684bda12f684bda12f38e38d84"),
		},
		{
			hx("fffffffffffffffffffffffffffffffffffffffffffffffffffffffefffff93b"),
			hx("7a06534bb8bdb49fd5e9e6632722c2989467c1bfc8e8d978dfb425d2685c2573"),
			hx("6484aa716545ca2cf3a70c3fa8fe337e0a3d21162f0d6299a7bf8192bfd2a76f"),
		},
	}

	// Beta is a primitive cube root of unity mod p (computed, then checked by SelfTest): (x,y) -> (Beta x, y) is
	// the curve endomorphism, which yields distinct points sharing their y coordinate.
	Beta = func() *big.Int {
		// g^((p-1)/3) is a cube root of unity; take the first small g for which it is != 1 (checked in SelfTest).
		e := new(big.Int).Sub(P, big.NewInt(1))
		e.Div(e, big.NewInt(3))

		for g := int64(2); ; g++ {
			b := new(big.Int).Exp(big.NewInt(g), e, P)
			if b.Cmp(big.NewInt(1)) != 0 {
				return b
			}
		}
	}()

	one   = big.NewInt(1)
	two   = big.NewInt(2)
	three = big.NewInt(3)
)

// ---------------------------------------------------------------------------------------------------------------------
// Modular helpers (mod P unless stated).

func I(v int64) *big.Int { return big.NewInt(v) }

func Mod(a, m *big.Int) *big.Int { return new(big.Int).Mod(a, m) }

func FAdd(a, b *big.Int) *big.Int { return Mod(new(big.Int).Add(a, b), P) }
func FSub(a, b *big.Int) *big.Int { return Mod(new(big.Int).Sub(a, b), P) }
func FMul(a, b *big.Int) *big.Int { return Mod(new(big.Int).Mul(a, b), P) }
func FNeg(a *big.Int) *big.Int    { return Mod(new(big.Int).Neg(a), P) }
func FSqr(a *big.Int) *big.Int    { return FMul(a, a) }

// FInv0 returns a^-1 mod p, with 0 -> 0 (inv0 of RFC 9380).
func FInv0(a *big.Int) *big.Int {
	a = Mod(a, P)
	if a.Sign() == 0 {
		return new(big.Int)
	}

	return new(big.Int).ModInverse(a, P)
}

// FIsSquare reports whether a is a square mod p (0 counts as a square).
func FIsSquare(a *big.Int) bool {
	a = Mod(a, P)
	return a.Sign() == 0 || big.Jacobi(a, P) == 1
}

// FSqrt returns a square root of a mod p (p = 3 mod 4) and whether one exists.
func FSqrt(a *big.Int) (*big.Int, bool) {
	a = Mod(a, P)
	e := new(big.Int).Add(P, one)
	e.Rsh(e, 2)
	r := new(big.Int).Exp(a, e, P)

	return r, FSqr(r).Cmp(a) == 0
}

// FCubeRoot returns a cube root of a mod p and whether one exists (p = 7 mod 9, so a^((p+2)/9) works for cubes).
func FCubeRoot(a *big.Int) (*big.Int, bool) {
	a = Mod(a, P)
	e := new(big.Int).Add(P, two)
	e.Div(e, big.NewInt(9))
	r := new(big.Int).Exp(a, e, P)
	// r^3 = a * a^((p-1)/3); adjust by cube roots of unity is not needed: if a is a cube, a^((p-1)/3) = 1.
	return r, FMul(FSqr(r), r).Cmp(a) == 0
}

func Sgn0(a *big.Int) uint { return Mod(a, P).Bit(0) }

// ---------------------------------------------------------------------------------------------------------------------
// Limb / Montgomery conversions, computed with big.Int only.

// Limbs returns the little-endian 4x64 limbs of v (v < 2^256).
func Limbs(v *big.Int) [4]uint64 {
	var out [4]uint64

	var b [32]byte

	v.FillBytes(b[:])

	for i := 0; i < 4; i++ {
		for j := 0; j < 8; j++ {
			out[i] |= uint64(b[31-8*i-j]) << (8 * j)
		}
	}

	return out
}

// FromLimbs is the inverse of Limbs.
func FromLimbs(l [4]uint64) *big.Int {
	v := new(big.Int)
	for i := 3; i >= 0; i-- {
		v.Lsh(v, 64)
		v.Or(v, new(big.Int).SetUint64(l[i]))
	}

	return v
}

// ToMont returns the limbs of v*2^256 mod m.
func ToMont(v, m *big.Int) [4]uint64 {
	t := new(big.Int).Mul(Mod(v, m), R)
	return Limbs(t.Mod(t, m))
}

var rInvCache = map[string]*big.Int{}

func rInv(m *big.Int) *big.Int {
	k := m.Text(16)
	if v, ok := rInvCache[k]; ok {
		return v
	}

	v := new(big.Int).ModInverse(Mod(R, m), m)
	rInvCache[k] = v

	return v
}

var (
	rInvP = new(big.Int).ModInverse(Mod(R, P), P)
	rInvN = new(big.Int).ModInverse(Mod(R, N), N)
)

// FromMont returns l*2^-256 mod m for stored limbs l (l may be >= m; the value is reduced).
func FromMont(l [4]uint64, m *big.Int) *big.Int {
	var ri *big.Int

	switch {
	case m == P || m.Cmp(P) == 0:
		ri = rInvP
	case m == N || m.Cmp(N) == 0:
		ri = rInvN
	default:
		ri = new(big.Int).ModInverse(Mod(R, m), m)
		if ri == nil {
			panic("harness: FromMont with a modulus not coprime to 2^256")
		}
	}

	t := new(big.Int).Mul(FromLimbs(l), ri)

	return t.Mod(t, m)
}

// Bytes32 returns the 32-byte big-endian encoding of v (v < 2^256).
func Bytes32(v *big.Int) []byte {
	b := make([]byte, 32)
	v.FillBytes(b)

	return b
}

// ---------------------------------------------------------------------------------------------------------------------
// Group law on y^2 = x^3 + a x + b, textbook affine with explicit case split.

// Pt is an affine point; X == nil is the point at infinity.
type Pt struct{ X, Y *big.Int }

func Inf() Pt             { return Pt{} }
func (p Pt) IsInf() bool  { return p.X == nil }
func G() Pt               { return Pt{new(big.Int).Set(Gx), new(big.Int).Set(Gy)} }
func NewPt(x, y *big.Int) Pt { return Pt{Mod(x, P), Mod(y, P)} }

func (p Pt) Equal(q Pt) bool {
	if p.IsInf() || q.IsInf() {
		return p.IsInf() && q.IsInf()
	}

	return p.X.Cmp(q.X) == 0 && p.Y.Cmp(q.Y) == 0
}

func (p Pt) String() string {
	if p.IsInf() {
		return "O"
	}

	return fmt.Sprintf("(%064x,%064x)", p.X, p.Y)
}

// OnCurveAB reports whether p lies on y^2 = x^3 + a x + b (infinity does).
func OnCurveAB(p Pt, a, b *big.Int) bool {
	if p.IsInf() {
		return true
	}

	rhs := FAdd(FAdd(FMul(FSqr(p.X), p.X), FMul(a, p.X)), b)

	return FSqr(p.Y).Cmp(rhs) == 0
}

func OnCurve(p Pt) bool { return OnCurveAB(p, new(big.Int), B7) }

func Neg(p Pt) Pt {
	if p.IsInf() {
		return p
	}

	return Pt{new(big.Int).Set(p.X), FNeg(p.Y)}
}

// AddA adds on the curve with coefficient a (b is irrelevant for the chord-and-tangent rule).
func AddA(p, q Pt, a *big.Int) Pt {
	if p.IsInf() {
		return q
	}

	if q.IsInf() {
		return p
	}

	var l *big.Int

	if p.X.Cmp(q.X) == 0 {
		if FAdd(p.Y, q.Y).Sign() == 0 {
			return Inf()
		}
		// tangent: (3x^2 + a) / 2y
		l = FMul(FAdd(FMul(three, FSqr(p.X)), a), FInv0(FMul(two, p.Y)))
	} else {
		l = FMul(FSub(q.Y, p.Y), FInv0(FSub(q.X, p.X)))
	}

	x := FSub(FSub(FSqr(l), p.X), q.X)
	y := FSub(FMul(l, FSub(p.X, x)), p.Y)

	return Pt{x, y}
}

var zero = new(big.Int)

func Add(p, q Pt) Pt { return AddA(p, q, zero) }
func Sub(p, q Pt) Pt { return AddA(p, Neg(q), zero) }
func Dbl(p Pt) Pt    { return AddA(p, p, zero) }

// Mul returns [k]p by left-to-right affine double-and-add. k is reduced mod n first (the group has order n).
func Mul(k *big.Int, p Pt) Pt {
	k = Mod(k, N)
	r := Inf()

	for i := k.BitLen() - 1; i >= 0; i-- {
		r = Dbl(r)
		if k.Bit(i) == 1 {
			r = Add(r, p)
		}
	}

	return r
}

// MulNaive returns the literal k-fold sum p + p + ... + p.
func MulNaive(k int, p Pt) Pt {
	r := Inf()
	for i := 0; i < k; i++ {
		r = Add(r, p)
	}

	return r
}

// Endo applies the endomorphism (x, y) -> (Beta x, y).
func Endo(p Pt) Pt {
	if p.IsInf() {
		return p
	}

	return Pt{FMul(Beta, p.X), new(big.Int).Set(p.Y)}
}

// LiftX returns the point with abscissa x (x < p required by the caller) and the requested parity of y.
func LiftX(x *big.Int, odd uint) (Pt, bool) {
	rhs := FAdd(FMul(FSqr(x), x), B7)
	if !FIsSquare(rhs) {
		return Pt{}, false
	}

	y, ok := FSqrt(rhs)
	if !ok {
		return Pt{}, false
	}

	if y.Bit(0) != odd {
		y = FNeg(y)
	}

	// y = 0 cannot happen on a prime-order curve; if it did, parity odd would be unsatisfiable.
	if y.Bit(0) != odd {
		return Pt{}, false
	}

	return Pt{Mod(x, P), y}, true
}

// LiftY returns a point with ordinate y if y^2 - 7 is a cube.
func LiftY(y *big.Int) (Pt, bool) {
	x, ok := FCubeRoot(FSub(FSqr(y), B7))
	if !ok {
		return Pt{}, false
	}

	return Pt{x, Mod(y, P)}, true
}

// ---------------------------------------------------------------------------------------------------------------------
// SEC1 encodings, by definition.

func EncC(p Pt) []byte {
	if p.IsInf() {
		return []byte{0}
	}

	out := make([]byte, 33)
	out[0] = 2 + byte(p.Y.Bit(0))
	p.X.FillBytes(out[1:])

	return out
}

func EncU(p Pt) []byte {
	if p.IsInf() {
		return []byte{0}
	}

	out := make([]byte, 65)
	out[0] = 4
	p.X.FillBytes(out[1:33])
	p.Y.FillBytes(out[33:])

	return out
}

// Form selectors for DecodeRef.
const (
	FormAny = iota
	FormCompressed
	FormUncompressed
)

// DecodeRef is the acceptance predicate of property C03, straight from its statement.
func DecodeRef(b []byte, form int) (Pt, bool) {
	switch {
	case len(b) == 1 && form == FormAny:
		if b[0] == 0 {
			return Inf(), true
		}

		return Pt{}, false
	case len(b) == 33 && (form == FormAny || form == FormCompressed):
		if b[0] != 2 && b[0] != 3 {
			return Pt{}, false
		}

		x := new(big.Int).SetBytes(b[1:])
		if x.Cmp(P) >= 0 {
			return Pt{}, false
		}

		return LiftX(x, uint(b[0]&1))
	case len(b) == 65 && (form == FormAny || form == FormUncompressed):
		if b[0] != 4 {
			return Pt{}, false
		}

		return CoordsRef(b[1:33], b[33:])
	}

	return Pt{}, false
}

// CoordsRef is the acceptance predicate for a pair of 32-byte coordinates.
func CoordsRef(xb, yb []byte) (Pt, bool) {
	x := new(big.Int).SetBytes(xb)
	y := new(big.Int).SetBytes(yb)

	if x.Cmp(P) >= 0 || y.Cmp(P) >= 0 {
		return Pt{}, false
	}

	p := Pt{x, y}
	if !OnCurve(p) {
		return Pt{}, false
	}

	return p, true
}

// ---------------------------------------------------------------------------------------------------------------------
// RFC 9380.

// XMD is expand_message_xmd with SHA-256 (RFC 9380 section 5.3.1, oversize DST rule of 5.3.3), on fresh buffers.
func XMD(msg, dst []byte, l int) []byte {
	if len(dst) == 0 {
		panic("oracle: empty DST")
	}

	if len(dst) > 255 {
		h := sha256.New()
		h.Write([]byte("H2C-OVERSIZE-DST-"))
		h.Write(dst)
		dst = h.Sum(nil)
	}

	dstPrime := make([]byte, 0, len(dst)+1)
	dstPrime = append(dstPrime, dst...)
	dstPrime = append(dstPrime, byte(len(dst)))

	ell := (l + 31) / 32
	if ell > 255 || l > 65535 {
		panic("oracle: xmd length")
	}

	h := sha256.New()
	h.Write(make([]byte, 64)) // Z_pad, s_in_bytes = 64
	h.Write(msg)
	h.Write([]byte{byte(l >> 8), byte(l)})
	h.Write([]byte{0})
	h.Write(dstPrime)
	b0 := h.Sum(nil)

	h = sha256.New()
	h.Write(b0)
	h.Write([]byte{1})
	h.Write(dstPrime)
	bi := h.Sum(nil)

	out := append([]byte{}, bi...)

	for i := 2; i <= ell; i++ {
		x := make([]byte, 32)
		for j := range x {
			x[j] = b0[j] ^ bi[j]
		}

		h = sha256.New()
		h.Write(x)
		h.Write([]byte{byte(i)})
		h.Write(dstPrime)
		bi = h.Sum(nil)
		out = append(out, bi...)
	}

	return out[:l]
}

// HashToField is hash_to_field with L = 48, m = 1 over the modulus mod.
func HashToField(msg, dst []byte, count int, mod *big.Int) []*big.Int {
	u := XMD(msg, dst, 48*count)
	out := make([]*big.Int, count)

	for i := range out {
		out[i] = Mod(new(big.Int).SetBytes(u[48*i:48*i+48]), mod)
	}

	return out
}

func gIso(x *big.Int) *big.Int { return FAdd(FAdd(FMul(FSqr(x), x), FMul(IsoA, x)), IsoB) }

// SSWUInfo reports which branches the reference map took (for coverage accounting).
type SSWUInfo struct {
	Exceptional bool // tv1 == 0
	Gx1Square   bool
	Flipped     bool // the sign fix-up negated y
}

// SSWU is the simplified SWU map of RFC 9380 section 6.6.2 (the non-optimised definition) onto E'.
func SSWU(u *big.Int) (Pt, SSWUInfo) {
	var info SSWUInfo

	u = Mod(u, P)
	zu2 := FMul(Z, FSqr(u))
	tv1 := FInv0(FAdd(FSqr(zu2), zu2))

	var x1 *big.Int

	if tv1.Sign() == 0 {
		info.Exceptional = true
		x1 = FMul(IsoB, FInv0(FMul(Z, IsoA)))
	} else {
		x1 = FMul(FMul(FNeg(IsoB), FInv0(IsoA)), FAdd(one, tv1))
	}

	gx1 := gIso(x1)
	x2 := FMul(zu2, x1)
	gx2 := gIso(x2)

	var x, y *big.Int

	if FIsSquare(gx1) {
		info.Gx1Square = true
		x = x1
		y, _ = FSqrt(gx1)
	} else {
		x = x2
		y, _ = FSqrt(gx2)
	}

	if Sgn0(u) != Sgn0(y) {
		info.Flipped = true
		y = FNeg(y)
	}

	return Pt{x, y}, info
}

func poly(k []*big.Int, x *big.Int, monic bool) *big.Int {
	acc := new(big.Int)
	if monic {
		acc = big.NewInt(1)
	}

	for i := len(k) - 1; i >= 0; i-- {
		acc = FAdd(FMul(acc, x), k[i])
	}

	return acc
}

// Iso is the 3-isogeny E' -> secp256k1 of RFC 9380 appendix E.1. A zero denominator maps to infinity.
func Iso(p Pt) Pt {
	if p.IsInf() {
		return p
	}

	xn := poly(K[0], p.X, false)
	xd := poly(K[1], p.X, true)
	yn := poly(K[2], p.X, false)
	yd := poly(K[3], p.X, true)

	if xd.Sign() == 0 || yd.Sign() == 0 {
		return Inf()
	}

	return Pt{FMul(xn, FInv0(xd)), FMul(p.Y, FMul(yn, FInv0(yd)))}
}

// IsoDenomsZero reports whether either isogeny denominator vanishes at x'.
func IsoDenomsZero(x *big.Int) bool {
	return poly(K[1], x, true).Sign() == 0 || poly(K[3], x, true).Sign() == 0
}

// H2CTrace carries the intermediate values of a hash-to-curve evaluation for localising a disagreement.
type H2CTrace struct {
	Uniform []byte
	U       []*big.Int
	Q       []Pt // SSWU outputs on E'
	Info    []SSWUInfo
	Sum     Pt // sum on E' (RO only)
	P       Pt
}

// HashToCurve is hash_to_curve for suite secp256k1_XMD:SHA-256_SSWU_RO_.
func HashToCurve(msg, dst []byte) (Pt, H2CTrace) {
	var tr H2CTrace

	tr.Uniform = XMD(msg, dst, 96)
	tr.U = HashToField(msg, dst, 2, P)

	q0, i0 := SSWU(tr.U[0])
	q1, i1 := SSWU(tr.U[1])
	tr.Q = []Pt{q0, q1}
	tr.Info = []SSWUInfo{i0, i1}
	// Per the RFC: R = Q0 + Q1 on E (after the isogeny); the isogeny is a homomorphism, so adding on E' first is
	// equivalent. The oracle follows the RFC text literally: map each, then add on E.
	tr.Sum = AddA(q0, q1, IsoA)
	tr.P = Add(Iso(q0), Iso(q1))

	return tr.P, tr
}

// EncodeToCurve is encode_to_curve for suite secp256k1_XMD:SHA-256_SSWU_NU_.
func EncodeToCurve(msg, dst []byte) (Pt, H2CTrace) {
	var tr H2CTrace

	tr.Uniform = XMD(msg, dst, 48)
	tr.U = HashToField(msg, dst, 1, P)
	q0, i0 := SSWU(tr.U[0])
	tr.Q = []Pt{q0}
	tr.Info = []SSWUInfo{i0}
	tr.P = Iso(q0)

	return tr.P, tr
}

// HashToScalar is hash_to_field with L = 48, m = 1, count = 1 over the group order.
func HashToScalar(msg, dst []byte) *big.Int { return HashToField(msg, dst, 1, N)[0] }

// ---------------------------------------------------------------------------------------------------------------------

// SelfTest validates the oracle against the RFC 9380 vectors and a few well-known facts. A failure makes a check
// inconclusive; it can never produce a violation.
func SelfTest() error {
	if !OnCurve(G()) {
		return errors.New("G not on curve")
	}

	// the polynomial root finder: (x-3)(x-5)(x-7)(x^2+1) has exactly the roots 3, 5, 7 (p = 3 mod 4: x^2+1 is irreducible)
	{
		f := fpPoly{big.NewInt(1)}
		for _, r := range []int64{3, 5, 7} {
			f = polyMulMod(f, fpPoly{Mod(big.NewInt(-r), P), big.NewInt(1)}, fpPoly{big.NewInt(0), big.NewInt(0), big.NewInt(0), big.NewInt(0), big.NewInt(0), big.NewInt(0), big.NewInt(0), big.NewInt(1)})
		}

		f = polyMulMod(f, fpPoly{big.NewInt(1), big.NewInt(0), big.NewInt(1)}, fpPoly{big.NewInt(0), big.NewInt(0), big.NewInt(0), big.NewInt(0), big.NewInt(0), big.NewInt(0), big.NewInt(0), big.NewInt(1)})

		sum := int64(0)
		rs := PolyRoots(f...)

		for _, r := range rs {
			sum += r.Int64()
		}

		if len(rs) != 3 || sum != 15 {
			return fmt.Errorf("polynomial root finder: got %v", rs)
		}
	}

	if !Mul(N, G()).IsInf() || !Mul(new(big.Int).Sub(N, one), G()).Equal(Neg(G())) {
		return errors.New("[n]G != O or [n-1]G != -G")
	}

	g2 := Dbl(G())
	if g2.X.Cmp(hx("c6047f9441ed7d6d3045406e95c07cd85c778e4b8cef3ca7abac09b95c709ee5")) != 0 ||
		g2.Y.Cmp(hx("1ae168fea63dc339a3c58419466ceaeef7f632653266d0e1236431a950cfe52a")) != 0 {
		return errors.New("2G mismatch")
	}

	for k := 0; k <= 64; k++ {
		if !Mul(big.NewInt(int64(k)), G()).Equal(MulNaive(k, G())) {
			return fmt.Errorf("double-and-add != repeated addition for k=%d", k)
		}
	}

	if Beta.Cmp(one) == 0 || FMul(FSqr(Beta), Beta).Cmp(one) != 0 || !OnCurve(Endo(G())) {
		return errors.New("beta is not a primitive cube root of unity")
	}

	// Montgomery conversion round trip.
	for _, m := range []*big.Int{P, N} {
		v := Mod(hx("123456789abcdef0fedcba9876543210deadbeefcafebabe0123456789abcdef"), m)
		if FromMont(ToMont(v, m), m).Cmp(v) != 0 {
			return errors.New("montgomery round trip")
		}
	}

	for i, v := range rfcVectors {
		var (
			p  Pt
			tr H2CTrace
		)

		if v.RO {
			p, tr = HashToCurve([]byte(v.Msg), []byte(v.DST))
		} else {
			p, tr = EncodeToCurve([]byte(v.Msg), []byte(v.DST))
		}

		for j, u := range v.U {
			if tr.U[j].Cmp(hx(u)) != 0 {
				return fmt.Errorf("rfc vector %d: u[%d] mismatch", i, j)
			}
		}

		q0 := Iso(tr.Q[0])
		if q0.X.Cmp(hx(v.Q0x)) != 0 || q0.Y.Cmp(hx(v.Q0y)) != 0 {
			return fmt.Errorf("rfc vector %d: Q0 mismatch", i)
		}

		if v.RO {
			q1 := Iso(tr.Q[1])
			if q1.X.Cmp(hx(v.Q1x)) != 0 || q1.Y.Cmp(hx(v.Q1y)) != 0 {
				return fmt.Errorf("rfc vector %d: Q1 mismatch", i)
			}

			if !Iso(tr.Sum).Equal(p) {
				return fmt.Errorf("rfc vector %d: isogeny is not additive on Q0+Q1", i)
			}
		}

		if p.X.Cmp(hx(v.Px)) != 0 || p.Y.Cmp(hx(v.Py)) != 0 {
			return fmt.Errorf("rfc vector %d: P mismatch", i)
		}

		if !OnCurve(p) || !OnCurveAB(tr.Q[0], IsoA, IsoB) {
			return fmt.Errorf("rfc vector %d: off curve", i)
		}
	}

	// expand_message_xmd vectors from RFC 9380 appendix K.1 (SHA-256), first one for each of the two lengths that
	// matter here is covered indirectly by u above; additionally check the oversize-DST rule on a K.2-style case
	// is at least self-consistent: a 256-byte DST must differ from its 255-byte prefix and equal hashing by hand.
	long := bytes.Repeat([]byte{'a'}, 256)
	hd := sha256.Sum256(append([]byte("H2C-OVERSIZE-DST-"), long...))

	if !bytes.Equal(XMD([]byte("m"), long, 48), XMD([]byte("m"), hd[:], 48)) {
		return errors.New("oversize DST rule")
	}

	return nil
}
