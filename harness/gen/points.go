//go:build verif

package gen

import (
	"fmt"
	"math/big"

	"github.com/bytemare/secp256k1/zz_verif/oracle"
)

// PV is a group-element value held in the oracle, with the class it was drawn from.
type PV struct {
	P   oracle.Pt
	Tag string
}

// Repr describes one projective representation of a value: (L*x : L*y : L) for a point, (0 : L : 0) for O.
type Repr struct {
	Kind string   // "affine" (L = 1), "scaled", "id-canonical" (Y = 1), "id-y"
	L    *big.Int // non-zero mod p
}

func (rp Repr) String() string { return fmt.Sprintf("%s:%x", rp.Kind, rp.L) }

// Coords returns the canonical projective coordinates of p in representation rp.
func (rp Repr) Coords(p oracle.Pt) (x, y, z *big.Int) {
	if p.IsInf() {
		return new(big.Int), new(big.Int).Set(rp.L), new(big.Int)
	}

	return oracle.FMul(rp.L, p.X), oracle.FMul(rp.L, p.Y), oracle.Mod(rp.L, oracle.P)
}

func nonZeroModP(x *big.Int) *big.Int {
	x = oracle.Mod(x, oracle.P)
	if x.Sign() == 0 {
		return big.NewInt(1)
	}

	return x
}

// lambdaSpecials are scale factors chosen so that the stored limbs of L, L*x or L*y are structured.
func lambdaSpecials() []*big.Int {
	p := oracle.P
	out := []*big.Int{
		big.NewInt(2), big.NewInt(3), new(big.Int).Sub(p, big.NewInt(1)), new(big.Int).Sub(p, big.NewInt(2)),
		oracle.Mod(oracle.R, p),                                  // stored form of L is R^2 mod p
		oracle.FromMont([4]uint64{1, 0, 0, 0}, p),                // stored form of L is 1
		oracle.FromMont([4]uint64{^uint64(0), ^uint64(0), 0, 0}, p), // stored low limbs all ones
		oracle.FromMont(oracle.Limbs(new(big.Int).Sub(p, big.NewInt(1))), p),
		new(big.Int).Rsh(p, 1),
		new(big.Int).Lsh(big.NewInt(1), 255),
		oracle.Beta,
	}

	// scale factors whose stored form is a hard input of a divstep inversion (Z is inverted when an element is serialised)
	for i, h := range HardInversion(p) {
		if i < 4 {
			out = append(out, oracle.FromMont(oracle.Limbs(h), p))
		}
	}

	// ... or a constant of the field arithmetic with its limbs / bytes in another order
	for _, x := range ConfusableStored(p) {
		out = append(out, oracle.FromMont(oracle.Limbs(x), p))
	}

	// stored form occupying a single limb (what a "short operand" fast path of a multiplication takes)
	for _, l := range SingleLimbStored() {
		out = append(out, oracle.FromMont(l, p))
	}

	// stored form adjacent to the Montgomery form of 1 (R mod p = {0x1000003d1,0,0,0}): equal to it in three limbs. This
	// is what an "is z == 1" fast path that drops or duplicates a limb confuses with 1.
	oneM := oracle.ToMont(big.NewInt(1), p)
	for i := 0; i < 4; i++ {
		for _, d := range []uint64{1, 1 << 63, ^uint64(0)} {
			l := oneM
			l[i] ^= d

			if oracle.FromLimbs(l).Cmp(p) < 0 && oracle.FromLimbs(l).Sign() != 0 {
				out = append(out, oracle.FromMont(l, p))
			}
		}
	}

	return out
}

// SingleLimbStored returns stored forms with one non-zero limb.
func SingleLimbStored() [][4]uint64 {
	var out [][4]uint64

	for _, w := range []uint64{^uint64(0), 1 << 63, 0xffffffff00000000, 2, 0x8000000000000001} {
		out = append(out, [4]uint64{w, 0, 0, 0})
	}

	out = append(out, [4]uint64{0, 0, 0, 1}, [4]uint64{0, 1, 0, 0}, [4]uint64{0, 0, ^uint64(0), 0})

	return out
}

// SmallStoredTargets returns stored values in [2^32+977, 2^64): what a Montgomery product is when the unreduced
// accumulator lands just above 2^256 (it is then the accumulator minus p), and the results a single-limb shortcut must get
// right.
func SmallStoredTargets() []*big.Int {
	c := new(big.Int).Sub(two256, oracle.P)

	var out []*big.Int

	for _, d := range []int64{0, 1, 2, 1000} {
		out = append(out, addI(c, d))
	}

	for _, k := range []uint{33, 40, 48, 56, 62, 63} {
		out = append(out, pow2(int(k)), addI(pow2(int(k)), 1), addI(pow2(int(k)), -1))
	}

	out = append(out, addI(pow2(64), -1), addI(pow2(64), -2), new(big.Int).SetUint64(0xfedcba9876543210), new(big.Int).SetUint64(0x8000000100000001))

	return out
}

// OneAdjacentLambdas returns only the scale factors whose stored form equals the stored form of 1 in three limbs.
func OneAdjacentLambdas() []*big.Int {
	p := oracle.P
	oneM := oracle.ToMont(big.NewInt(1), p)

	var out []*big.Int

	for i := 0; i < 4; i++ {
		for _, d := range []uint64{1, 2, 1 << 32, 1 << 63, ^uint64(0), 0x5555555555555555} {
			l := oneM
			l[i] ^= d

			if oracle.FromLimbs(l).Cmp(p) < 0 && oracle.FromLimbs(l).Sign() != 0 {
				out = append(out, oracle.FromMont(l, p))
			}
		}
	}

	return out
}

// SameLine returns another curve point on the line of slope m through p (so that m*x - y is the same for both), if
// the line meets the curve in further rational points. Points related this way defeat equality tests that compare a
// linear combination of the coordinates instead of both coordinates.
func SameLine(pt oracle.Pt, m *big.Int) (oracle.Pt, bool) {
	if pt.IsInf() || pt.X.Sign() == 0 {
		return oracle.Pt{}, false
	}

	// y = m x + b ; (m x + b)^2 = x^3 + 7  =>  x^3 - m^2 x^2 - 2 m b x + (7 - b^2) = 0
	b := oracle.FSub(pt.Y, oracle.FMul(m, pt.X))
	sum := oracle.FSub(oracle.FSqr(m), pt.X)                                                // r1 + r2
	prod := oracle.FMul(oracle.FSub(oracle.FSqr(b), big.NewInt(7)), oracle.FInv0(pt.X)) // r1 * r2
	disc := oracle.FSub(oracle.FSqr(sum), oracle.FMul(big.NewInt(4), prod))

	rt, ok := oracle.FSqrt(disc)
	if !ok {
		return oracle.Pt{}, false
	}

	x := oracle.FMul(oracle.FAdd(sum, rt), oracle.FInv0(big.NewInt(2)))
	q := oracle.Pt{X: x, Y: oracle.FAdd(oracle.FMul(m, x), b)}

	if !oracle.OnCurve(q) || q.Equal(pt) {
		return oracle.Pt{}, false
	}

	return q, true
}

// StructuredReprs returns the deterministic list of representations for a value.
func StructuredReprs(isInf bool) []Repr {
	var out []Repr

	if isInf {
		out = append(out, Repr{"id-canonical", big.NewInt(1)})
		for _, l := range lambdaSpecials() {
			out = append(out, Repr{"id-y", nonZeroModP(l)})
		}

		return out
	}

	out = append(out, Repr{"affine", big.NewInt(1)})
	for _, l := range lambdaSpecials() {
		out = append(out, Repr{"scaled", nonZeroModP(l)})
	}

	return out
}

// DrawRepr picks one representation from the PRNG.
func DrawRepr(r *Rng, isInf bool) Repr {
	switch r.Intn(4) {
	case 0:
		if isInf {
			return Repr{"id-canonical", big.NewInt(1)}
		}

		return Repr{"affine", big.NewInt(1)}
	case 1:
		s := StructuredReprs(isInf)
		return s[r.Intn(len(s))]
	default:
		l := nonZeroModP(Draw(r, oracle.P).X)
		if isInf {
			return Repr{"id-y", l}
		}

		return Repr{"scaled", l}
	}
}

// Pool is the deterministic pool of group-element values used by all element-level checks.
type Pool struct {
	All      []PV
	NonInf   []PV
	SmallX   []PV
	SmallY   []PV
	byTag    map[string][]PV
	Specials []*big.Int // notable scalars
}

func (pl *Pool) add(p oracle.Pt, tag string) {
	pv := PV{p, tag}
	pl.All = append(pl.All, pv)

	if !p.IsInf() {
		pl.NonInf = append(pl.NonInf, pv)
	}

	pl.byTag[tag] = append(pl.byTag[tag], pv)
}

// NewPool builds the pool; nRandom random points are drawn from r.
func NewPool(r *Rng, nRandom int) *Pool {
	pl := &Pool{byTag: map[string][]PV{}}
	g := oracle.G()

	pl.add(oracle.Inf(), "O")
	pl.add(g, "G")
	pl.add(oracle.Neg(g), "-G")

	acc := g
	for k := 2; k <= 12; k++ {
		acc = oracle.Add(acc, g)
		pl.add(acc, fmt.Sprintf("%dG", k))

		if k <= 4 {
			pl.add(oracle.Neg(acc), fmt.Sprintf("-%dG", k))
		}
	}

	n := oracle.N
	for _, s := range []struct {
		k   *big.Int
		tag string
	}{
		{new(big.Int).Lsh(big.NewInt(1), 255), "[2^255]G"},
		{new(big.Int).Rsh(n, 1), "[(n-1)/2]G"},
		{new(big.Int).Add(new(big.Int).Rsh(n, 1), big.NewInt(1)), "[(n+1)/2]G"},
		{new(big.Int).Sub(n, big.NewInt(2)), "[n-2]G"},
	} {
		pl.add(oracle.Mul(s.k, g), s.tag)
	}

	pl.add(oracle.Endo(g), "phi(G)")
	pl.add(oracle.Endo(oracle.Endo(g)), "phi^2(G)")

	// small-x points (x + p < 2^256 gives an alias that decoders must reject)
	for x, found := int64(1), 0; found < 6; x++ {
		if p, ok := oracle.LiftX(big.NewInt(x), 0); ok {
			pl.add(p, "small-x")
			pl.add(oracle.Neg(p), "small-x")
			pl.SmallX = append(pl.SmallX, PV{p, "small-x"}, PV{oracle.Neg(p), "small-x"})
			found++
		}
	}

	// small-y points
	for y, found := int64(1), 0; found < 6; y++ {
		if p, ok := oracle.LiftY(big.NewInt(y)); ok && oracle.OnCurve(p) {
			pl.add(p, "small-y")
			pl.SmallY = append(pl.SmallY, PV{p, "small-y"})
			found++
		}
	}

	// points with a vanishing coordinate or a vanishing first-level sum of the formulas (x = 0, x = -1, y = -1 via
	// the negation of the y = 1 point): classic exceptional inputs of incomplete formula sets
	for _, x := range []*big.Int{big.NewInt(0), new(big.Int).Sub(oracle.P, big.NewInt(1))} {
		if p, ok := oracle.LiftX(x, 0); ok {
			pl.add(p, "zero-coordinate")
			pl.add(oracle.Neg(p), "zero-coordinate")
		}
	}

	if p, ok := oracle.LiftY(new(big.Int).Sub(oracle.P, big.NewInt(1))); ok && oracle.OnCurve(p) {
		pl.add(p, "zero-coordinate")
	}

	// x just below p
	for d, found := int64(1), 0; found < 4; d++ {
		if p, ok := oracle.LiftX(new(big.Int).Sub(oracle.P, big.NewInt(d)), uint(d&1)); ok {
			pl.add(p, "x-near-p")
			found++
		}
	}

	// hash-to-curve outputs
	for i := 0; i < 4; i++ {
		p, _ := oracle.HashToCurve([]byte{byte(i)}, []byte("verif-pool-dst-0123456789"))
		pl.add(p, "hashed")
	}

	// random
	for i := 0; i < nRandom; i++ {
		for {
			x := r.Below(oracle.P)
			if p, ok := oracle.LiftX(x, uint(r.Intn(2))); ok {
				pl.add(p, "random")
				break
			}
		}
	}

	return pl
}

// Draw picks a value from the pool.
func (pl *Pool) Draw(r *Rng) PV { return pl.All[r.Intn(len(pl.All))] }

// DrawNonInf picks a non-identity value from the pool.
func (pl *Pool) DrawNonInf(r *Rng) PV { return pl.NonInf[r.Intn(len(pl.NonInf))] }

// Fresh draws a brand-new random point (not from the pool).
func Fresh(r *Rng) PV {
	for {
		x := Draw(r, oracle.P).X
		if p, ok := oracle.LiftX(x, uint(r.Intn(2))); ok {
			return PV{p, "fresh"}
		}
	}
}

// Related returns the list of values related to p that form the exceptional loci of addition formulas.
func Related(p oracle.Pt, other oracle.Pt) []PV {
	d := oracle.Dbl(p)
	e := oracle.Endo(p)
	e2 := oracle.Endo(e)

	out := []PV{
		{oracle.Inf(), "O"},
		{p, "P"},
		{oracle.Neg(p), "-P"},
		{d, "2P"},
		{oracle.Neg(d), "-2P"},
		{e, "phiP"},
		{e2, "phi2P"},
		{oracle.Neg(e), "-phiP"},
		{oracle.Neg(e2), "-phi2P"},
		{other, "unrelated"},
	}

	// the finite points with the opposite abscissa, where -x is on the curve (about half of all P): X1*Z2 + X2*Z1 vanishes
	// for them although neither operand is the identity and P != +-Q
	if !p.IsInf() {
		if q, ok := oracle.LiftX(oracle.FNeg(p.X), 0); ok {
			out = append(out, PV{q, "negx"}, PV{oracle.Neg(q), "-negx"})
		}
	}

	return out
}

// ScalarSpecials is the deterministic list of notable scalars for multiplication workloads.
func ScalarSpecials() []V {
	n := oracle.N

	var out []V

	add := func(x *big.Int, c string) {
		if x.Sign() >= 0 && x.Cmp(n) < 0 {
			out = append(out, V{x, c})
		}
	}

	for _, d := range []int64{0, 1, 2, 3, 4, 5, 7, 8, 15, 16, 17, 255, 256} {
		add(big.NewInt(d), "small")
		add(new(big.Int).Sub(n, big.NewInt(d+1)), "n-small")
	}

	for k := 0; k < 256; k++ {
		add(pow2(k), "pow2")
		add(new(big.Int).Or(pow2(255), pow2(k)), "bit255|pow2")
	}

	for _, k := range []int{1, 2, 31, 32, 63, 64, 65, 127, 128, 129, 191, 192, 193, 253, 254, 255} {
		add(addI(pow2(k), -1), "pow2-1")
		add(addI(pow2(k), 1), "pow2+1")
		add(new(big.Int).Sub(n, pow2(k)), "n-pow2")
	}

	add(new(big.Int).Rsh(n, 1), "half")
	add(addI(new(big.Int).Rsh(n, 1), 1), "half")

	// stored form adjacent to One(): canonical values whose Montgomery limbs equal 1's in three limbs.
	oneM := oracle.ToMont(big.NewInt(1), n)
	for i := 0; i < 4; i++ {
		for _, d := range []uint64{1, ^uint64(0), 1 << 63} {
			l := oneM
			l[i] += d

			if oracle.FromLimbs(l).Cmp(n) < 0 {
				add(oracle.FromMont(l, n), "adjacent-to-one")
			}
		}
	}

	for _, v := range MontStructured(n) {
		add(v.X, v.Class)
	}

	// scalars that are constants of the curve: the eigenvalues of the endomorphism (the primitive cube roots of unity
	// mod n) and their negatives, the coordinates of G and p reduced mod n, 2^256 mod n and its inverse
	e3 := new(big.Int).Div(new(big.Int).Sub(n, big.NewInt(1)), big.NewInt(3))
	for g := int64(2); g < 20; g++ {
		l := new(big.Int).Exp(big.NewInt(g), e3, n)
		if l.Cmp(big.NewInt(1)) != 0 {
			l2 := new(big.Int).Mod(new(big.Int).Mul(l, l), n)
			add(l, "lambda")
			add(l2, "lambda")
			add(new(big.Int).Sub(n, l), "lambda")
			add(new(big.Int).Sub(n, l2), "lambda")
			add(addI(l, 1), "lambda±1")
			add(addI(l, -1), "lambda±1")

			// scalars whose binary PREFIX is one of these: a left-to-right ladder holds (jP, (j+1)P) for every prefix j
			// of k, and for j or j+1 in {λ, λ^2, -λ, -λ^2, (n-1)/2, (n-1)/3, ...} the two registers are related by the
			// endomorphism or a negation (same y, opposite y, same x): exceptional for incomplete addition laws
			half := new(big.Int).Rsh(n, 1)
			third := new(big.Int).Div(new(big.Int).Sub(n, big.NewInt(1)), big.NewInt(3))

			// (j+1) = λ^i j, i.e. j = 1/(λ^i - 1): the two registers have the same y and different x
			i1 := new(big.Int).ModInverse(oracle.Mod(addI(l, -1), n), n)
			i2 := new(big.Int).ModInverse(oracle.Mod(addI(l2, -1), n), n)

			for _, s0 := range []*big.Int{l, l2, new(big.Int).Sub(n, l), new(big.Int).Sub(n, l2), half, third, new(big.Int).Lsh(third, 1), addI(i1, 1), addI(i2, 1)} {
				for _, d := range []int64{-1, 0} {
					j := addI(s0, d)
					for _, sh := range []uint{1, 2, 3, 9} {
						hi := new(big.Int).Lsh(j, sh)
						for _, low := range []*big.Int{new(big.Int), big.NewInt(1), addI(pow2(int(sh)), -1)} {
							add(new(big.Int).Add(hi, low), "ladder-prefix")
						}
					}
				}
			}

			break
		}
	}

	for _, v := range GLVRounding() {
		add(v, "glv-rounding")
	}

	rn := new(big.Int).Mod(two256, n)
	for _, x := range []*big.Int{oracle.Mod(oracle.Gx, n), oracle.Mod(oracle.Gy, n), oracle.Mod(oracle.P, n), rn, new(big.Int).ModInverse(rn, n), oracle.Mod(oracle.Beta, n)} {
		add(x, "curve-constant")
	}

	return out
}

// ---------------------------------------------------------------------------------------------------------------------
// Representations that steer an INTERMEDIATE of the group formulas onto a structured stored value.
//
// The formulas first form products and sums of the input coordinates (Y^2, YZ, Z^2, XY for doubling; X1X2, Y1Y2, Z1Z2,
// X+Y, Y+Z, X+Z for addition). A hand-optimised step (a shift-based small multiple, a lazy reduction) fails on a thin
// set of STORED values of such an intermediate. Because every point has the representations (λx : λy : λ), λ can be
// solved for so that a chosen intermediate lands on a chosen stored value.

// StoredTargets returns structured stored values (integers < m): the specials, values just around multiples of
// 2^252..2^255 (what a shift by 1..4 bits pushes over 2^256) and around j*m/8, j*m/4, j*m/2 (what repeated doubling
// pushes over m).
func StoredTargets(m *big.Int) []*big.Int {
	out := storedSpecials(m)

	add := func(x *big.Int) {
		if x.Sign() > 0 && x.Cmp(m) < 0 {
			out = append(out, x)
		}
	}

	for k := 252; k <= 255; k++ {
		step := pow2(k)
		for j := int64(1); ; j++ {
			base := new(big.Int).Mul(step, bi(j))
			if base.Cmp(addI(m, 3)) > 0 {
				break
			}

			for d := int64(-3); d <= 2; d++ {
				add(addI(base, d))
			}
		}
	}

	for _, den := range []int64{2, 4, 8} {
		for j := int64(1); j < den; j++ {
			base := new(big.Int).Div(new(big.Int).Mul(m, bi(j)), bi(den))
			for d := int64(-2); d <= 2; d++ {
				add(addI(base, d))
			}
		}
	}

	// multiplication by a small constant c done by hand (limb-wise scaling with a folded overflow limb) goes over
	// 2^256 resp. over m exactly around j*2^256/c and j*m/c: the constants of this code base are 3 (tripling), 7 (b),
	// 11 (Z), 21 (3b) and 1771 (B')
	for _, c := range []int64{3, 7, 11, 21, 1771} {
		js := []int64{}
		if c <= 21 {
			for j := int64(1); j < c; j++ {
				js = append(js, j)
			}
		} else {
			js = []int64{1, 2, 3, c / 3, c / 2, c/2 + 1, c - 3, c - 2, c - 1}
		}

		for _, j := range js {
			for _, top := range []*big.Int{two256, m} {
				base := new(big.Int).Div(new(big.Int).Mul(top, bi(j)), bi(c))
				for d := int64(-1); d <= 1; d++ {
					add(addI(base, d))
				}
			}
		}
	}

	return out
}

// ReprHitting returns a representation of p in which the named intermediate has stored value t (if solvable).
func ReprHitting(p oracle.Pt, which string, t *big.Int) (Repr, bool) {
	if p.IsInf() {
		return Repr{}, false
	}

	v := oracle.FromMont(oracle.Limbs(t), oracle.P) // canonical value whose stored form is t
	if v.Sign() == 0 {
		return Repr{}, false
	}

	var l *big.Int

	sq := func(a *big.Int) (*big.Int, bool) { return oracle.FSqrt(a) }
	div := func(a, b *big.Int) *big.Int { return oracle.FMul(a, oracle.FInv0(b)) }

	var ok bool

	switch which {
	case "X":
		l, ok = div(v, p.X), p.X.Sign() != 0
	case "Y":
		l, ok = div(v, p.Y), true
	case "Z":
		l, ok = v, true
	case "Y2": // (λy)^2 = v
		var r *big.Int
		if r, ok = sq(v); ok {
			l = div(r, p.Y)
		}
	case "Z2":
		l, ok = sq(v)
	case "YZ": // λ^2 y = v
		l, ok = sq(div(v, p.Y))
	case "XY": // λ^2 x y = v
		if p.X.Sign() != 0 {
			l, ok = sq(div(v, oracle.FMul(p.X, p.Y)))
		}
	case "X+Y":
		if s := oracle.FAdd(p.X, p.Y); s.Sign() != 0 {
			l, ok = div(v, s), true
		}
	case "Y+Z":
		if s := oracle.FAdd(p.Y, big.NewInt(1)); s.Sign() != 0 {
			l, ok = div(v, s), true
		}
	case "X+Z":
		if s := oracle.FAdd(p.X, big.NewInt(1)); s.Sign() != 0 {
			l, ok = div(v, s), true
		}
	}

	if !ok || l == nil || l.Sign() == 0 {
		return Repr{}, false
	}

	return Repr{Kind: "scaled", L: l}, true
}

// ReprPairHitting returns a representation of q such that, with p scaled by l1, the named cross product has stored
// value t.
func ReprPairHitting(p, q oracle.Pt, l1 *big.Int, which string, t *big.Int) (Repr, bool) {
	if p.IsInf() || q.IsInf() {
		return Repr{}, false
	}

	v := oracle.FromMont(oracle.Limbs(t), oracle.P)

	var den *big.Int

	switch which {
	case "X1X2":
		den = oracle.FMul(l1, oracle.FMul(p.X, q.X))
	case "Y1Y2":
		den = oracle.FMul(l1, oracle.FMul(p.Y, q.Y))
	case "Z1Z2":
		den = oracle.Mod(l1, oracle.P)
	case "X2Z1":
		// the cross products of a projective equality test: X2*Z1 = (l2 x_q) * l1
		den = oracle.FMul(l1, q.X)
	case "Y2Z1":
		den = oracle.FMul(l1, q.Y)
	}

	if den == nil || den.Sign() == 0 || v.Sign() == 0 {
		return Repr{}, false
	}

	return Repr{Kind: "scaled", L: oracle.FMul(v, oracle.FInv0(den))}, true
}

// PointWithStoredY2 returns a curve point whose y^2 (= x^3+7) has the STORED value t, if one exists: the value the
// decoders' curve-equation check compares. Such points put that comparison, and the squaring / addition that feed it,
// on structured limb patterns although the encoding looks random.
func PointWithStoredY2(t *big.Int) (oracle.Pt, bool) {
	v := oracle.FromMont(oracle.Limbs(t), oracle.P)

	y, ok := oracle.FSqrt(v)
	if !ok {
		return oracle.Pt{}, false
	}

	x, ok := oracle.FCubeRoot(oracle.FSub(v, big.NewInt(7)))
	if !ok {
		return oracle.Pt{}, false
	}

	p := oracle.Pt{X: x, Y: y}

	return p, oracle.OnCurve(p)
}

// PointWithStoredY returns a curve point whose y coordinate has the stored value t (the value a decoder negates when the
// requested parity is the other one), if y^2 - 7 is a cube.
func PointWithStoredY(t *big.Int) (oracle.Pt, bool) {
	return oracle.LiftY(oracle.FromMont(oracle.Limbs(t), oracle.P))
}

// PointWithStoredX returns a curve point whose x coordinate has the stored value t.
func PointWithStoredX(t *big.Int) (oracle.Pt, bool) {
	return oracle.LiftX(oracle.FromMont(oracle.Limbs(t), oracle.P), 0)
}

// PointWithStoredX3 returns a curve point whose x^3 has the stored value t.
func PointWithStoredX3(t *big.Int) (oracle.Pt, bool) {
	v := oracle.FromMont(oracle.Limbs(t), oracle.P)

	x, ok := oracle.FCubeRoot(v)
	if !ok {
		return oracle.Pt{}, false
	}

	return oracle.LiftX(x, 0)
}

// NearMissY returns y such that the stored form of y^2 differs from the stored form of x^3+7 in exactly one bit: the
// pair (x, y) is off the curve by the smallest possible margin in the domain in which the implementation compares.
func NearMissY(x *big.Int, bit int) (*big.Int, bool) {
	rhs := oracle.FAdd(oracle.FMul(oracle.FSqr(x), x), big.NewInt(7))
	l := oracle.ToMont(rhs, oracle.P)
	l[bit/64] ^= 1 << uint(bit%64)

	t := oracle.FromLimbs(l)
	if t.Cmp(oracle.P) >= 0 {
		return nil, false
	}

	return oracle.FSqrt(oracle.FromMont(l, oracle.P))
}

// DecodeTargets extends StoredTargets by the values just below p - c*(2^32+977) (adding the stored form of the small
// constant c, e.g. b = 7, carries over p exactly there).
func DecodeTargets() []*big.Int {
	out := StoredTargets(oracle.P)
	one := oracle.Mod(oracle.R, oracle.P) // stored form of 1

	for _, c := range []int64{1, 2, 3, 7, 8, 21} {
		base := new(big.Int).Sub(oracle.P, new(big.Int).Mul(one, big.NewInt(c)))
		for d := int64(-3); d <= 3; d++ {
			if v := new(big.Int).Add(base, big.NewInt(d)); v.Sign() > 0 && v.Cmp(oracle.P) < 0 {
				out = append(out, v)
			}
		}
	}

	return out
}

// HalfZeroTargets returns stored values < m all of whose limbs have a zero low half (resp. a zero high half): exactly
// the values that a zero / equality test narrowed to 32 bits takes for zero.
func HalfZeroTargets(m *big.Int) []*big.Int {
	var out []*big.Int

	for i := 1; i <= 48; i++ {
		var hi, lo [4]uint64

		for k := 0; k < 4; k++ {
			x := (uint64(0x9e3779b97f4a7c15)*uint64(i*4+k+1) ^ uint64(i)<<17) | 1
			hi[k] = x << 32
			lo[k] = x >> 32
		}

		if i%6 == 0 {
			hi[1], lo[2] = 0, 0
		}

		for _, l := range [][4]uint64{hi, lo} {
			if v := oracle.FromLimbs(l); v.Sign() > 0 && v.Cmp(m) < 0 {
				out = append(out, v)
			}
		}
	}

	return out
}

// GLVRounding returns scalars k on the rounding boundaries of the endomorphism (GLV) decomposition k = k1 + k2*lambda:
// with (a1, b1), (a2, b2) the short lattice basis obtained from the extended Euclidean algorithm on (n, lambda), the
// decomposition rounds c = b*k/n for b in {|b1|, |b2|, ...}. The returned k put c a quarter below / above a multiple of
// 2^64 (the integer part then has an all-ones resp. all-zero low word and the rounding bit decides a carry across the
// word boundary), resp. next to j + 1/2 for small j: what a fixed-point "multiply and shift" rounding gets wrong.
func GLVRounding() []*big.Int {
	n := oracle.N
	e3 := new(big.Int).Div(new(big.Int).Sub(n, big.NewInt(1)), big.NewInt(3))

	var lam *big.Int

	for g := int64(2); g < 20; g++ {
		if l := new(big.Int).Exp(big.NewInt(g), e3, n); l.Cmp(big.NewInt(1)) != 0 {
			lam = l
			break
		}
	}

	// extended Euclid on (n, lambda): remainders r and cofactors t with r = s*n + t*lambda
	r0, r1 := new(big.Int).Set(n), new(big.Int).Set(lam)
	t0, t1 := big.NewInt(0), big.NewInt(1)
	sq := new(big.Int).Sqrt(n)

	var mags []*big.Int

	for r1.Sign() != 0 {
		q := new(big.Int).Div(r0, r1)
		r0, r1 = r1, new(big.Int).Sub(r0, new(big.Int).Mul(q, r1))
		t0, t1 = t1, new(big.Int).Sub(t0, new(big.Int).Mul(q, t1))

		// the vectors around the point where the remainder drops below sqrt(n)
		if r0.BitLen() <= sq.BitLen()+2 && r0.BitLen() >= sq.BitLen()-3 {
			mags = append(mags, new(big.Int).Abs(r0), new(big.Int).Abs(t0))
		}
	}

	var out []*big.Int

	for _, b := range mags {
		if b.BitLen() < 100 {
			continue
		}

		var c4s []*big.Int // 4*c

		for _, m := range []*big.Int{big.NewInt(1), big.NewInt(2), big.NewInt(3), pow2(31), pow2(32), pow2(60), addI(pow2(61), -1), pow2(63), addI(pow2(64), -1)} {
			base := new(big.Int).Lsh(m, 66) // 4 * 2^64 * m
			c4s = append(c4s, addI(base, -1), addI(base, 1), addI(base, -2), addI(base, -3))
		}

		for j := int64(0); j < 4; j++ {
			c4s = append(c4s, big.NewInt(4*j+2), big.NewInt(4*j+1), big.NewInt(4*j+3))
		}

		for _, c4 := range c4s {
			k := new(big.Int).Mul(c4, n)
			k.Div(k, new(big.Int).Lsh(b, 2))
			out = append(out, k, addI(k, 1))
		}
	}

	return out
}
