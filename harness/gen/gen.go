//go:build verif

// Package gen holds the deterministic hostile-input generators. Every value is a pure function of a PRNG stream
// seeded from (VERIF_SEED, stream name); nothing here reads the clock or the system entropy source.
package gen

import (
	"fmt"
	"hash/fnv"
	"math/big"

	"github.com/bytemare/secp256k1/zz_verif/oracle"
)

// ---------------------------------------------------------------------------------------------------------------------
// PRNG: xoshiro256** seeded through splitmix64.

type Rng struct{ s [4]uint64 }

func splitmix(x *uint64) uint64 {
	*x += 0x9e3779b97f4a7c15
	z := *x
	z = (z ^ (z >> 30)) * 0xbf58476d1ce4e5b9
	z = (z ^ (z >> 27)) * 0x94d049bb133111eb

	return z ^ (z >> 31)
}

// New returns the PRNG for (seed, stream).
func New(seed uint64, stream string) *Rng {
	h := fnv.New64a()
	h.Write([]byte(stream))
	x := seed*0x2545f4914f6cdd1d ^ h.Sum64()

	var r Rng
	for i := range r.s {
		r.s[i] = splitmix(&x)
	}

	return &r
}

func rotl(x uint64, k uint) uint64 { return (x << k) | (x >> (64 - k)) }

func (r *Rng) U64() uint64 {
	res := rotl(r.s[1]*5, 7) * 9
	t := r.s[1] << 17
	r.s[2] ^= r.s[0]
	r.s[3] ^= r.s[1]
	r.s[1] ^= r.s[2]
	r.s[0] ^= r.s[3]
	r.s[2] ^= t
	r.s[3] = rotl(r.s[3], 45)

	return res
}

func (r *Rng) Intn(n int) int {
	if n <= 0 {
		return 0
	}

	return int(r.U64() % uint64(n))
}

func (r *Rng) Bool() bool { return r.U64()&1 == 1 }

func (r *Rng) Bytes(n int) []byte {
	b := make([]byte, n)
	for i := 0; i < n; i += 8 {
		v := r.U64()
		for j := 0; j < 8 && i+j < n; j++ {
			b[i+j] = byte(v >> (8 * j))
		}
	}

	return b
}

// Big256 returns a uniform 256-bit integer.
func (r *Rng) Big256() *big.Int { return new(big.Int).SetBytes(r.Bytes(32)) }

// Below returns a (negligibly biased) uniform integer in [0, m).
func (r *Rng) Below(m *big.Int) *big.Int {
	v := new(big.Int).SetBytes(r.Bytes(48))
	return v.Mod(v, m)
}

// ---------------------------------------------------------------------------------------------------------------------
// Integer classes.

// V is a generated integer with the name of the class it was drawn from.
type V struct {
	X     *big.Int
	Class string
}

func (v V) Hex() string { return fmt.Sprintf("%064x", v.X) }

var (
	two256 = new(big.Int).Lsh(big.NewInt(1), 256)
	max256 = new(big.Int).Sub(two256, big.NewInt(1))
	// LimbAlphabet is the per-limb alphabet of the limb-structured class.
	LimbAlphabet = []uint64{0, 1, 0xffffffff, 0x100000000, 1 << 63, ^uint64(0) - 1, ^uint64(0)}
)

func bi(v int64) *big.Int { return big.NewInt(v) }

func pow2(k int) *big.Int { return new(big.Int).Lsh(big.NewInt(1), uint(k)) }

func addI(a *big.Int, d int64) *big.Int { return new(big.Int).Add(a, bi(d)) }

// Raw256 returns the deterministic structured list of integers in [0, 2^256), on both sides of m: the decision
// boundaries of every range check and carry chain. Used for decoders / parsers (values >= m included).
func Raw256(m *big.Int) []V {
	var out []V

	add := func(x *big.Int, c string) {
		if x.Sign() >= 0 && x.Cmp(two256) < 0 {
			out = append(out, V{x, c})
		}
	}

	for _, d := range []int64{0, 1, 2, 3, 4, 5, 6, 7, 8, 9, 10, 11, 12} {
		add(bi(d), "small")
	}

	for d := int64(-40); d <= 40; d++ {
		add(addI(m, d), "near-m")
	}

	h := new(big.Int).Rsh(m, 1)
	add(h, "half")
	add(addI(h, 1), "half")
	add(addI(h, -1), "half")

	for k := 0; k < 256; k++ {
		add(pow2(k), "pow2")
		add(addI(pow2(k), -1), "pow2-1")
		add(addI(pow2(k), 1), "pow2+1")
		add(new(big.Int).Sub(m, pow2(k)), "m-pow2")
		add(new(big.Int).Add(m, pow2(k)), "m+pow2")
		add(new(big.Int).Sub(addI(m, -1), pow2(k)), "m-1-pow2")
		add(new(big.Int).Or(pow2(255), pow2(k)), "hi|pow2")
	}

	add(max256, "max256")
	add(addI(max256, -1), "max256")

	// m with one limb replaced / perturbed: exactly the inputs on which a borrow chain that ignores a limb errs.
	ml := oracle.Limbs(m)
	for i := 0; i < 4; i++ {
		for _, repl := range []uint64{0, 1, ml[i] - 1, ml[i] + 1, ^uint64(0), 1 << 63} {
			l := ml
			l[i] = repl
			add(oracle.FromLimbs(l), fmt.Sprintf("m-limb%d", i))
		}
		// equal to m in every other limb, all other limbs maxed / zeroed
		for _, fill := range []uint64{0, ^uint64(0)} {
			l := [4]uint64{fill, fill, fill, fill}
			l[i] = ml[i]
			add(oracle.FromLimbs(l), fmt.Sprintf("only-limb%d", i))
		}
	}

	// Montgomery radix residues: R mod m is the stored form of 1, and values around it.
	rm := new(big.Int).Mod(two256, m)
	for d := int64(-3); d <= 3; d++ {
		add(addI(rm, d), "R-mod-m")
	}

	r2 := new(big.Int).Mod(new(big.Int).Mul(rm, rm), m)
	add(r2, "R2-mod-m")

	// bit patterns
	alt := new(big.Int)
	for i := 0; i < 256; i += 2 {
		alt.SetBit(alt, i, 1)
	}

	add(alt, "alt")
	add(new(big.Int).Xor(alt, max256), "alt")

	for run := 1; run <= 255; run += 7 {
		for _, off := range []int{0, 1, 63, 64, 65, 127, 128, 191, 192, 255 - run, 256 - run} {
			if off < 0 || off+run > 256 {
				continue
			}

			x := addI(pow2(run), -1)
			x.Lsh(x, uint(off))
			add(x, "run")
		}
	}

	return out
}

// Structured returns the structured list restricted to [0, m), plus the Montgomery-domain structured values.
func Structured(m *big.Int) []V {
	var out []V

	for _, v := range Raw256(m) {
		if v.X.Cmp(m) < 0 {
			out = append(out, v)
		}
	}

	out = append(out, MontStructured(m)...)

	return out
}

// storedSpecials are stored-limb patterns (integers r < m) whose canonical value r*2^-256 mod m looks innocuous.
func storedSpecials(m *big.Int) []*big.Int {
	var out []*big.Int

	add := func(x *big.Int) {
		if x.Sign() >= 0 && x.Cmp(m) < 0 {
			out = append(out, x)
		}
	}

	for d := int64(0); d <= 3; d++ {
		add(bi(d))
		add(addI(m, -1-d))
	}

	for _, k := range []int{31, 32, 33, 63, 64, 65, 127, 128, 129, 191, 192, 193, 254, 255} {
		add(pow2(k))
		add(addI(pow2(k), -1))
		add(addI(pow2(k), 1))
		add(new(big.Int).Sub(m, pow2(k)))
	}

	add(new(big.Int).Rsh(m, 1))
	add(addI(new(big.Int).Rsh(m, 1), 1))
	// 2^256 - m: adding it to m-1 crosses 2^256 exactly.
	c := new(big.Int).Sub(two256, m)
	add(c)
	add(addI(c, -1))
	add(addI(c, 1))

	ml := oracle.Limbs(m)
	for i := 0; i < 4; i++ {
		for _, repl := range []uint64{0, ml[i] - 1, ^uint64(0)} {
			l := ml
			l[i] = repl
			add(oracle.FromLimbs(l))
		}
	}

	for _, x := range ConfusableStored(m) {
		add(x)
	}

	// t and m - t differing in the low limb only (t = (m + d)/2 for odd d): a value whose negation a comparison that skips
	// the low limb takes for the value itself (the square-root check of a non-residue compares exactly such a pair)
	for _, d := range []int64{1, -1, 3, -3, 1 << 20, -(1 << 20), (1 << 32) + 977, 1<<40 + 1, -(1<<40 + 1)} {
		dd := bi(d)
		if dd.Bit(0) == 0 {
			dd = addI(dd, 1)
		}

		t := new(big.Int).Rsh(new(big.Int).Add(m, dd), 1)
		add(t)
		add(new(big.Int).Sub(m, t))
	}

	// runs of all-zero / all-one low limbs (a borrow or carry has to ripple through all of them), and a low limb within
	// 2^256-m of the limb boundary above such a run
	cc := new(big.Int).Sub(two256, m)
	if cc.BitLen() <= 64 {
		c64 := cc.Uint64()

		for k := 1; k <= 3; k++ {
			for _, upper := range []uint64{0x0123456789abcdef, 0x8000000000000001, 1} {
				var z, o, b [4]uint64

				for i := 0; i < 4; i++ {
					switch {
					case i < k:
						z[i], o[i], b[i] = 0, ^uint64(0), ^uint64(0)
					default:
						z[i], o[i], b[i] = upper+uint64(i), upper+uint64(i), upper+uint64(i)
					}
				}

				b[0] = ^uint64(0) - c64/2
				add(oracle.FromLimbs(z))
				add(oracle.FromLimbs(o))
				add(oracle.FromLimbs(b))
			}
		}
	}

	// one limb above the modulus' own limb in that position while the value as a whole is below the modulus (in particular a
	// low limb above m0): a limb-wise subtraction from the modulus borrows out of that limb, which a hand-written negation
	// or comparison forgets
	for i := 0; i < 3; i++ {
		if ml[i] == ^uint64(0) {
			continue
		}

		for _, hi := range []uint64{ml[i] + 1, ^uint64(0), ml[i] | 0xffffffff} {
			for _, rest := range [][4]uint64{{}, {0x5555555555555555, 0x3333333333333333, 0x0f0f0f0f0f0f0f0f, 0x00ff00ff00ff00ff}, {^uint64(0), ^uint64(0), ^uint64(0), ml[3] - 1}} {
				l := rest
				l[i] = hi
				add(oracle.FromLimbs(l))
			}
		}
	}

	return out
}

// ConfusableStored returns stored values that are a constant of the arithmetic (the modulus, modulus-1, the stored forms of
// 1 and of R) with its limbs or bytes in another order: what a hand-written comparison against that constant matches when
// the constant was typed in big-endian word order, or converted with the wrong endianness.
func ConfusableStored(m *big.Int) []*big.Int {
	var out []*big.Int

	consts := []*big.Int{m, addI(m, -1), oracle.FromLimbs(oracle.ToMont(bi(1), m)), oracle.FromLimbs(oracle.ToMont(oracle.Mod(oracle.R, m), m)), new(big.Int).Sub(two256, m)}

	for _, cst := range consts {
		l := oracle.Limbs(cst)
		perms := [][4]uint64{{l[3], l[2], l[1], l[0]}, {l[1], l[2], l[3], l[0]}, {l[3], l[0], l[1], l[2]}, {l[1], l[0], l[3], l[2]}}

		// byte-reversed
		b := oracle.Bytes32(cst)
		for i, j := 0, len(b)-1; i < j; i, j = i+1, j-1 {
			b[i], b[j] = b[j], b[i]
		}

		// 32-bit halves of every limb swapped
		var hs [4]uint64
		for i := range l {
			hs[i] = l[i]<<32 | l[i]>>32
		}

		perms = append(perms, oracle.Limbs(new(big.Int).SetBytes(b)), hs)

		for _, q := range perms {
			if x := oracle.FromLimbs(q); x.Cmp(cst) != 0 && x.Sign() > 0 && x.Cmp(m) < 0 {
				out = append(out, x)
			}
		}
	}

	return out
}

// MontStructured returns canonical values whose *stored* (Montgomery) limbs are structured.
func MontStructured(m *big.Int) []V {
	var out []V

	for _, r := range storedSpecials(m) {
		out = append(out, V{oracle.FromMont(oracle.Limbs(r), m), "mont-structured"})
	}

	for _, r := range ResonantStored(m) {
		out = append(out, V{oracle.FromMont(oracle.Limbs(r), m), "redc-resonant"})
	}

	for _, v := range ResonantForToMontgomery(m) {
		out = append(out, V{v, "tomont-resonant"})
	}

	for _, r := range HalfZeroStored(m) {
		out = append(out, V{oracle.FromMont(oracle.Limbs(r), m), "stored-half-zero"})
	}

	for i, h := range HardInversion(m) {
		if i < 12 {
			out = append(out, V{oracle.FromMont(oracle.Limbs(h), m), "hard-inversion-stored"}, V{h, "hard-inversion"})
		}
	}

	for _, r := range OneAdjacentStored(m) {
		out = append(out, V{oracle.FromMont(oracle.Limbs(r), m), "stored-one-adjacent"})
	}

	for _, v := range InverseStructured(m) {
		out = append(out, V{v, "inverse-structured"})
	}

	for _, v := range UnitDigitSingles(m) {
		if v.X.Cmp(m) < 0 {
			out = append(out, V{v.X, "unit-digit"}, V{oracle.FromMont(oracle.Limbs(v.X), m), "stored-unit-digit"})
		}
	}

	return out
}

// OneAdjacentStored returns stored values that equal the stored form of 1 (R mod m) in three of the four limbs: what an
// "is it one" test that drops, duplicates or mis-indexes a limb takes for 1.
func OneAdjacentStored(m *big.Int) []*big.Int {
	oneM := oracle.ToMont(bi(1), m)

	var out []*big.Int

	for i := 0; i < 4; i++ {
		for _, d := range []uint64{1, 2, 1 << 32, 1 << 63, ^uint64(0), 0x5555555555555555} {
			l := oneM
			l[i] ^= d

			if x := oracle.FromLimbs(l); x.Cmp(m) < 0 && x.Sign() != 0 {
				out = append(out, x)
			}
		}
	}

	return out
}

// InverseStructured returns values whose modular INVERSE is structured: small, a power of two, with zero top limbs (as a
// canonical integer and as stored limbs). An inversion that assembles its result limb by limb, or reads it back from a
// variable-length big integer, fails on the result, not on the operand.
func InverseStructured(m *big.Int) []*big.Int {
	var out []*big.Int

	add := func(t *big.Int) {
		t = oracle.Mod(t, m)
		if t.Sign() == 0 {
			return
		}

		out = append(out, new(big.Int).ModInverse(t, m))                                      // inverse is t
		out = append(out, new(big.Int).ModInverse(oracle.FromMont(oracle.Limbs(t), m), m)) // stored form of the inverse is t
	}

	for _, t := range []*big.Int{bi(2), bi(3), pow2(32), pow2(63), addI(pow2(64), -1), pow2(64), addI(pow2(64), 1), pow2(127), addI(pow2(128), -1), pow2(128), pow2(191), addI(pow2(192), -1), pow2(192), pow2(255), addI(m, -2)} {
		add(t)
	}

	return out
}

// LimbTuple returns the idx-th 4-tuple over LimbAlphabet (idx in [0, 7^4)).
func LimbTuple(idx int) *big.Int {
	var l [4]uint64
	for i := 0; i < 4; i++ {
		l[i] = LimbAlphabet[idx%len(LimbAlphabet)]
		idx /= len(LimbAlphabet)
	}

	return oracle.FromLimbs(l)
}

// NLimbTuples is the size of the limb-structured class.
const NLimbTuples = 7 * 7 * 7 * 7

// Draw returns one PRNG-chosen integer in [0, m) from a mixture of classes.
func Draw(r *Rng, m *big.Int) V {
	v := drawRaw(r, m)
	if v.X.Cmp(m) >= 0 {
		// reduce rather than reject so that every class contributes
		v.X = new(big.Int).Mod(v.X, m)
		v.Class += "-mod"
	}

	return v
}

// Draw256 returns one PRNG-chosen integer in [0, 2^256) (may be >= m), biased towards the neighbourhood of m.
func Draw256(r *Rng, m *big.Int) V {
	switch r.Intn(6) {
	case 0:
		d := new(big.Int).SetUint64(r.U64() >> uint(r.Intn(64)))
		if r.Bool() {
			return V{clamp256(new(big.Int).Add(m, d)), "m+rand"}
		}

		return V{clamp256(new(big.Int).Sub(m, d)), "m-rand"}
	case 1:
		// between m and 2^256
		gap := new(big.Int).Sub(two256, m)
		return V{new(big.Int).Add(m, r.Below(gap)), "ge-m"}
	default:
		return drawRaw(r, m)
	}
}

func clamp256(x *big.Int) *big.Int {
	if x.Sign() < 0 {
		return new(big.Int)
	}

	if x.Cmp(two256) >= 0 {
		return new(big.Int).Set(max256)
	}

	return x
}

func drawRaw(r *Rng, m *big.Int) V {
	switch r.Intn(10) {
	case 0: // sparse
		x := new(big.Int)
		for i := 1 + r.Intn(3); i > 0; i-- {
			x.SetBit(x, r.Intn(256), 1)
		}

		return V{x, "sparse"}
	case 1: // dense
		x := new(big.Int).Set(max256)
		for i := 1 + r.Intn(3); i > 0; i-- {
			x.SetBit(x, r.Intn(256), 0)
		}

		return V{x, "dense"}
	case 2: // limb structured
		return V{LimbTuple(r.Intn(NLimbTuples)), "limb-structured"}
	case 3: // stored limbs structured
		l := oracle.Limbs(LimbTuple(r.Intn(NLimbTuples)))
		return V{oracle.FromMont(l, m), "mont-limb-structured"}
	case 4: // random limbs mixed with alphabet limbs
		var l [4]uint64
		for i := range l {
			if r.Bool() {
				l[i] = LimbAlphabet[r.Intn(len(LimbAlphabet))]
			} else {
				l[i] = r.U64()
			}
		}

		return V{oracle.FromLimbs(l), "limb-mixed"}
	case 5: // stored limbs mixed
		var l [4]uint64
		for i := range l {
			if r.Bool() {
				l[i] = LimbAlphabet[r.Intn(len(LimbAlphabet))]
			} else {
				l[i] = r.U64()
			}
		}

		return V{oracle.FromMont(l, m), "mont-limb-mixed"}
	case 6: // short
		x := r.Big256()
		x.Rsh(x, uint(r.Intn(256)))

		return V{x, "short"}
	case 7: // high bit forced
		x := r.Big256()
		x.SetBit(x, 255, 1)

		return V{x, "bit255"}
	case 8: // near m
		d := new(big.Int).SetUint64(r.U64() >> uint(r.Intn(64)))
		x := new(big.Int).Sub(m, d)
		x.Sub(x, bi(1))

		if x.Sign() < 0 {
			x.SetInt64(0)
		}

		return V{x, "below-m"}
	default:
		return V{r.Big256(), "uniform"}
	}
}

// PairOnCarry returns canonical (a, b) whose stored forms ra, rb satisfy ra+rb (or ra-rb) in a chosen carry class.
func PairOnCarry(r *Rng, m *big.Int) (V, V) {
	ra := r.Below(m)
	if r.Intn(3) == 0 {
		ra = LimbTuple(r.Intn(NLimbTuples))
		ra.Mod(ra, m)
	}

	targets := []*big.Int{addI(m, -1), m, addI(m, 1), addI(two256, -1), two256, addI(two256, 1), bi(0), bi(1)}
	t := targets[r.Intn(len(targets))]

	var rb *big.Int

	cls := "carry-sum"
	if r.Bool() {
		rb = new(big.Int).Sub(t, ra) // ra + rb = t
	} else {
		rb = new(big.Int).Sub(ra, t) // ra - rb = t
		cls = "carry-diff"
	}

	rb.Mod(rb, two256)
	if rb.Cmp(m) >= 0 {
		rb.Mod(rb, m)
		cls += "-wrapped"
	}

	return V{oracle.FromMont(oracle.Limbs(ra), m), cls}, V{oracle.FromMont(oracle.Limbs(rb), m), cls}
}

// ---------------------------------------------------------------------------------------------------------------------
// Resonant quotient digits of the word-by-word Montgomery reduction.
//
// Each round of the Fiat reduction adds m*N to the running value, where the 64-bit quotient digit m is fixed by the low
// limb. For a handful of digits m the product m*N has a limb that is exactly 0 or 2^64-1; the carry chains of that round
// then propagate (or die) over a whole limb, which is where a "simplified" carry chain goes wrong. Those digits are the
// solutions of  limb_j(m*N) = target  and are found with the Euclid-like solver below, not by search.

// solveModInterval returns the smallest x >= 0 with l <= (a*x mod m) <= r (0 <= l <= r < m), or nil.
func solveModInterval(a, m, l, r *big.Int) *big.Int {
	if l.Sign() == 0 {
		return new(big.Int)
	}

	a = new(big.Int).Mod(a, m)
	if a.Sign() == 0 {
		return nil
	}

	if new(big.Int).Lsh(a, 1).Cmp(m) > 0 {
		return solveModInterval(new(big.Int).Sub(m, a), m, new(big.Int).Sub(m, r), new(big.Int).Sub(m, l))
	}

	t := new(big.Int).Add(l, a)
	t.Sub(t, bi(1))
	t.Div(t, a) // ceil(l/a)

	if new(big.Int).Mul(t, a).Cmp(r) <= 0 {
		return t
	}

	ma := new(big.Int).Mod(m, a)

	na := new(big.Int)
	if ma.Sign() != 0 {
		na.Sub(a, ma)
	}

	y := solveModInterval(na, a, new(big.Int).Mod(l, a), new(big.Int).Mod(r, a))
	if y == nil {
		return nil
	}

	x := new(big.Int).Mul(m, y)
	x.Add(x, l)
	x.Add(x, a)
	x.Sub(x, bi(1))

	return x.Div(x, a)
}

// ResonantDigits returns the 64-bit quotient digits m for which some limb of m*N is 0 or 2^64-1 (and m±1).
func ResonantDigits(n *big.Int) []uint64 {
	w := pow2(64)
	seen := map[uint64]bool{}

	var out []uint64

	add := func(x *big.Int) {
		if x == nil || x.Sign() <= 0 || x.Cmp(w) >= 0 {
			return
		}

		for d := int64(-1); d <= 1; d++ {
			v := addI(x, d)
			if v.Sign() > 0 && v.Cmp(w) < 0 && !seen[v.Uint64()] {
				seen[v.Uint64()] = true
				out = append(out, v.Uint64())
			}
		}
	}

	for j := 1; j <= 3; j++ {
		mod := pow2(64 * (j + 1))
		a := new(big.Int).Mod(n, mod)

		for _, tgt := range []*big.Int{bi(0), addI(w, -1), pow2(63), addI(pow2(63), -1)} {
			lo := new(big.Int).Lsh(tgt, uint(64*j))
			hi := addI(new(big.Int).Add(lo, pow2(64*j)), -1)

			if lo.Sign() == 0 {
				lo = bi(1)
			}

			add(solveModInterval(a, mod, lo, hi))
		}
	}

	return out
}

// ResonantStored returns stored (Montgomery-domain) values < n whose reduction uses a resonant quotient digit in one of
// its rounds: the limb that fixes the digit is -m*N mod 2^64, the limbs below it are zero, the limbs above structured.
func ResonantStored(n *big.Int) []*big.Int {
	w := pow2(64)
	above := []uint64{0, 1, 1 << 63, ^uint64(0) - 1, ^uint64(0), 0xb007f3c9021e8b07, 0x5555555555555555}

	var out []*big.Int

	for _, m := range ResonantDigits(n) {
		a0 := new(big.Int).Mul(new(big.Int).SetUint64(m), n)
		a0.Neg(a0)
		a0.Mod(a0, w)

		for pos := 0; pos < 4; pos++ {
			for i, u1 := range above {
				for _, u2 := range []uint64{0, ^uint64(0), above[(i+3)%len(above)]} {
					var l [4]uint64

					l[pos] = a0.Uint64()

					for k := pos + 1; k < 4; k++ {
						if (k-pos)%2 == 1 {
							l[k] = u1
						} else {
							l[k] = u2
						}
					}

					if v := oracle.FromLimbs(l); v.Cmp(n) < 0 {
						out = append(out, v)
					}
				}
			}
		}
	}

	return out
}

// ResonantForToMontgomery returns CANONICAL values whose conversion into the Montgomery domain (a multiplication by
// R^2 mod N) uses a resonant quotient digit in its first round.
func ResonantForToMontgomery(n *big.Int) []*big.Int {
	w := pow2(64)
	r2 := new(big.Int).Mod(new(big.Int).Mul(two256, two256), n)
	r20 := new(big.Int).Mod(r2, w)

	inv := new(big.Int).ModInverse(r20, w)
	if inv == nil {
		return nil
	}

	var out []*big.Int

	for _, m := range ResonantDigits(n) {
		a0 := new(big.Int).Mul(new(big.Int).SetUint64(m), n)
		a0.Neg(a0)
		a0.Mod(a0, w)
		x0 := new(big.Int).Mod(new(big.Int).Mul(a0, inv), w)

		for _, up := range []uint64{0, 1, ^uint64(0), 1 << 63} {
			l := [4]uint64{x0.Uint64(), up, up, up >> 1}
			if v := oracle.FromLimbs(l); v.Cmp(n) < 0 {
				out = append(out, v)
			}
		}
	}

	return out
}

// FoldDigits returns 64-bit digits d for which a limb of d*c is 0, 2^64-1 or within 2^32 of 2^64, where
// c = 2^256 mod N is the constant a hand-written wide reduction folds the high limbs with (2^256 = c mod N). Carries
// between the partial products d*c of neighbouring limbs appear exactly there.
func FoldDigits(n *big.Int) []uint64 {
	c := new(big.Int).Mod(two256, n)
	w := pow2(64)
	seen := map[uint64]bool{}

	var out []uint64

	add := func(x *big.Int) {
		if x == nil || x.Sign() <= 0 || x.Cmp(w) >= 0 {
			return
		}

		for d := int64(-1); d <= 1; d++ {
			v := addI(x, d)
			if v.Sign() > 0 && v.Cmp(w) < 0 && !seen[v.Uint64()] {
				seen[v.Uint64()] = true
				out = append(out, v.Uint64())
			}
		}
	}

	limbs := (c.BitLen() + 63) / 64

	for j := 0; j < limbs+1 && j < 4; j++ {
		mod := pow2(64 * (j + 1))
		a := new(big.Int).Mod(c, mod)

		for _, iv := range [][2]*big.Int{
			{bi(1), addI(pow2(32), 0)},                     // limb close to 0
			{new(big.Int).Sub(w, pow2(32)), addI(w, -1)},   // limb within 2^32 of 2^64
			{new(big.Int).Sub(w, pow2(8)), addI(w, -1)},    // limb within 2^8 of 2^64
			{addI(pow2(63), -1), pow2(63)},
		} {
			lo := new(big.Int).Lsh(iv[0], uint(64*j))
			hi := new(big.Int).Lsh(iv[1], uint(64*j))
			hi.Add(hi, addI(pow2(64*j), -1))

			if hi.Cmp(mod) >= 0 {
				hi = addI(mod, -1)
			}

			add(solveModInterval(a, mod, lo, hi))
		}
	}

	return out
}

// WideResonant returns 48-byte strings (hi1 || hi0 || 32 low bytes) whose two high limbs are fold digits / structured
// limbs: inputs of the 48-byte wide reductions that hashing cannot steer.
func WideResonant(n *big.Int) [][]byte {
	digits := append([]uint64{0, 1, 1 << 63, ^uint64(0) - 1, ^uint64(0)}, FoldDigits(n)...)
	lows := []*big.Int{new(big.Int), addI(n, -1), addI(two256, -1), new(big.Int).Rsh(n, 1), pow2(255)}

	var out [][]byte

	for i, h1 := range digits {
		for j, h0 := range digits {
			lo := lows[(i+j)%len(lows)]
			b := make([]byte, 48)

			for k := 0; k < 8; k++ {
				b[k] = byte(h1 >> uint(56-8*k))
				b[8+k] = byte(h0 >> uint(56-8*k))
			}

			lo.FillBytes(b[16:])
			out = append(out, b)
		}
	}

	return out
}

// HalfZeroStored returns stored values < m all of whose limbs have a zero low half, resp. a zero high half.
func HalfZeroStored(m *big.Int) []*big.Int {
	var out []*big.Int

	for i := 1; i <= 24; i++ {
		var hi, lo [4]uint64

		for k := 0; k < 4; k++ {
			x := (uint64(0xd1342543de82ef95)*uint64(i*4+k+1) ^ uint64(i)<<21) | 1
			hi[k] = x << 32
			lo[k] = x >> 32
		}

		for _, l := range [][4]uint64{hi, lo} {
			if v := oracle.FromLimbs(l); v.Sign() > 0 && v.Cmp(m) < 0 {
				out = append(out, v)
			}
		}
	}

	return out
}

// HardInversion returns the committed corpus of integers < m on which a divstep inversion needs ~610 steps (see
// tools/hardinv): used both as canonical values and as stored (Montgomery) limbs.
func HardInversion(m *big.Int) []*big.Int {
	src := hardInvP
	if m.Cmp(oracle.N) == 0 {
		src = hardInvN
	}

	var out []*big.Int

	for _, h := range src {
		v, ok := new(big.Int).SetString(h, 16)
		if ok && v.Cmp(m) < 0 {
			out = append(out, v)
		}
	}

	return out
}

// UnitDigits returns the 64-bit digits d with d*c = +1 or -1 (mod 2^64) for the small constants c a hand-written
// limb-by-limb routine multiplies by (2^256 mod m, the low limb of m, the Montgomery factor -m^-1, and the curve's small
// coefficients): the low half of the partial product d*c is then 1 resp. all ones, which is where a carry test of the
// form "sum < addend" goes wrong when a carry comes in from below.
func UnitDigits(m *big.Int) []uint64 {
	w := pow2(64)
	seen := map[uint64]bool{}

	var out []uint64

	for _, c := range []*big.Int{
		new(big.Int).Mod(new(big.Int).Mod(two256, m), w), new(big.Int).Mod(m, w),
		bi(3), bi(7), bi(21), bi(977), bi(1771), bi(0x3d1), addI(pow2(32), 1),
	} {
		if c.Bit(0) == 0 {
			continue
		}

		inv := new(big.Int).ModInverse(c, w)
		for _, d := range []*big.Int{inv, new(big.Int).Sub(w, inv)} {
			if !seen[d.Uint64()] {
				seen[d.Uint64()] = true
				out = append(out, d.Uint64())
			}
		}
	}

	return out
}

// UnitDigitTuples returns the 256-bit integers whose limbs are drawn from {0, 2^64-1, d} with at least one limb d, for
// every unit digit d (see UnitDigits): a unit digit at every limb position with and without a carry arriving from the
// limbs below and a carry-absorbing limb above. Values may be >= m.
func UnitDigitTuples(m *big.Int) []V {
	var out []V

	for _, d := range UnitDigits(m) {
		al := [3]uint64{0, ^uint64(0), d}

		for idx := 0; idx < 81; idx++ {
			var l [4]uint64

			has := false
			k := idx

			for i := 0; i < 4; i++ {
				l[i] = al[k%3]
				has = has || k%3 == 2
				k /= 3
			}

			if has {
				out = append(out, V{oracle.FromLimbs(l), "unit-digit"})
			}
		}
	}

	return out
}

// UnitDigitSingles is the short form of UnitDigitTuples: one unit digit at one limb position, the limbs below it all
// zero or all ones (a carry on its way up), the limbs above it zero.
func UnitDigitSingles(m *big.Int) []V {
	var out []V

	for _, d := range UnitDigits(m) {
		for i := 0; i < 4; i++ {
			for _, below := range []uint64{0, ^uint64(0)} {
				var l [4]uint64
				for j := 0; j < i; j++ {
					l[j] = below
				}

				l[i] = d
				out = append(out, V{oracle.FromLimbs(l), "unit-digit"})

				if i == 0 {
					break
				}
			}
		}
	}

	return out
}

// FractionStored returns stored values r < m next to j*2^256/k (j = 1..k-1): a stored operand whose product with the small
// word k lands just above a multiple of 2^256, which is where a one-limb multiplication that folds its overflow limb back
// (2^256 = c mod m) adds the fold to an almost-full low part.
func FractionStored(m *big.Int, k int64) []*big.Int {
	var out []*big.Int

	for j := int64(1); j < k; j++ {
		base := new(big.Int).Div(new(big.Int).Mul(big.NewInt(j), two256), big.NewInt(k))
		for d := int64(-1); d <= 2; d++ {
			if v := addI(base, d); v.Sign() > 0 && v.Cmp(m) < 0 {
				out = append(out, v)
			}
		}
	}

	return out
}
