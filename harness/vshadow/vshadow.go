//go:build verif

// Package vshadow is the run-time support of the shadow build: every Fiat primitive of internal/field and
// internal/scalar defers a call into this package, which re-checks the primitive's documented pre-condition
// (arguments < m) and post-condition (result < m and equal to the big-integer value) on the operands that real,
// group-level workloads produce. It imports math/big only. Single goroutine.
package vshadow

import "math/big"

// Package indices.
const (
	Field  = 0
	Scalar = 1
)

var (
	// On arms the monitor.
	On bool

	mods = [2]*big.Int{
		hx("fffffffffffffffffffffffffffffffffffffffffffffffffffffffefffffc2f"),
		hx("fffffffffffffffffffffffffffffffebaaedce6af48a03bbfd25e8cd0364141"),
	}
	r     = new(big.Int).Lsh(big.NewInt(1), 256)
	rInv  [2]*big.Int
	names = [2]string{"field", "scalar"}

	// Calls counts checked primitive calls per "pkg.Op".
	Calls = map[string]int64{}
	// Wraps counts calls whose pre-reduction value needed the final conditional subtraction/addition.
	Wraps = map[string]int64{}
	// Alarms holds the first few failed checks.
	Alarms []Alarm
	// AlarmCount is the total number of failed checks.
	AlarmCount int64
)

// Alarm is one failed pre- or post-condition.
type Alarm struct {
	Pkg  string      `json:"pkg"`
	Op   string      `json:"op"`
	Kind string      `json:"kind"` // pre | post
	What string      `json:"what"`
	Args [][4]uint64 `json:"args"`
	Out  [4]uint64   `json:"out"`
}

func hx(s string) *big.Int {
	v, _ := new(big.Int).SetString(s, 16)
	return v
}

func init() {
	for i := range mods {
		rInv[i] = new(big.Int).ModInverse(new(big.Int).Mod(r, mods[i]), mods[i])
	}
}

func toBig(l [4]uint64) *big.Int {
	v := new(big.Int)
	for i := 3; i >= 0; i-- {
		v.Lsh(v, 64)
		v.Or(v, new(big.Int).SetUint64(l[i]))
	}

	return v
}

func alarm(p int, op, kind, what string, out [4]uint64, args ...[4]uint64) {
	AlarmCount++

	if len(Alarms) < 8 {
		Alarms = append(Alarms, Alarm{Pkg: names[p], Op: op, Kind: kind, What: what, Args: args, Out: out})
	}
}

func mod(x *big.Int, p int) *big.Int { return x.Mod(x, mods[p]) }

// Reset clears counters and alarms.
func Reset() {
	Calls, Wraps, Alarms, AlarmCount = map[string]int64{}, map[string]int64{}, nil, 0
}

// Bin checks Mul / Add / Sub.
func Bin(p int, op string, out *[4]uint64, a, b [4]uint64) {
	if !On {
		return
	}

	key := names[p] + "." + op
	Calls[key]++

	m := mods[p]
	av, bv, ov := toBig(a), toBig(b), toBig(*out)

	if av.Cmp(m) >= 0 || bv.Cmp(m) >= 0 {
		alarm(p, op, "pre", "argument not canonical (>= m)", *out, a, b)
		return
	}

	var want *big.Int

	switch op {
	case "Mul":
		want = mod(new(big.Int).Mul(new(big.Int).Mul(av, bv), rInv[p]), p)
	case "Add":
		s := new(big.Int).Add(av, bv)
		if s.Cmp(m) >= 0 {
			Wraps[key]++
		}

		want = mod(s, p)
	case "Sub":
		if av.Cmp(bv) < 0 {
			Wraps[key]++
		}

		want = mod(new(big.Int).Sub(av, bv), p)
	}

	if ov.Cmp(m) >= 0 {
		alarm(p, op, "post", "result not canonical (>= m)", *out, a, b)
	} else if ov.Cmp(want) != 0 {
		alarm(p, op, "post", "result differs from the big-integer value", *out, a, b)
	}
}

// Un checks Square / Opp / FromMontgomery / ToMontgomery.
func Un(p int, op string, out *[4]uint64, a [4]uint64) {
	if !On {
		return
	}

	key := names[p] + "." + op
	Calls[key]++

	m := mods[p]
	av, ov := toBig(a), toBig(*out)

	if av.Cmp(m) >= 0 {
		alarm(p, op, "pre", "argument not canonical (>= m)", *out, a)
		return
	}

	var want *big.Int

	switch op {
	case "Square":
		want = mod(new(big.Int).Mul(new(big.Int).Mul(av, av), rInv[p]), p)
	case "Opp":
		if av.Sign() != 0 {
			Wraps[key]++
		}

		want = mod(new(big.Int).Neg(av), p)
	case "FromMontgomery":
		want = mod(new(big.Int).Mul(av, rInv[p]), p)
	case "ToMontgomery":
		want = mod(new(big.Int).Mul(av, r), p)
	}

	if ov.Cmp(m) >= 0 {
		alarm(p, op, "post", "result not canonical (>= m)", *out, a)
	} else if ov.Cmp(want) != 0 {
		alarm(p, op, "post", "result differs from the big-integer value", *out, a)
	}
}

// Sel checks Selectznz.
func Sel(p int, out *[4]uint64, c uint64, a, b [4]uint64) {
	if !On {
		return
	}

	Calls[names[p]+".Selectznz"]++

	if c > 1 {
		alarm(p, "Selectznz", "pre", "condition is not 0/1", *out, a, b, [4]uint64{c})
		return
	}

	want := a
	if c == 1 {
		want = b
	}

	if *out != want {
		alarm(p, "Selectznz", "post", "wrong operand selected", *out, a, b, [4]uint64{c})
	}
}

// NZ checks Nonzero.
func NZ(p int, out *uint64, a [4]uint64) {
	if !On {
		return
	}

	Calls[names[p]+".Nonzero"]++

	zero := a == [4]uint64{}
	if (*out == 0) != zero {
		alarm(p, "Nonzero", "post", "wrong zero test", [4]uint64{*out}, a)
	}
}

// One checks SetOne.
func One(p int, out *[4]uint64) {
	if !On {
		return
	}

	Calls[names[p]+".SetOne"]++

	if toBig(*out).Cmp(new(big.Int).Mod(r, mods[p])) != 0 {
		alarm(p, "SetOne", "post", "not the Montgomery form of 1", *out)
	}
}
