//go:build verif && (p_all || p_shadow || p_c06 || p_c12)

package props

import (
	"fmt"
	"math/big"
	"os"
	"path/filepath"
	"strings"

	"github.com/bytemare/secp256k1"
	"github.com/bytemare/secp256k1/zz_verif/gen"
	"github.com/bytemare/secp256k1/zz_verif/mon"
	"github.com/bytemare/secp256k1/zz_verif/oracle"
	"github.com/bytemare/secp256k1/zz_verif/vshadow"
)

// SHADOW — the shadow pre/post-condition monitor (thorough tier of C06 and C12).
//
// In the shadow build every Fiat primitive of internal/field and internal/scalar defers a check of its documented
// pre-condition (arguments < m) and post-condition (result < m and equal to the math/big value). This hidden property
// drives realistic GROUP-LEVEL workloads underneath it, so that the primitives are judged on exactly the operand
// population real use produces (about 15,000 primitive calls per scalar multiplication).

type shadowCase struct {
	Kind string       `json:"kind"`
	E    mon.ElemCase `json:"elem,omitempty"`
	K    string       `json:"k,omitempty"`
	Msg  string       `json:"msg,omitempty"`
	Dst  string       `json:"dst,omitempty"`
}

func init() {
	register(&mon.Prop{
		ID:       "SHADOW",
		Flavour:  "shadow",
		NoNoise:  true,
		Rule:     "group-level workloads under the shadow build",
		NewCase:  func() any { return &shadowCase{} },
		Generate: shadowGenerate,
		Run:      shadowRun,
	})

	// C06 and C12 add the shadow pass to their thorough tier.
	for _, id := range []string{"C06", "C12"} {
		if p := Registry[id]; p != nil {
			p.Parent = shadowParent
		}
	}
}

func shadowGenerate(c *mon.Ctx) {
	pool := gen.NewPool(c.SharedRng("pool"), 8)
	n := oracle.N

	for i, pv := range pool.All {
		for j, rp := range gen.StructuredReprs(pv.P.IsInf()) {
			if (i+j)%4 != 0 {
				continue
			}

			e := mon.MkElemCase(pv, rp)
			k := gen.ScalarSpecials()[(i*31+j*7)%len(gen.ScalarSpecials())]
			c.Structured(func() any { return &shadowCase{Kind: "mul", E: e, K: fmt.Sprintf("%x", k.X)} })
			c.Structured(func() any { return &shadowCase{Kind: "group-ops", E: e} })
		}
	}

	c.Random(c.N(600, 12000), func(r *gen.Rng) any {
		switch r.Intn(8) {
		case 0, 1, 2:
			pv := gen.Fresh(r)
			return &shadowCase{Kind: "mul", E: mon.MkElemCase(pv, gen.DrawRepr(r, false)), K: fmt.Sprintf("%x", gen.Draw(r, n).X)}
		case 3:
			return &shadowCase{Kind: "h2g", Msg: mon.H(r.Bytes(r.Intn(100))), Dst: mon.H(r.Bytes(1 + r.Intn(300)))}
		case 4:
			return &shadowCase{Kind: "e2g-h2s", Msg: mon.H(r.Bytes(r.Intn(100))), Dst: mon.H(r.Bytes(1 + r.Intn(300)))}
		case 5:
			pv := gen.Fresh(r)
			return &shadowCase{Kind: "group-ops", E: mon.MkElemCase(pv, gen.DrawRepr(r, false))}
		case 6:
			return &shadowCase{Kind: "scalar-ops", K: fmt.Sprintf("%x", gen.Draw(r, n).X), Msg: fmt.Sprintf("%x", gen.Draw(r, n).X)}
		default:
			pv := gen.Fresh(r)
			return &shadowCase{Kind: "codec", E: mon.MkElemCase(pv, gen.DrawRepr(r, false)), K: fmt.Sprintf("%x", gen.Draw256(r, n).X)}
		}
	})
}

func shadowRun(c *mon.Ctx, csAny any) {
	cs := csAny.(*shadowCase)

	vshadow.Reset()
	vshadow.On = true

	pan, pv := mon.Call(func() {
		switch cs.Kind {
		case "mul":
			cs.E.Build().Multiply(mon.Scal(mon.BigH(cs.K))).Encode()
		case "h2g":
			secp256k1.HashToGroup(mon.UnH(cs.Msg), mon.UnH(cs.Dst)).Encode()
		case "e2g-h2s":
			secp256k1.EncodeToGroup(mon.UnH(cs.Msg), mon.UnH(cs.Dst)).EncodeUncompressed()
			secp256k1.HashToScalar(mon.UnH(cs.Msg), mon.UnH(cs.Dst)).Encode()
		case "group-ops":
			e := cs.E.Build()
			f := e.Copy().Double().Add(e).Subtract(secp256k1.Base()).Negate()
			f.Equal(e)
			f.Add(f).Subtract(f).IsIdentity()
			_ = f.Decode(e.Encode())
			_ = f.Decode(e.EncodeUncompressed())
		case "scalar-ops":
			s, t := mon.Scal(mon.BigH(cs.K)), mon.Scal(mon.BigH(cs.Msg))
			s.Add(t).Multiply(t).Subtract(t).Square().Invert()
			s.Pow(secp256k1.NewScalar().SetUInt64(5))
			s.LessOrEqual(t)
			s.Bits()
			_ = s.CSelect(3, s, t)
			s.Random()
			_ = t.Decode(s.Encode())
			s.MinusOne().One().Zero()
		case "codec":
			e := cs.E.Build()
			enc := e.Encode()
			_ = secp256k1.NewElement().Decode(enc)
			_ = secp256k1.NewElement().DecodeHex(e.Hex())
			b := oracle.Bytes32(mon.BigH(cs.K))
			_ = secp256k1.NewScalar().Decode(b)
			_ = secp256k1.NewElement().Decode(append([]byte{2}, b...))
			_ = secp256k1.NewElement().DecodeCoordinates([32]byte(b), [32]byte(enc[1:]))
		default:
			panic("harness: unknown shadow kind " + cs.Kind)
		}
	})

	vshadow.On = false

	if pan {
		if m, ok := pv.(string); ok && strings.HasPrefix(m, "harness:") {
			panic(m)
		}

		c.Fail(fmt.Sprintf("%s workload panicked under the shadow build: %v", cs.Kind, pv), "shadow:panic", nil)

		return
	}

	c.Eval(1)
	c.Count("workload:" + cs.Kind)

	var total int64

	for k, v := range vshadow.Calls {
		c.CountN("primitive:"+k, v)
		total += v
	}

	for k, v := range vshadow.Wraps {
		c.CountN("needed-final-correction:"+k, v)
	}

	c.CountN("primitive-calls", total)

	for _, a := range vshadow.Alarms {
		args := make([]string, len(a.Args))
		for i, x := range a.Args {
			args[i] = mon.HexLimbs(x)
		}

		c.Fail(fmt.Sprintf("Fiat primitive %s.%s: %s-condition violated during a %s workload: %s; stored args %v, stored result %s", a.Pkg, a.Op, a.Kind, cs.Kind, a.What, args, mon.HexLimbs(a.Out)),
			fmt.Sprintf("shadow:%s:%s:%s", a.Pkg, a.Op, a.Kind), nil)
	}

	c.Seen(cs)

	_ = big.NewInt
}

// shadowParent runs the property's own shards and, in the thorough tier, the shadow workloads under the shadow build.
func shadowParent(p *mon.Prop, pc *mon.ParentCtx) *mon.Aggregate {
	agg := mon.RunShards(p, pc, nil)
	exe := os.Getenv("VMON_SHADOW_EXE")

	if pc.Tier != "thorough" {
		return agg
	}

	if exe == "" {
		agg.Incon("thorough tier needs the shadow build (VMON_SHADOW_EXE not set; run through ./check)")
		return agg
	}

	sub := *pc
	sub.Exe = exe
	sub.Scratch = filepath.Join(pc.Scratch, "shadow")
	_ = os.MkdirAll(sub.Scratch, 0o755)

	sagg := mon.RunShards(Registry["SHADOW"], &sub, nil)
	pkg := map[string]string{"C06": "scalar", "C12": "field"}[p.ID]

	for k, v := range sagg.Counters {
		if strings.HasPrefix(k, "primitive:") || strings.HasPrefix(k, "needed-final-correction:") {
			if !strings.Contains(k, ":"+pkg+".") {
				continue
			}
		}

		agg.Counters["shadow/"+k] += v
	}

	agg.Counters["shadow/group-level-workloads"] = sagg.Evaluations
	agg.Inconclusive = append(agg.Inconclusive, sagg.Inconclusive...)

	for _, v := range sagg.Violations {
		if strings.HasPrefix(v.Key, "shadow:"+pkg+":") || v.Key == "process-fatal" {
			v.Property = p.ID
			agg.Violations = append(agg.Violations, v)
			agg.ViolCount++
		}
	}

	if agg.Counters["shadow/primitive-calls"] < 1000000 && len(agg.Violations) == 0 {
		agg.Incon("shadow pass observed only %d primitive calls", agg.Counters["shadow/primitive-calls"])
	}

	agg.Extra["shadow_monitor"] = "pre/post-conditions of every Fiat primitive checked with math/big under group-level workloads (counts under counters shadow/...)"

	return agg
}
