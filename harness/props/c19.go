//go:build verif && (p_all || p_c19)

package props

import (
	"fmt"
	"hash/fnv"
	"math/big"

	"github.com/bytemare/secp256k1"
	"github.com/bytemare/secp256k1/zz_verif/gen"
	"github.com/bytemare/secp256k1/zz_verif/mon"
	"github.com/bytemare/secp256k1/zz_verif/oracle"
	"github.com/bytemare/secp256k1/zz_verif/vtrace"
)

// C19 — Multiply follows a scalar-independent schedule of field operations.
//
// Monitor: the trace build has a probe at the entry of every function and every block of internal/field and
// internal/scalar. For a fixed point (value and representation) the probe sequence recorded between entry and return
// of Element.Multiply must be identical for every scalar other than 1.

type c19Case struct {
	E  mon.ElemCase `json:"elem"`
	Ks []string     `json:"scalars"` // compared against the reference scalar 0
	// Alt: scalars (by value) held in their second 256-bit limb representation, stored limbs + n, written through the
	// exported field Scalar.S (possible when the stored limbs are below 2^256-n); the same scalar, the same result.
	Alt []string `json:"scalars_in_second_representation,omitempty"`
	// Moves: scalar objects that reached their value through a mutator of the API instead of having limbs written.
	Moves []mon.ScalarMove `json:"scalar_moves,omitempty"`
	// Soak > 0: that many traced multiplications in a row (scalars Ks in rotation), each compared with the reference trace.
	Soak int `json:"soak,omitempty"`
}

func init() {
	register(&mon.Prop{
		ID:      "C19",
		Flavour: "trace",
		Rule: "cases = (point value and representation, list of scalars): points G, O in several forms, λ-scaled G, small-x, hashed and random points; scalars 0 (reference), 2, 3, n-1, n-2, 2^255, every 2^i, 2^255|2^i, " +
			"sparse, dense, runs of leading/trailing zeros of every length, alternating, stored-form adjacent to One(), Montgomery-structured, PRNG (>=50% with bit 255 set); scalars held in their second limb representation (stored limbs + n through the exported field S, for the values m/R with m < 2^256-n), scalar objects that reached their value through each mutator of the API (decode, arithmetic, CSelect, scripted Random incl. out-of-range draws, ...); 1 (documented shortcut) and nil are excluded; every fourth scalar is multiplied twice in a row on identical inputs (a memo of the last result would shorten the second run). " +
			"Monitor: an AST rewriter puts a probe at the entry of every function and every nested block of internal/field and internal/scalar (current working tree); the recorded probe sequence between entry and return of Multiply " +
			"must equal, in length and content, the sequence for the reference scalar on the same point. evaluations = traced multiplications; non-trivial = scalar not in {0,1}; distinct by (point, representation, scalar).",
		Assume:   []string{"granularity is function/block entry inside internal/field and internal/scalar; not a timing or micro-architectural claim"},
		NewCase:  func() any { return &c19Case{} },
		Generate: c19Generate,
		Run:      c19Run,
		Require: func(string) map[string]int64 {
			return map[string]int64{"traces": 2000, "points": 20, "k:bit255": 500, "k:pow2": 256, "trace-events-min-ok": 20, "P=O": 2, "repr:scaled": 5, "repeated-immediately": 300, "k:second-representation": 50, "k:moved": 100}
		},
	})
}

func c19Generate(c *mon.Ctx) {
	pool := gen.NewPool(c.SharedRng("pool"), 4)
	specials := gen.ScalarSpecials()
	n := oracle.N

	// leading / trailing zero runs of every length, alternating patterns
	var runs []gen.V

	for l := 1; l < 256; l += 3 {
		x := new(big.Int).Lsh(big.NewInt(1), uint(l))
		x.Sub(x, big.NewInt(1)) // l trailing ones, 256-l leading zeros
		runs = append(runs, gen.V{X: x, Class: "leading-zeros"})

		y := new(big.Int).Lsh(big.NewInt(1), uint(l)) // l trailing zeros
		runs = append(runs, gen.V{X: y, Class: "trailing-zeros"})
	}

	alt := new(big.Int)
	for i := 0; i < 254; i += 2 {
		alt.SetBit(alt, i, 1)
	}

	runs = append(runs, gen.V{X: alt, Class: "alternating"}, gen.V{X: new(big.Int).Lsh(alt, 1), Class: "alternating"})

	all := append(append([]gen.V{}, specials...), runs...)

	hexes := func(vs []gen.V) []string {
		var out []string

		for _, v := range vs {
			if v.X.Cmp(big.NewInt(1)) != 0 && v.X.Cmp(n) < 0 {
				out = append(out, fmt.Sprintf("%x", v.X))
			}
		}

		return out
	}

	g := gen.PV{P: oracle.G(), Tag: "G"}
	aff := gen.Repr{Kind: "affine", L: big.NewInt(1)}

	// G with the whole structured list, in chunks so that the work spreads over shards
	hs := hexes(all)
	for i := 0; i < len(hs); i += 40 {
		j := i + 40
		if j > len(hs) {
			j = len(hs)
		}

		ks := hs[i:j]
		c.Structured(func() any { return &c19Case{E: mon.MkElemCase(g, aff), Ks: ks} })
	}

	// every pool point in two representations with a rotating selection of the structured scalars
	for i, pv := range pool.All {
		reprs := gen.StructuredReprs(pv.P.IsInf())
		for j := 0; j < 2; j++ {
			rp := reprs[(i*3+j*7)%len(reprs)]

			var ks []string

			for k := 0; k < 24; k++ {
				ks = append(ks, hs[(i*53+j*17+k*29)%len(hs)])
			}

			e := mon.MkElemCase(pv, rp)
			c.Structured(func() any { return &c19Case{E: e, Ks: ks} })
		}
	}

	// scalars in their second limb representation: value m/R mod n has stored limbs m, and m+n fits in 256 bits for m < 2^256-n
	rinv := new(big.Int).ModInverse(new(big.Int).Lsh(big.NewInt(1), 256), n)
	gap := new(big.Int).Sub(new(big.Int).Lsh(big.NewInt(1), 256), n)
	ar := c.SharedRng("alt")

	var alts []string

	for _, m := range []*big.Int{big.NewInt(0), big.NewInt(1), big.NewInt(2), big.NewInt(3), new(big.Int).Lsh(big.NewInt(1), 64), new(big.Int).Lsh(big.NewInt(1), 127),
		new(big.Int).Sub(gap, big.NewInt(1)), new(big.Int).Sub(gap, big.NewInt(2)), oracle.Mod(gen.Draw(ar, n).X, gap), oracle.Mod(gen.Draw(ar, n).X, gap), oracle.Mod(gen.Draw(ar, n).X, gap)} {
		k := oracle.Mod(new(big.Int).Mul(m, rinv), n)
		if k.Cmp(big.NewInt(1)) != 0 {
			alts = append(alts, fmt.Sprintf("%x", k))
		}
	}

	hr := c.SharedRng("moves")

	for i, pv := range pool.All {
		if i%4 != 0 && i > 4 {
			continue
		}

		reprs := gen.StructuredReprs(pv.P.IsInf())
		e := mon.MkElemCase(pv, reprs[i%len(reprs)])

		var mvs []mon.ScalarMove

		for _, via := range mon.ScalarVias {
			if mv := mon.PlanScalarMove(via, hr); mv.To != mon.Havoc && mon.BigH(mv.To).Cmp(big.NewInt(1)) != 0 {
				mvs = append(mvs, mv)
			}
		}

		c.Structured(func() any { return &c19Case{E: e, Alt: alts, Moves: mvs} })
	}

	// a soak: more than 4096 (thorough: 2^16) traced multiplications in one process on one point with a handful of scalars,
	// every trace compared with the first: extra work done on every N-th call of the process (a sampled consistency check)
	c.Structured(func() any { return &c19Case{E: mon.MkElemCase(g, aff), Ks: hs[:6], Soak: c.N(4300, 66000)} })

	c.Random(c.N(300, 30000), func(r *gen.Rng) any {
		var pv gen.PV
		if r.Intn(3) == 0 {
			pv = pool.Draw(r)
		} else {
			pv = gen.Fresh(r)
		}

		var ks []string

		for k := 0; k < 16; k++ {
			v := gen.Draw(r, n).X
			if r.Bool() {
				x := new(big.Int).SetBit(v, 255, 1)
				if x.Cmp(n) < 0 {
					v = x
				}
			}

			if v.Cmp(big.NewInt(1)) != 0 {
				ks = append(ks, fmt.Sprintf("%x", v))
			}
		}

		return &c19Case{E: mon.MkElemCase(pv, gen.DrawRepr(r, pv.P.IsInf())), Ks: ks}
	})
}

func c19Trace(e *secp256k1.Element, k *secp256k1.Scalar) (n int, h uint64, seq []uint16, pan bool, pv any) {
	vtrace.Seq = vtrace.Seq[:0]
	vtrace.On = true
	pan, pv = mon.Call(func() { e.Multiply(k) })
	vtrace.On = false

	hh := fnv.New64a()

	var b [2]byte

	for _, v := range vtrace.Seq {
		b[0], b[1] = byte(v), byte(v>>8)
		hh.Write(b[:])
	}

	return len(vtrace.Seq), hh.Sum64(), vtrace.Seq, pan, pv
}

func c19Run(c *mon.Ctx, csAny any) {
	cs := csAny.(*c19Case)

	c.Count("points")
	c.Count("repr:" + cs.E.R.Kind)

	if cs.E.P.Inf {
		c.Count("P=O")
	}

	// reference: scalar 0
	refN, refH, seq, pan, pv := c19Trace(cs.E.Build(), mon.Scal(big.NewInt(0)))
	if pan {
		c.Fail(fmt.Sprint("Multiply(0) panicked: ", pv), "trace-panic", nil)
		return
	}

	ref := append([]uint16{}, seq...)

	c.Eval(1)
	c.Count("traces")

	// recorder liveness, judged on an operation that has nothing to do with scalars: one Double must hit probes
	vtrace.Seq = vtrace.Seq[:0]
	vtrace.On = true
	secp256k1.Base().Double()
	vtrace.On = false

	if len(vtrace.Seq) < 10 {
		c.Inconclusive(fmt.Sprintf("a traced Double recorded only %d events: the trace build is not recording (probes missing?)", len(vtrace.Seq)))
		return
	}

	c.Count("trace-events-min-ok")
	c.CountN("trace-events-total", int64(refN))

	if cs.Soak > 0 {
		c.Count("soak")

		for i := 0; i < cs.Soak; i++ {
			kh := cs.Ks[i%len(cs.Ks)]
			n, h, _, pan, pv := c19Trace(cs.E.Build(), mon.Scal(mon.BigH(kh)))

			c.Eval(1)

			if pan {
				c.Fail(fmt.Sprintf("Multiply panicked at call %d of a soak: %v", i, pv), "trace-panic", nil)
				return
			}

			if n != refN || h != refH {
				c.Fail(fmt.Sprintf("call %d of %d consecutive multiplications of one point in this process (k=%s) recorded %d field-level events, the reference %d: the work done depends on how many calls came before", i, cs.Soak, kh, n, refN), "trace-differs-by-call-count", nil)
				return
			}
		}

		return
	}

	type traced struct {
		kh   string
		how  string
		make func() *secp256k1.Scalar
	}

	var list []traced

	for _, kh := range cs.Ks {
		k := mon.BigH(kh)
		list = append(list, traced{kh, "", func() *secp256k1.Scalar { return mon.Scal(k) }})
	}

	for _, kh := range cs.Alt {
		k := mon.BigH(kh)
		list = append(list, traced{kh, " held as stored limbs + n", func() *secp256k1.Scalar {
			s := mon.Scal(k)

			alt := new(big.Int).Add(oracle.FromLimbs(s.S), oracle.N)
			if alt.BitLen() > 256 {
				panic("harness: scalar has no second limb representation")
			}

			s.S = oracle.Limbs(alt)
			c.Count("k:second-representation")

			return s
		}})
	}

	for _, mv := range cs.Moves {
		mv := mv
		list = append(list, traced{mv.To, " reached through " + mv.Via, func() *secp256k1.Scalar {
			s, _, pan, pv := mon.MoveScalar(mv, func(s *secp256k1.Scalar) { s.Bits() })
			if pan {
				panic(fmt.Sprint("harness: scalar mutator ", mv.Via, " panicked: ", pv))
			}

			c.Count("k:moved")

			return s
		}})
	}

	for ki, t := range list {
		kh := t.kh + t.how
		k := mon.BigH(t.kh)
		if k.Cmp(big.NewInt(1)) == 0 {
			continue
		}

		if ki%5 == 2 {
			// untraced calls of other API functions between two traced multiplications (rejected decodes at every stage among
			// them): what the process has seen since the reference trace was taken is not the scalar's business either
			c.Count("unrelated-calls-between-traces")

			nr := gen.New(c.Seed, fmt.Sprintf("C19/between/%s/%d", t.kh, ki))
			if pan, pv := mon.Call(func() { mon.Noise(nr); mon.Noise(nr) }); pan {
				c.Fail(fmt.Sprint("an unrelated API call made between two traced multiplications panicked: ", pv), "noise-panic", nil)
				return
			}
		}

		n, h, seq, pan, pv := c19Trace(cs.E.Build(), t.make())

		if ki%4 == 0 && !pan && n == refN && h == refH {
			// the same (point, scalar) again, immediately: a "last result" memo would make the second run shorter
			c.Count("repeated-immediately")
			c.Eval(1)
			n, h, seq, pan, pv = c19Trace(cs.E.Build(), t.make())
		}

		c.Eval(1)
		c.Count("traces")
		c.CountN("trace-events-total", int64(n))

		if k.Bit(255) == 1 {
			c.Count("k:bit255")
		}

		if k.BitLen() > 0 && new(big.Int).And(k, new(big.Int).Sub(k, big.NewInt(1))).Sign() == 0 {
			c.Count("k:pow2")
		}

		if pan {
			c.Fail(fmt.Sprintf("Multiply panicked for k=%s: %v", kh, pv), "trace-panic", nil)
			return
		}

		if n != refN || h != refH {
			// locate the first divergence
			i := 0
			for i < n && i < refN && seq[i] == ref[i] {
				i++
			}

			ctx := func(s []uint16, at int) []string {
				var out []string

				for j := at - 2; j <= at+3; j++ {
					if j >= 0 && j < len(s) {
						out = append(out, fmt.Sprintf("%d:%s", j, vtrace.Name(s[j])))
					}
				}

				return out
			}

			c.Fail(fmt.Sprintf("the field-operation trace of Multiply depends on the scalar: k=%s gives %d events, k=0 gives %d on the same point; first divergence at event %d", kh, n, refN, i),
				"trace-differs", map[string]any{"first_divergence": i, "trace_k": ctx(seq, i), "trace_ref": ctx(ref, i), "len_k": n, "len_ref": refN})

			return
		}

		if k.Sign() != 0 {
			c.Seen(cs.E, kh)
		}
	}

	if c.WantSample() {
		ks := cs.Ks
		if len(ks) > 4 {
			ks = ks[:4]
		}

		c.Sample(map[string]any{"point": cs.E, "first_scalars": ks, "scalars_in_case": len(cs.Ks), "events_per_trace": refN, "trace_hash": fmt.Sprintf("%016x", refH),
			"first_probes": func() []string {
				var out []string
				for j := 0; j < 6 && j < len(ref); j++ {
					out = append(out, vtrace.Name(ref[j]))
				}

				return out
			}()})
	}
}
