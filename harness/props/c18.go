//go:build verif && (p_all || p_c18)

package props

import (
	"bytes"
	"crypto/rand"
	"encoding/binary"
	"errors"
	"fmt"
	"io"
	"math/big"
	"os"
	"runtime"
	"sync"
	"syscall"

	"github.com/bytemare/secp256k1"
	"github.com/bytemare/secp256k1/zz_verif/gen"
	"github.com/bytemare/secp256k1/zz_verif/mon"
	"github.com/bytemare/secp256k1/zz_verif/oracle"
)

// C18 — Random is correct for every entropy stream. The system source (crypto/rand.Reader, an exported variable) is
// replaced by a scripted reader: this family's fault injection at the only external dependency of the package.

type c18Case struct {
	Stream   string `json:"stream"`             // bytes the source will deliver
	Chunks   []int  `json:"chunks"`             // read granularity script, cycled; 0 = a zero-length read without error
	FailAt   int    `json:"fail_at"`            // the source fails once this many bytes were delivered (-1: only at end of stream)
	EagerErr bool   `json:"eager_err,omitempty"` // deliver the last bytes before the failure together with the error
	// Transient: the failure at FailAt is a single interrupted read (the error wraps syscall.EINTR / EAGAIN); the source then
	// carries on with the rest of the stream. A Random that gives up (panics) and one that correctly resumes are both
	// acceptable; one that returns anything but the first usable block of the whole stream is not.
	Transient string `json:"transient,omitempty"`
	Pre       string `json:"pre"` // value pre-loaded in the receiver
	// FailByPanic: the source does not return its failure, it panics with a value of this kind ("string", "error", "int").
	FailByPanic string `json:"fail_by_panic,omitempty"`
	Class    string `json:"class"`
	// Conc > 0: that many goroutines call Random simultaneously on scalars they own, the source serving each read a
	// fresh, unique, usable block (and yielding the processor just before it returns): every result must be one of the
	// served blocks, and no block may come back twice.
	Conc  int `json:"concurrent_goroutines,omitempty"`
	Calls int `json:"calls_per_goroutine,omitempty"`
}

// c18Unique serves every Read a block that was never served before (safe for concurrent use).
type c18Unique struct {
	mu     sync.Mutex
	next   uint64
	served map[string]bool
}

func (u *c18Unique) Read(p []byte) (int, error) {
	u.mu.Lock()

	for off := 0; off < len(p); off += 32 {
		var b [32]byte

		u.next++
		b[0] = 0x55
		binary.BigEndian.PutUint64(b[24:], u.next)
		binary.BigEndian.PutUint64(b[8:], u.next*0x9e3779b97f4a7c15)
		copy(p[off:], b[:])

		if off+32 <= len(p) {
			u.served[string(b[:])] = true
		}
	}

	u.mu.Unlock()
	// a suspension point between "the buffer is filled" and "the caller looks at it"
	runtime.Gosched()

	return len(p), nil
}

type c18Reader struct {
	data     []byte
	pos      int
	chunks   []int
	ci       int
	failAt   int
	transient error // non-nil: the failure happens once, with this error, and the stream continues
	failedOnce bool
	eager    bool
	zeroRun  int
	reads    int
	failures int
	panicVal any // non-nil: a (non-transient) failure is a panic with this value
}

var errScripted = errors.New("scripted entropy failure")

func (r *c18Reader) Read(p []byte) (int, error) {
	r.reads++

	limit := len(r.data)
	if r.failAt >= 0 && r.failAt < limit && !(r.transient != nil && r.failedOnce) {
		limit = r.failAt
	}

	if r.transient != nil && !r.failedOnce && r.failAt >= 0 && r.pos >= r.failAt {
		r.failedOnce = true
		r.failures++

		return 0, r.transient
	}

	if r.pos >= limit {
		r.failures++

		if r.panicVal != nil {
			panic(r.panicVal)
		}

		if r.failAt >= 0 && r.pos >= r.failAt {
			return 0, errScripted
		}

		return 0, io.EOF
	}

	n := len(p)

	if len(r.chunks) > 0 {
		ch := r.chunks[r.ci%len(r.chunks)]
		r.ci++

		if ch == 0 && r.zeroRun < 3 {
			r.zeroRun++
			return 0, nil
		}

		if ch < 0 {
			// a long run of empty reads (no data, no error): -ch of them, then the stream carries on
			if r.zeroRun < -ch {
				r.zeroRun++
				r.ci-- // stay on this script entry

				return 0, nil
			}
		}

		r.zeroRun = 0

		if ch > 0 && ch < n {
			n = ch
		}
	}

	if r.pos+n > limit {
		n = limit - r.pos
	}

	copy(p, r.data[r.pos:r.pos+n])
	r.pos += n

	if r.eager && r.pos >= limit {
		r.failures++

		if r.failAt >= 0 && r.pos >= r.failAt {
			return n, errScripted
		}

		return n, io.EOF
	}

	return n, nil
}

func init() {
	register(&mon.Prop{
		ID:      "C18",
		Flavour: "plain",
		Rule: "cases = (byte stream, read-granularity script, failure point): streams composed of 32-byte blocks from {0, n, 1, n-1, n+1, 2n-2^256.., 2^256-1, n with one limb perturbed, structured, random}; " +
			"0..5 skipped blocks (0 and n) in every pattern, and runs of 6..100 skipped blocks, before the first usable one; read granularities 1,7,31,32,33, whole request, zero-length reads without error, mixed scripts; " +
			"failures at byte 0,1,31,32,33,63,64,.. and after k skipped blocks, delivered either as a separate failing read or together with the last bytes; receiver pre-loaded with a known value. " +
			"Oracle: the first block whose value mod n is non-zero, reduced mod n (math/big); result must be in [1,n-1] with stored limbs < n; if the source fails before such a block is complete, Random must panic. " +
			"Single interrupted reads (an error wrapping EINTR / EAGAIN at every offset of the first two blocks, the source then carrying on): a panic or the correct first usable block of the whole stream are accepted, nothing else; after any panic the receiver may not hold zero or a non-canonical value. A source that fails by panicking (with a string, an error, an int) must not be answered with a normal return. Second calls: whenever the first call is served without a fault, the source goes on with usable blocks and a second Random on it must return the first usable block following the blocks the first call examined. Concurrent runs: 2..16 goroutines call Random simultaneously on scalars they own while the source serves every read a fresh unique block and yields the processor just before returning: every result must be a served block and none may repeat. non-trivial = stream with at least one skipped block, a block >= n, a non-trivial chunking or a failure; distinct by the whole case.",
		Assume:   []string{"concurrent runs: Random obtains entropy with reads whose sizes are multiples of 32 bytes (it uses io.ReadFull on a 32-byte buffer); the source serves a fresh unique block per 32 bytes of every read"},
		NewCase:  func() any { return &c18Case{} },
		Generate: c18Generate,
		Run:      c18Run,
		Require: func(string) map[string]int64 {
			return map[string]int64{
				"streams": 2000, "outcome:value": 1000, "outcome:panic": 300, "skipped-blocks>=1": 500, "skipped:zero": 200, "skipped:n": 200, "block>=n": 300,
				"chunk:1": 50, "chunk:zero-length": 50, "fail:mid-block": 100, "fail:block-boundary": 50, "fail:eager": 50, "fail:source-panics": 50, "second-call-on-the-same-stream": 1000, "concurrent-runs": 2, "concurrent-random-calls": 10000,
			}
		},
	})
}

func c18Blocks() []gen.V {
	n := oracle.N
	out := []gen.V{
		{X: big.NewInt(1), Class: "1"}, {X: big.NewInt(2), Class: "2"}, {X: new(big.Int).Sub(n, big.NewInt(1)), Class: "n-1"},
		{X: new(big.Int).Add(n, big.NewInt(1)), Class: "n+1"}, {X: new(big.Int).Add(n, big.NewInt(2)), Class: "n+2"},
		{X: new(big.Int).Sub(new(big.Int).Lsh(big.NewInt(1), 256), big.NewInt(1)), Class: "2^256-1"},
		{X: new(big.Int).Lsh(big.NewInt(1), 255), Class: "2^255"},
	}

	for _, v := range append(gen.Raw256(n), gen.UnitDigitTuples(n)...) {
		if oracle.Mod(v.X, n).Sign() != 0 {
			out = append(out, v)
		}
	}

	return out
}

func c18Generate(c *mon.Ctx) {
	n := oracle.N
	zeroB, nB := make([]byte, 32), oracle.Bytes32(n)
	blocks := c18Blocks()
	chunkScripts := [][]int{nil, {1}, {7}, {31}, {32}, {33}, {5, 0, 11}, {0, 1}, {64}, {3, 29}, {16, 0, 0, 16}}
	k := 0

	// 1. every structured block as first block, rotating granularity
	for _, b := range blocks {
		k++
		cs := &c18Case{Stream: mon.H(oracle.Bytes32(b.X)), Chunks: chunkScripts[k%len(chunkScripts)], FailAt: -1, Pre: "7", Class: "first:" + b.Class}
		c.Structured(func() any { return cs })
	}

	// 2. skipped prefixes x granularity x good block
	for skips := 0; skips <= 5; skips++ {
		for pat := 0; pat < 1<<uint(skips); pat++ {
			var stream []byte

			for i := 0; i < skips; i++ {
				if pat>>uint(i)&1 == 0 {
					stream = append(stream, zeroB...)
				} else {
					stream = append(stream, nB...)
				}
			}

			for gi, good := range []gen.V{blocks[0], blocks[2], blocks[3], blocks[5]} {
				full := mon.H(append(append([]byte{}, stream...), oracle.Bytes32(good.X)...))

				for ci, ch := range chunkScripts {
					if (ci+gi+pat)%3 != 0 && skips > 2 {
						continue
					}

					ch := ch
					c.Structured(func() any { return &c18Case{Stream: full, Chunks: ch, FailAt: -1, Pre: "1234", Class: fmt.Sprintf("skips=%d", skips)} })
				}

				// failures at every interesting offset of this stream
				total := len(stream) + 32
				for _, fa := range []int{0, 1, 31, 32, 33, 63, 64, 65, total - 33, total - 32, total - 1, total} {
					if fa < 0 || fa > total {
						continue
					}

					for _, eager := range []bool{false, true} {
						fa, eager := fa, eager
						ch := chunkScripts[(fa+gi)%len(chunkScripts)]
						c.Structured(func() any {
							return &c18Case{Stream: full, Chunks: ch, FailAt: fa, EagerErr: eager, Pre: "1234", Class: fmt.Sprintf("fail@%d/skips=%d", fa, skips)}
						})

						if !eager {
							kind := []string{"string", "error", "int"}[(fa+gi)%3]
							c.Structured(func() any {
								return &c18Case{Stream: full, Chunks: ch, FailAt: fa, FailByPanic: kind, Pre: "1234", Class: fmt.Sprintf("panic@%d/skips=%d", fa, skips)}
							})
						}
					}
				}
			}
		}
	}

	// 2b. long runs of rejected blocks (a bounded redraw loop gives up somewhere)
	for _, run := range []int{6, 7, 8, 9, 10, 15, 16, 17, 31, 32, 33, 64, 100} {
		for pat := 0; pat < 3; pat++ {
			var stream []byte

			for i := 0; i < run; i++ {
				if (pat == 0) || (pat == 2 && i%2 == 0) {
					stream = append(stream, zeroB...)
				} else {
					stream = append(stream, nB...)
				}
			}

			full := mon.H(append(stream, oracle.Bytes32(blocks[(run+pat)%len(blocks)].X)...))
			ch := chunkScripts[(run+pat)%len(chunkScripts)]
			c.Structured(func() any { return &c18Case{Stream: full, Chunks: ch, FailAt: -1, Pre: "99", Class: fmt.Sprintf("long-run=%d", run)} })
		}
	}

	// 3. streams that end (EOF) before a usable block
	for skips := 0; skips <= 3; skips++ {
		for _, tail := range []int{0, 1, 31} {
			stream := append(bytesRepeat(zeroB, skips), nB[:tail]...)
			s := mon.H(stream)
			c.Structured(func() any { return &c18Case{Stream: s, Chunks: nil, FailAt: -1, Pre: "5", Class: "eof"} })
		}
	}

	// 3b. long runs of empty reads (0, nil) in the middle of a block and at block boundaries: 99, 100, 101, 250 in a row
	for i, run := range []int{99, 100, 101, 250} {
		for _, at := range []int{1, 17, 31, 32} {
			stream := append(bytesRepeat(zeroB, i%2), c.SharedRng("empty-runs").Bytes(64)...)
			full := mon.H(stream)
			ch := []int{at, -run, 5}
			c.Structured(func() any { return &c18Case{Stream: full, Chunks: ch, FailAt: -1, Pre: "77", Class: "empty-read-run"} })
		}
	}

	// 4. a single interrupted read (EINTR / EAGAIN) at every offset of the first two blocks, before and after skipped blocks:
	// the source carries on afterwards
	tr := c.SharedRng("transient")

	for fa := 0; fa <= 64; fa++ {
		for k, skips := range []int{0, 1, 2} {
			stream := bytesRepeat(zeroB, skips)
			if k == 1 {
				stream = append([]byte{}, nB...)
			}

			stream = append(stream, tr.Bytes(32)...)
			stream = append(stream, tr.Bytes(32)...)
			full, kind := mon.H(stream), []string{"eintr", "eagain"}[(fa+k)%2]
			ch := [][]int{nil, {7}, {31, 1}, {16}}[(fa+k)%4]
			c.Structured(func() any {
				return &c18Case{Stream: full, Chunks: ch, FailAt: fa, Transient: kind, Pre: "1234", Class: "transient"}
			})
		}
	}

	for i := 0; i < c.N(4, 64); i++ {
		g := []int{2, 8, 16, 4}[i%4]
		c.Structured(func() any { return &c18Case{Conc: g, Calls: 24000 / g, Class: "concurrent", Pre: "1", FailAt: -1} })
	}

	c.Random(c.N(20000, 2000000), func(r *gen.Rng) any {
		var stream []byte

		for i := r.Intn(4); i > 0 && r.Intn(2) == 0; i-- {
			if r.Bool() {
				stream = append(stream, zeroB...)
			} else {
				stream = append(stream, nB...)
			}
		}

		b := gen.Draw256(r, n)
		stream = append(stream, oracle.Bytes32(b.X)...)

		if r.Intn(4) == 0 {
			stream = append(stream, r.Bytes(r.Intn(40))...)
		}

		cs := &c18Case{Stream: mon.H(stream), FailAt: -1, Pre: fmt.Sprintf("%x", gen.Draw(r, n).X), Class: "random:" + b.Class}

		switch r.Intn(4) {
		case 0:
			cs.Chunks = chunkScripts[r.Intn(len(chunkScripts))]
		case 1:
			for i := 1 + r.Intn(4); i > 0; i-- {
				cs.Chunks = append(cs.Chunks, r.Intn(40))
			}
		}

		if r.Intn(4) == 0 {
			cs.FailAt = r.Intn(len(stream) + 1)
			cs.EagerErr = r.Bool()

			if !cs.EagerErr && r.Intn(3) == 0 {
				cs.FailByPanic = []string{"string", "error", "int"}[r.Intn(3)]
			}
		}

		return cs
	})
}

func bytesRepeat(b []byte, n int) []byte {
	var out []byte
	for i := 0; i < n; i++ {
		out = append(out, b...)
	}

	return out
}

func c18RunConcurrent(c *mon.Ctx, cs *c18Case) {
	src := &c18Unique{served: map[string]bool{}}
	old := rand.Reader
	rand.Reader = src

	results := make([][][]byte, cs.Conc)
	pans := make([]any, cs.Conc)
	start := make(chan struct{})

	var wg sync.WaitGroup

	for g := 0; g < cs.Conc; g++ {
		wg.Add(1)

		go func(g int) {
			defer wg.Done()
			defer func() { pans[g] = recover() }()
			<-start

			s := secp256k1.NewScalar()
			for i := 0; i < cs.Calls; i++ {
				results[g] = append(results[g], s.Random().Encode())
			}
		}(g)
	}

	close(start)
	wg.Wait()

	rand.Reader = old

	c.Count("concurrent-runs")
	c.CountN("concurrent-random-calls", int64(cs.Conc*cs.Calls))
	c.Eval(cs.Conc * cs.Calls)

	seen := map[string]bool{}

	for g := range results {
		if pans[g] != nil {
			c.Fail(fmt.Sprintf("Random panicked under %d concurrent callers with a healthy source: %v", cs.Conc, pans[g]), "random-concurrent-panic", nil)
			return
		}

		for _, b := range results[g] {
			k := string(b)

			if !src.served[k] {
				c.Fail(fmt.Sprintf("with %d concurrent callers Random returned %s, which is not one of the blocks the source served", cs.Conc, mon.H(b)), "random-concurrent-value", nil)
				return
			}

			if seen[k] {
				c.Fail(fmt.Sprintf("with %d concurrent callers two Random calls returned the same scalar %s (one entropy block used twice)", cs.Conc, mon.H(b)), "random-concurrent-duplicate", nil)
				return
			}

			seen[k] = true
		}
	}

	c.Seen("concurrent", cs.Conc, cs.Calls)
}

func c18Run(c *mon.Ctx, csAny any) {
	cs := csAny.(*c18Case)
	n := oracle.N

	if cs.Conc > 0 {
		c18RunConcurrent(c, cs)
		return
	}
	stream := mon.UnH(cs.Stream)

	// oracle
	avail := len(stream)
	if cs.FailAt >= 0 && cs.FailAt < avail && cs.Transient == "" {
		avail = cs.FailAt
	}

	var want *big.Int

	skipped, sawGE := 0, false

	for pos := 0; pos+32 <= avail; pos += 32 {
		raw := new(big.Int).SetBytes(stream[pos : pos+32])
		if raw.Cmp(n) >= 0 {
			sawGE = true
		}

		v := oracle.Mod(raw, n)
		if v.Sign() != 0 {
			want = v
			break
		}

		skipped++

		if raw.Sign() == 0 {
			c.Count("skipped:zero")
		} else {
			c.Count("skipped:n")
		}
	}

	c.Count("streams")

	if skipped > 0 {
		c.Count("skipped-blocks>=1")
	}

	if sawGE {
		c.Count("block>=n")
	}

	for _, ch := range cs.Chunks {
		switch ch {
		case 0:
			c.Count("chunk:zero-length")
		case 1:
			c.Count("chunk:1")
		}
	}

	if cs.FailAt >= 0 {
		if cs.FailAt%32 == 0 {
			c.Count("fail:block-boundary")
		} else {
			c.Count("fail:mid-block")
		}

		if cs.EagerErr {
			c.Count("fail:eager")
		}
	}

	pre := mon.BigH(cs.Pre)
	s := mon.Scal(pre)
	rd := &c18Reader{data: stream, chunks: cs.Chunks, failAt: cs.FailAt, eager: cs.EagerErr}

	switch cs.FailByPanic {
	case "string":
		rd.panicVal = "entropy source: hardware fault"
	case "error":
		rd.panicVal = errScripted
	case "int":
		rd.panicVal = 5
	}

	if cs.FailByPanic != "" {
		c.Count("fail:source-panics")
	}

	// A second call on the same source: when the first call is served without a fault, the stream goes on after the scripted
	// bytes with three usable blocks, and a second Random must return the first usable block FOLLOWING the blocks the first
	// call examined (the source's bytes form one sequence of consecutive 32-byte blocks: a call that pulls bytes of later
	// blocks out of the source and drops them hands the next caller a block that was never delivered as one).
	var want2 *big.Int

	if want != nil && cs.FailAt < 0 && cs.Transient == "" {
		tail := bytes.Repeat([]byte{0x5a}, 96)
		rest := append(append([]byte{}, stream[32*(skipped+1):]...), tail...)
		rd.data = append(append([]byte{}, stream...), tail...)

		for pos := 0; pos+32 <= len(rest); pos += 32 {
			if v := oracle.Mod(new(big.Int).SetBytes(rest[pos:pos+32]), n); v.Sign() != 0 {
				want2 = v
				break
			}
		}
	}

	switch cs.Transient {
	case "eintr":
		rd.transient = fmt.Errorf("read /dev/urandom: %w", syscall.EINTR)
	case "eagain":
		rd.transient = &os.PathError{Op: "read", Path: "/dev/urandom", Err: syscall.EAGAIN}
	}

	if cs.Transient != "" {
		c.Count("fail:transient")
	}

	old := rand.Reader
	rand.Reader = rd

	var ret *secp256k1.Scalar

	c.Eval(1)
	pan, pv := mon.Call(func() { ret = s.Random() })

	if want2 != nil && !pan {
		s2 := mon.Scal(big.NewInt(3))

		c.Eval(1)
		c.Count("second-call-on-the-same-stream")

		if pan2, pv2 := mon.Call(func() { s2.Random() }); pan2 {
			rand.Reader = old
			c.Fail(fmt.Sprintf("a second Random on the same source panicked (%v) although the stream goes on with usable blocks (first call consumed %d bytes)", pv2, rd.pos), "random-second-call-panic", nil)

			return
		} else if got2 := mon.ScalVal(s2); got2.Cmp(want2) != 0 {
			rand.Reader = old
			c.Fail(fmt.Sprintf("a second Random on the same source = %x, want %x: the first call examined %d block(s) of the stream, the next usable block follows them (the source has delivered %d bytes by now)", got2, want2, skipped+1, rd.pos), "random-second-call-value", nil)

			return
		}
	}

	rand.Reader = old

	if pan {
		// whatever the reason for giving up: the receiver must not be left holding a weak value
		if after := mon.ScalVal(s); (after.Sign() == 0 && pre.Sign() != 0) || !mon.ScalCanonical(s) {
			c.Fail(fmt.Sprintf("Random panicked (%v) and left the receiver holding %x (it held %x before the call)", pv, after, pre), "random-weak-receiver-after-panic", nil)
		}
	}

	if cs.Transient != "" && pan && rd.failedOnce {
		// giving up on an interrupted read is acceptable
		c.Count("outcome:panic-on-transient")
		c.Seen(cs.Stream, cs.Chunks, cs.FailAt, cs.Transient)

		return
	}

	if want == nil {
		c.Count("outcome:panic")

		if !pan {
			c.Fail(fmt.Sprintf("the entropy source failed after %d bytes (no usable block), but Random returned %x instead of panicking", avail, mon.ScalVal(s)), "random-no-panic", nil)
		}
	} else {
		c.Count("outcome:value")

		if pan {
			c.Fail(fmt.Sprintf("Random panicked (%v) although block %d of the stream is usable", pv, skipped), "random-panic", nil)
			return
		}

		got := mon.ScalVal(s)

		switch {
		case got.Sign() == 0:
			c.Fail("Random returned zero", "random-zero", nil)
		case !mon.ScalCanonical(s):
			c.Fail("Random left a non-canonical stored value "+mon.HexLimbs(s.S), "random-noncanonical", nil)
		case got.Cmp(want) != 0:
			c.Fail(fmt.Sprintf("Random = %x, want %x (first usable block is #%d, %d bytes consumed)", got, want, skipped, rd.pos), "random-value", nil)
		}

		if ret != s && (ret == nil || mon.ScalVal(ret).Cmp(want) != 0) {
			c.Fail("Random returned a scalar different from the receiver's new value", "random-return", nil)
		}
	}

	c.CountN("bytes-consumed", int64(rd.pos))
	c.CountN("reads-served", int64(rd.reads))

	if skipped > 0 || sawGE || len(cs.Chunks) > 0 || cs.FailAt >= 0 {
		c.Seen(cs.Stream, cs.Chunks, cs.FailAt, cs.EagerErr)

		if c.WantSample() && skipped > 0 && len(cs.Chunks) > 0 {
			w := "panic"
			if want != nil {
				w = fmt.Sprintf("%x", want)
			}

			c.Sample(map[string]any{"case": cs, "expected": w, "panicked": pan, "bytes_consumed": rd.pos, "reads": rd.reads})
		}
	}
}
