//go:build verif && (p_all || p_c03)

package props

import (
	"bytes"
	"fmt"
	"math/big"
	"strings"

	"github.com/bytemare/secp256k1"
	"github.com/bytemare/secp256k1/zz_verif/gen"
	"github.com/bytemare/secp256k1/zz_verif/mon"
	"github.com/bytemare/secp256k1/zz_verif/oracle"
)

// C03 — element decoders accept exactly the canonical encodings of curve points.

type c03Case struct {
	// Conc != 0: a concurrent batch (8 goroutines on objects they own) derived from this seed; other fields unused.
	Conc uint64 `json:"concurrent_seed,omitempty"`
	Dec   string `json:"decoder"`       // Decode | DecodeCompressed | DecodeUncompressed | DecodeCoordinates | DecodeHex | UnmarshalBinary
	In    string `json:"in"`            // input bytes in hex (DecodeCoordinates: x||y, 64 bytes)
	Str   string `json:"str,omitempty"` // DecodeHex: the literal string (In is ignored)
	Nil   bool   `json:"nil,omitempty"` // pass a nil slice instead of an empty one
	Pre   int    `json:"pre"`           // which pre-loaded receiver
	Class string `json:"class"`
	// Seq: a history over two receivers (Dec == "seq"): decodes of recurring inputs with mutations of the receivers in
	// between, judged after every step against a model of both receivers.
	Seq []c03Step `json:"seq,omitempty"`
}

type c03Step struct {
	Recv int    `json:"recv"`
	Dec  string `json:"decoder"`
	In   string `json:"in"`
	Mut  string `json:"then,omitempty"` // mutation applied to the receiver after the decode: double | negate | identity | base | add-g
}

var c03ByteDecoders = []string{"Decode", "DecodeCompressed", "DecodeUncompressed", "UnmarshalBinary", "DecodeHex"}

func init() {
	register(&mon.Prop{
		ID:      "C03",
		Flavour: "plain",
		Rule: "cases = (decoder, input, pre-loaded receiver). Inputs: every length 0..140 x 12 leading bytes; all 256 prefixes x {on-curve x, off-curve x, x>=p} at lengths 33 and 65; " +
			"x (and y) from the structured 256-bit list around p (p-40..p+40, 2^k, 2^k±1, p with one limb perturbed, 2^256-1, ...); x+p and y+p aliases of small-coordinate points; " +
			"(x,-y), (x,y±1), (y,x), (beta x,y), near misses (stored y^2 one bit away from stored x^3+7, every bit position), valid points whose x^3 / y^2 have structured stored values, points of other curves (y^2 = x^3 + b for b in -23..37, y^2 = c(x^3+7) for c in -30..30: twist points, in particular c = -11 = the SSWU Z), inputs equal to the receiver's own raw projective X/Y/Z for five receiver kinds (two of them left by the library's own Double/Add), the ASCII-hex text of valid encodings given to the byte decoders, hybrid 06/07, 04||0||0, 04||0||1, all-zero, the 256 one-byte inputs, nil vs empty; every single-bit flip of two valid encodings; " +
			"hex: lower/upper/mixed case, odd length, non-hex runes, whitespace, 0x prefix; PRNG mutations. Each byte input goes through every byte decoder, so each form-specific decoder sees the other forms. " +
			"Oracle: the acceptance predicate of the statement computed with math/big (length, prefix, x<p, y<p, Jacobi symbol, curve equation) and the accepted point; a rejected input must return an error, not panic, and leave the receiver's value unchanged " +
			"(receivers are pre-loaded with a λ-scaled point, a (0:Y:0) identity, or a random point). " +
			"History cases: sequences over two receivers in which the same few encodings (valid compressed, valid uncompressed, identity, invalid) recur through all decoders while the receivers are mutated in between (Double, Negate, Identity, Base, Add), " +
			"both receivers judged against a model after every step (a decoder that remembers an earlier input, or hands out storage shared with an earlier receiver, disagrees here). " +
			"non-trivial = length in {1,33,65} for byte decoders, or any coordinates/hex case; distinct by (decoder, input) resp. the whole sequence.",
		NewCase:  func() any { return &c03Case{} },
		Generate: c03Generate,
		Run:      c03Run,
		Require: func(string) map[string]int64 {
			return map[string]int64{
				"accept": 2000, "reject": 10000, "reject:x>=p": 100, "reject:off-curve": 500, "reject:alias-x+p": 10, "reject:alias-y+p": 5,
				"accept:identity": 3, "accept:compressed": 500, "accept:uncompressed": 500, "wrong-form": 500, "hex:uppercase": 20, "hex:invalid": 20, "seq": 300, "seq-steps": 2000, "seq:repeat-after-mutation": 300, "class:near-miss": 100, "class:steered-y2": 100, "class:steered-x3": 100, "class:steered-y": 100, "class:steered-x": 100, "class:other-curve": 1000, "class:receiver-internals": 150, "class:text-form": 80,
			}
		},
	})

	Registry["C03"].ColdStart = func(c *mon.Ctx) { c03RunConc(c, c.Seed*7919+uint64(c.Shard)+1) }
}

const c03PreKinds = 5

func c03Pre(i int) (*secp256k1.Element, oracle.Pt) {
	switch i % c03PreKinds {
	case 0:
		p := oracle.Mul(big.NewInt(5), oracle.G())
		return mon.Elem(p, gen.Repr{Kind: "scaled", L: big.NewInt(0xabcdef)}), p
	case 1:
		return mon.Elem(oracle.Inf(), gen.Repr{Kind: "id-y", L: big.NewInt(77)}), oracle.Inf()
	case 2:
		p := oracle.Neg(oracle.Dbl(oracle.G()))
		return mon.Elem(p, gen.Repr{Kind: "affine", L: big.NewInt(1)}), p
	case 3:
		// projective coordinates exactly as the library's own doubling leaves them
		return secp256k1.Base().Double(), oracle.Dbl(oracle.G())
	default:
		// ... and its own addition
		return secp256k1.Base().Add(secp256k1.Base().Double()), oracle.Mul(big.NewInt(3), oracle.G())
	}
}

func c03Generate(c *mon.Ctx) {
	concBatches(c, c.NConc(6, 300), func(seed uint64) any { return &c03Case{Conc: seed} })

	pool := gen.NewPool(c.SharedRng("pool"), 8)
	n := 0

	emitBytes := func(b []byte, class string) {
		for _, d := range c03ByteDecoders {
			n++
			cs := &c03Case{Dec: d, In: mon.H(b), Pre: n, Class: class}
			c.Structured(func() any { return cs })
		}
	}

	emitCoords := func(x, y *big.Int, class string) {
		n++
		in := mon.H(append(oracle.Bytes32(x), oracle.Bytes32(y)...))
		c.Structured(func() any { return &c03Case{Dec: "DecodeCoordinates", In: in, Pre: n, Class: class} })
	}

	emitStr := func(s, class string) {
		n++
		c.Structured(func() any { return &c03Case{Dec: "DecodeHex", Str: s, Pre: n, Class: class} })
	}

	g := oracle.G()
	gu := oracle.EncU(g)
	filler := bytes.Repeat(gu[1:], 4)

	// 1. lengths x leading bytes
	for l := 0; l <= 140; l++ {
		if l == 0 {
			emitBytes([]byte{}, "len")

			for _, d := range c03ByteDecoders[:4] {
				d := d
				n++
				c.Structured(func() any { return &c03Case{Dec: d, Nil: true, Pre: n, Class: "nil"} })
			}

			continue
		}

		for _, pfx := range []byte{0, 1, 2, 3, 4, 5, 6, 7, 0x40, 0x80, 0xfe, 0xff} {
			b := append([]byte{pfx}, filler[:l-1]...)
			emitBytes(b, "len")
		}
	}

	// 2. all prefixes x {on-curve x, off-curve x, x >= p}
	offX := big.NewInt(5) // x^3+7 = 132 is not a square mod p? decided by the oracle anyway
	for ; ; offX.Add(offX, big.NewInt(1)) {
		if _, ok := oracle.LiftX(offX, 0); !ok {
			break
		}
	}

	geP := new(big.Int).Add(oracle.P, big.NewInt(1))

	for pfx := 0; pfx < 256; pfx++ {
		for _, x := range []*big.Int{g.X, offX, geP} {
			emitBytes(append([]byte{byte(pfx)}, oracle.Bytes32(x)...), "prefix33")
			emitBytes(append(append([]byte{byte(pfx)}, oracle.Bytes32(x)...), oracle.Bytes32(g.Y)...), "prefix65")
		}
	}

	// 3. structured x around every decision boundary, compressed and as coordinates
	for _, v := range append(gen.Raw256(oracle.P), gen.UnitDigitTuples(oracle.P)...) {
		for _, pfx := range []byte{2, 3} {
			emitBytes(append([]byte{pfx}, oracle.Bytes32(v.X)...), "x:"+v.Class)
		}

		// pair it with a matching y when the reduced x is on the curve (this is where an alias would be accepted)
		xr := oracle.Mod(v.X, oracle.P)
		if p, ok := oracle.LiftX(xr, 0); ok {
			emitCoords(v.X, p.Y, "coords-x:"+v.Class)
			emitBytes(append(append([]byte{4}, oracle.Bytes32(v.X)...), oracle.Bytes32(p.Y)...), "unc-x:"+v.Class)
		} else {
			emitCoords(v.X, g.Y, "coords-x:"+v.Class)
		}

		// structured y with a fixed valid x
		emitCoords(g.X, v.X, "coords-y:"+v.Class)
	}

	// 4. aliases x+p, y+p
	for _, pv := range pool.SmallX {
		xa := new(big.Int).Add(pv.P.X, oracle.P)
		emitBytes(append([]byte{2 + byte(pv.P.Y.Bit(0))}, oracle.Bytes32(xa)...), "alias-x+p")
		emitBytes(append(append([]byte{4}, oracle.Bytes32(xa)...), oracle.Bytes32(pv.P.Y)...), "alias-x+p")
		emitCoords(xa, pv.P.Y, "alias-x+p")
	}

	for _, pv := range pool.SmallY {
		ya := new(big.Int).Add(pv.P.Y, oracle.P)
		emitBytes(append(append([]byte{4}, oracle.Bytes32(pv.P.X)...), oracle.Bytes32(ya)...), "alias-y+p")
		emitCoords(pv.P.X, ya, "alias-y+p")
	}

	// 5. variants of valid points
	for _, pv := range pool.NonInf {
		p := pv.P
		emitBytes(oracle.EncC(p), "valid")
		emitBytes(oracle.EncU(p), "valid")
		emitCoords(p.X, p.Y, "valid")

		wrongPar := oracle.EncC(p)
		wrongPar[0] ^= 1
		emitBytes(wrongPar, "other-parity")

		ny := oracle.FNeg(p.Y)
		for _, y := range []struct {
			y *big.Int
			c string
		}{{ny, "neg-y"}, {oracle.FAdd(p.Y, big.NewInt(1)), "y+1"}, {oracle.FSub(p.Y, big.NewInt(1)), "y-1"}} {
			emitBytes(append(append([]byte{4}, oracle.Bytes32(p.X)...), oracle.Bytes32(y.y)...), y.c)
			emitCoords(p.X, y.y, y.c)
		}

		emitCoords(p.Y, p.X, "swapped")

		e := oracle.Endo(p)
		emitBytes(oracle.EncU(e), "endo")
		emitCoords(e.X, e.Y, "endo")

		for _, hp := range []byte{6, 7} {
			h := oracle.EncU(p)
			h[0] = hp
			emitBytes(h, "hybrid")
		}
	}

	// 5b. inputs that are correlated with what the receiver currently holds INTERNALLY: its raw projective X, Y, Z taken as
	// affine coordinates (a decoder that consults the receiver before overwriting it sees a "match" here)
	for k := 0; k < c03PreKinds; k++ {
		e, _ := c03Pre(k)
		xl, yl, zl := secp256k1.VRaw(e)
		X, Y, Z := oracle.FromMont(xl, oracle.P), oracle.FromMont(yl, oracle.P), oracle.FromMont(zl, oracle.P)

		for _, in := range [][]byte{
			append([]byte{2}, oracle.Bytes32(X)...), append([]byte{3}, oracle.Bytes32(X)...), append([]byte{2}, oracle.Bytes32(Y)...), append([]byte{3}, oracle.Bytes32(Z)...),
			append(append([]byte{4}, oracle.Bytes32(X)...), oracle.Bytes32(Y)...), append(append([]byte{4}, oracle.Bytes32(Y)...), oracle.Bytes32(X)...),
			append(append([]byte{4}, oracle.Bytes32(X)...), oracle.Bytes32(Z)...),
		} {
			for _, d := range c03ByteDecoders {
				cs := &c03Case{Dec: d, In: mon.H(in), Pre: k, Class: "receiver-internals"}
				c.Structured(func() any { return cs })
			}
		}

		for _, xy := range [][2]*big.Int{{X, Y}, {Y, X}, {X, Z}, {X, X}} {
			in := mon.H(append(oracle.Bytes32(xy[0]), oracle.Bytes32(xy[1])...))
			c.Structured(func() any { return &c03Case{Dec: "DecodeCoordinates", In: in, Pre: k, Class: "receiver-internals"} })
		}
	}

	// 5c. points of other curves: (x, y) with y^2 = x^3 + b for b != 7 (invalid-curve inputs), and with y^2 = c (x^3 + 7) for
	// small c (for a non-residue c these are the points of the quadratic twist; c = -11 is the SSWU constant Z, the value the
	// library's own square-root routine returns a root of when x^3+7 is not a square)
	xs := []*big.Int{offX, big.NewInt(1), big.NewInt(2), big.NewInt(3), big.NewInt(5), g.X, pool.NonInf[3].P.X, pool.NonInf[11].P.X, oracle.FNeg(big.NewInt(2)), oracle.FSub(oracle.P, big.NewInt(40))}
	for _, x := range xs {
		gx := oracle.FAdd(oracle.FMul(oracle.FSqr(x), x), oracle.B7)

		var rhs []*big.Int
		for cc := int64(-30); cc <= 30; cc++ {
			rhs = append(rhs, oracle.FMul(oracle.Mod(big.NewInt(cc), oracle.P), gx)) // other multiples of x^3+7 (cc = 1: valid)
			rhs = append(rhs, oracle.FAdd(gx, oracle.Mod(big.NewInt(cc), oracle.P))) // other constants b = 7 + cc
		}

		for _, v := range rhs {
			y, ok := oracle.FSqrt(v)
			if !ok {
				continue
			}

			for _, yy := range []*big.Int{y, oracle.FNeg(y)} {
				emitBytes(append(append([]byte{4}, oracle.Bytes32(x)...), oracle.Bytes32(yy)...), "other-curve")
				emitCoords(x, yy, "other-curve")
			}
		}
	}

	// 5f. a valid encoding with its prefix stripped (bare x, bare x||y), and coordinates in other arrangements
	for _, pv := range []gen.PV{{P: g}, pool.NonInf[4], pool.NonInf[13]} {
		u := oracle.EncU(pv.P)
		emitBytes(u[1:], "prefix-stripped")
		emitBytes(u[1:33], "prefix-stripped")
		emitBytes(u[33:], "prefix-stripped")
		emitBytes(append(append([]byte{}, u[33:]...), u[1:33]...), "prefix-stripped")
		emitBytes(append([]byte{0}, u[1:]...), "prefix-stripped")
		emitBytes(append(append([]byte{4}, u[1:]...), u[1:]...), "prefix-stripped")
	}

	// 5g. valid encodings wrapped the way other formats carry them: DER OCTET STRING / BIT STRING (04 L ..., 03 L+1 00 ...),
	// a one-byte or two-byte length prefix, nested
	for _, enc := range [][]byte{oracle.EncC(g), oracle.EncU(g), {0}, oracle.EncC(pool.NonInf[6].P)} {
		l := byte(len(enc))
		oct := append([]byte{4, l}, enc...)
		emitBytes(oct, "wrapped")
		emitBytes(append([]byte{4, byte(len(oct))}, oct...), "wrapped")
		emitBytes(append([]byte{3, l + 1, 0}, enc...), "wrapped")
		emitBytes(append([]byte{l}, enc...), "wrapped")
		emitBytes(append([]byte{0, l}, enc...), "wrapped")
		emitBytes(append([]byte{0x30, l + 2, 4, l}, enc...), "wrapped")
	}

	// 5e. a valid encoding with one byte too many, every value, in front and behind
	for _, enc := range [][]byte{oracle.EncC(g), oracle.EncU(g), {0}} {
		for b := 0; b < 256; b++ {
			emitBytes(append([]byte{byte(b)}, enc...), "one-byte-extra")
			emitBytes(append(append([]byte{}, enc...), byte(b)), "one-byte-extra")
		}
	}

	// 5d. the textual form of valid encodings handed to the byte decoders
	for _, enc := range [][]byte{oracle.EncC(g), oracle.EncU(g), {0}, oracle.EncC(pool.NonInf[9].P)} {
		h := mon.H(enc)
		for _, txt := range []string{h, strings.ToUpper(h), "\"" + h + "\"", "0x" + h, h + "\n"} {
			emitBytes([]byte(txt), "text-form")
		}
	}

	z32 := make([]byte, 32)
	o1 := oracle.Bytes32(big.NewInt(1))
	emitBytes(append(append([]byte{4}, z32...), z32...), "04-0-0")
	emitBytes(append(append([]byte{4}, z32...), o1...), "04-0-1")
	emitBytes(make([]byte, 33), "zeros33")
	emitBytes(make([]byte, 65), "zeros65")
	emitCoords(big.NewInt(0), big.NewInt(0), "0-0")
	emitCoords(big.NewInt(0), big.NewInt(1), "0-1")

	for b := 0; b < 256; b++ {
		emitBytes([]byte{byte(b)}, "one-byte")
	}

	// 6. single bit flips of valid encodings
	for _, enc := range [][]byte{oracle.EncC(g), oracle.EncU(pool.NonInf[5].P)} {
		for i := 0; i < len(enc)*8; i++ {
			m := append([]byte{}, enc...)
			m[i/8] ^= 1 << (i % 8)
			emitBytes(m, "bitflip")
		}
	}

	// 6b. valid points whose x^3 resp. y^2 = x^3+7 sit on structured STORED values (must be accepted), and near misses:
	// (x, y) whose stored y^2 differs from the stored x^3+7 in exactly one bit (must be rejected)
	for _, t := range gen.DecodeTargets() {
		for k, f := range []func(*big.Int) (oracle.Pt, bool){gen.PointWithStoredY2, gen.PointWithStoredX3, gen.PointWithStoredY, gen.PointWithStoredX} {
			if p, ok := f(t); ok {
				cl := []string{"steered-y2", "steered-x3", "steered-y", "steered-x"}[k]
				emitBytes(oracle.EncC(p), cl)
				emitBytes(oracle.EncU(p), cl)
				emitCoords(p.X, p.Y, cl)

				if k >= 2 {
					// both parities: one of them is the root the square-root routine returns, the other its negation
					emitBytes(oracle.EncC(oracle.Neg(p)), cl)
				}
			}
		}
	}

	for i, pv := range []gen.PV{{P: g}, pool.NonInf[7], pool.NonInf[20]} {
		for bit := i; bit < 256; bit += 1 + i {
			if y, ok := gen.NearMissY(pv.P.X, bit); ok {
				emitBytes(append(append([]byte{4}, oracle.Bytes32(pv.P.X)...), oracle.Bytes32(y)...), "near-miss")
				emitCoords(pv.P.X, y, "near-miss")
			}
		}
	}

	// 7. hex variants
	for _, enc := range [][]byte{oracle.EncC(g), oracle.EncU(g), {0}, oracle.EncC(pool.NonInf[9].P), append([]byte{2}, oracle.Bytes32(geP)...)} {
		h := mon.H(enc)
		emitStr(h, "hex-lower")
		emitStr(strings.ToUpper(h), "hex-upper")

		mixed := []byte(h)
		for i := range mixed {
			if i%3 == 0 {
				mixed[i] = byte(strings.ToUpper(string(mixed[i]))[0])
			}
		}

		emitStr(string(mixed), "hex-mixed")
		emitStr(h[:len(h)-1], "hex-odd")
		emitStr("0x"+h, "hex-0x")
		emitStr(" "+h, "hex-space")
		emitStr(h+"\n", "hex-newline")
		emitStr(h[:1]+"g"+h[2:], "hex-nonhex")
		emitStr(h[:1]+"é"+h[2:], "hex-rune")
		emitStr(h+h, "hex-doubled")
	}

	emitStr("", "hex-empty")

	// every byte value at a few positions of a valid hex string (only [0-9a-fA-F] may be accepted there)
	for _, base := range []string{mon.H(oracle.EncC(g)), mon.H(oracle.EncC(pool.NonInf[9].P))} {
		for _, pos := range []int{0, 1, 2, 33, len(base) - 2, len(base) - 1} {
			for b := 0; b < 256; b++ {
				bs := []byte(base)
				bs[pos] = byte(b)
				emitStr(string(bs), "hex-byte-sweep")
			}
		}
	}

	// lengths that equal a valid length modulo 256 / 65536 (a length kept in a narrow integer wraps there)
	for _, l := range []int{1, 33, 65} {
		for _, extra := range []int{256, 512, 768, 65536} {
			enc := oracle.EncC(g)
			if l == 65 {
				enc = oracle.EncU(g)
			} else if l == 1 {
				enc = []byte{0}
			}

			emitBytes(append(append([]byte{}, enc...), make([]byte, extra)...), "len-wrap")
			emitBytes(append(append([]byte{}, enc...), bytes.Repeat(enc, extra/len(enc)+1)[:extra]...), "len-wrap")
		}
	}

	// 8. histories
	c.Random(c.N(600, 60000), func(r *gen.Rng) any {
		pts := []oracle.Pt{gen.Fresh(r).P, gen.Fresh(r).P, pool.Draw(r).P}
		var inputs [][]byte

		for _, p := range pts {
			inputs = append(inputs, oracle.EncC(p), oracle.EncU(p))
		}

		bad := oracle.EncC(pts[0])
		bad[0] = 4
		inputs = append(inputs, []byte{0}, bad, append([]byte{2}, oracle.Bytes32(oracle.P)...))
		// keep the working set small so that inputs recur
		inputs = [][]byte{inputs[r.Intn(len(inputs))], inputs[r.Intn(len(inputs))], inputs[r.Intn(len(inputs))]}
		decs := []string{"Decode", "DecodeCompressed", "DecodeUncompressed", "UnmarshalBinary", "DecodeHex", "Decode", "DecodeCompressed"}
		muts := []string{"", "", "double", "negate", "identity", "base", "add-g"}
		cs := &c03Case{Dec: "seq", Class: "history"}

		for i := 0; i < 10; i++ {
			cs.Seq = append(cs.Seq, c03Step{Recv: r.Intn(2), Dec: decs[r.Intn(len(decs))], In: mon.H(inputs[r.Intn(len(inputs))]), Mut: muts[r.Intn(len(muts))]})
		}

		return cs
	})

	// 9. PRNG cases
	c.Random(c.N(40000, 4000000), func(r *gen.Rng) any {
		dec := c03ByteDecoders[r.Intn(len(c03ByteDecoders))]
		pre := r.Intn(3)

		switch r.Intn(8) {
		case 0: // random x, compressed
			x := gen.Draw256(r, oracle.P)
			return &c03Case{Dec: dec, In: mon.H(append([]byte{2 + byte(r.Intn(2))}, oracle.Bytes32(x.X)...)), Pre: pre, Class: "rand-x:" + x.Class}
		case 1: // valid point
			p := gen.Fresh(r).P
			if r.Bool() {
				return &c03Case{Dec: dec, In: mon.H(oracle.EncC(p)), Pre: pre, Class: "rand-valid"}
			}

			return &c03Case{Dec: dec, In: mon.H(oracle.EncU(p)), Pre: pre, Class: "rand-valid"}
		case 2: // valid point, mutated
			p := gen.Fresh(r).P
			enc := oracle.EncU(p)

			if r.Bool() {
				enc = oracle.EncC(p)
			}

			switch r.Intn(4) {
			case 0:
				enc[r.Intn(len(enc))] ^= 1 << r.Intn(8)
			case 1:
				enc[r.Intn(len(enc))] = byte(r.U64())
			case 2:
				enc = enc[:len(enc)-1-r.Intn(3)]
			default:
				enc = append(enc, byte(r.U64()))
			}

			return &c03Case{Dec: dec, In: mon.H(enc), Pre: pre, Class: "rand-mutated"}
		case 3: // coordinates
			p := gen.Fresh(r).P
			x, y := p.X, p.Y

			switch r.Intn(4) {
			case 0:
				y = gen.Draw256(r, oracle.P).X
			case 1:
				x = gen.Draw256(r, oracle.P).X
			case 2:
				y = oracle.FNeg(y)
			}

			return &c03Case{Dec: "DecodeCoordinates", In: mon.H(append(oracle.Bytes32(x), oracle.Bytes32(y)...)), Pre: pre, Class: "rand-coords"}
		case 4: // random bytes of random length with a plausible prefix
			l := []int{1, 33, 65, 32, 34, 64, 66, r.Intn(100)}[r.Intn(8)]
			b := r.Bytes(l)

			if l > 0 && r.Bool() {
				b[0] = []byte{0, 2, 3, 4}[r.Intn(4)]
			}

			return &c03Case{Dec: dec, In: mon.H(b), Pre: pre, Class: "rand-bytes"}
		case 5: // hex string of a valid point with random casing
			p := gen.Fresh(r).P
			h := []byte(mon.H(oracle.EncC(p)))

			for i := range h {
				if r.Intn(3) == 0 {
					h[i] = byte(strings.ToUpper(string(h[i]))[0])
				}
			}

			return &c03Case{Dec: "DecodeHex", Str: string(h), Pre: pre, Class: "rand-hex"}
		default: // uncompressed with x or y near p
			x := gen.Draw256(r, oracle.P)
			if p, ok := oracle.LiftX(oracle.Mod(x.X, oracle.P), uint(r.Intn(2))); ok {
				return &c03Case{Dec: dec, In: mon.H(append(append([]byte{4}, oracle.Bytes32(x.X)...), oracle.Bytes32(p.Y)...)), Pre: pre, Class: "rand-unc:" + x.Class}
			}

			return &c03Case{Dec: dec, In: mon.H(append([]byte{3}, oracle.Bytes32(x.X)...)), Pre: pre, Class: "rand-x:" + x.Class}
		}
	})

	// and again at the end of the shard, when the process has a history behind it
	concBatches(c, c.NConc(4, 200), func(seed uint64) any { return &c03Case{Conc: seed + 50000} })
}


func c03RunSeq(c *mon.Ctx, cs *c03Case) {
	recv := [2]*secp256k1.Element{}
	model := [2]oracle.Pt{}
	recv[0], model[0] = c03Pre(0)
	recv[1], model[1] = c03Pre(1)
	seen := map[string]bool{}

	c.Count("seq")

	for i, st := range cs.Seq {
		in := mon.UnH(st.In)
		e := recv[st.Recv]

		var (
			want   oracle.Pt
			accept bool
			err    error
		)

		c.Count("seq-steps")
		c.Eval(1)

		pan, pv := mon.Call(func() {
			switch st.Dec {
			case "Decode":
				want, accept = oracle.DecodeRef(in, oracle.FormAny)
				err = e.Decode(in)
			case "UnmarshalBinary":
				want, accept = oracle.DecodeRef(in, oracle.FormAny)
				err = e.UnmarshalBinary(in)
			case "DecodeHex":
				want, accept = oracle.DecodeRef(in, oracle.FormAny)
				err = e.DecodeHex(mon.H(in))
			case "DecodeCompressed":
				want, accept = oracle.DecodeRef(in, oracle.FormCompressed)
				err = e.DecodeCompressed(in)
			case "DecodeUncompressed":
				want, accept = oracle.DecodeRef(in, oracle.FormUncompressed)
				err = e.DecodeUncompressed(in)
			default:
				panic("harness: unknown decoder " + st.Dec)
			}
		})
		if pan {
			if m, ok := pv.(string); ok && len(m) > 8 && m[:8] == "harness:" {
				panic(m)
			}

			c.Fail(fmt.Sprintf("step %d: %s panicked: %v", i, st.Dec, pv), "decode-seq-panic", nil)

			return
		}

		if seen[st.In] {
			c.Count("seq:repeat-after-mutation")
		}

		seen[st.In] = true

		if accept != (err == nil) {
			c.Fail(fmt.Sprintf("step %d of a decode history: %s(%s) accepted=%v, the predicate says %v", i, st.Dec, mon.Trunc(st.In, 70), err == nil, accept), "decode-seq-accept", map[string]any{"step": i})
			return
		}

		if accept {
			model[st.Recv] = want
		}

		switch st.Mut {
		case "double":
			e.Double()
			model[st.Recv] = oracle.Dbl(model[st.Recv])
		case "negate":
			e.Negate()
			model[st.Recv] = oracle.Neg(model[st.Recv])
		case "identity":
			e.Identity()
			model[st.Recv] = oracle.Inf()
		case "base":
			e.Base()
			model[st.Recv] = oracle.G()
		case "add-g":
			e.Add(secp256k1.Base())
			model[st.Recv] = oracle.Add(model[st.Recv], oracle.G())
		}

		for j := range recv {
			v, ok := mon.RawValue(recv[j])
			if !ok || !v.Equal(model[j]) {
				c.Fail(fmt.Sprintf("step %d of a decode history (%s into receiver %d, then %q): receiver %d holds %s, want %s", i, st.Dec, st.Recv, st.Mut, j, v, model[j]), "decode-seq-value", map[string]any{"step": i})
				return
			}

			if ok2, why := mon.ElemIs(recv[j], model[j]); !ok2 {
				c.Fail(fmt.Sprintf("step %d of a decode history: receiver %d: %s", i, j, why), "decode-seq-value", map[string]any{"step": i})
				return
			}
		}
	}

	c.Seen(cs.Seq)
}

func c03Run(c *mon.Ctx, csAny any) {
	cs := csAny.(*c03Case)

	if cs.Conc != 0 {
		c03RunConc(c, cs.Conc)
		return
	}
	if cs.Dec == "seq" {
		c03RunSeq(c, cs)
		return
	}

	e, pre := c03Pre(cs.Pre)

	var in []byte
	if !cs.Nil {
		in = mon.UnH(cs.In)
	}

	inCopy := append([]byte{}, in...)

	var (
		want     oracle.Pt
		accept   bool
		optional bool // accepting is allowed but not demanded (upper-case hex)
		err      error
		call     func()
	)

	switch cs.Dec {
	case "Decode":
		want, accept = oracle.DecodeRef(in, oracle.FormAny)
		call = func() { err = e.Decode(in) }
	case "UnmarshalBinary":
		want, accept = oracle.DecodeRef(in, oracle.FormAny)
		call = func() { err = e.UnmarshalBinary(in) }
	case "DecodeCompressed":
		want, accept = oracle.DecodeRef(in, oracle.FormCompressed)
		call = func() { err = e.DecodeCompressed(in) }
	case "DecodeUncompressed":
		want, accept = oracle.DecodeRef(in, oracle.FormUncompressed)
		call = func() { err = e.DecodeUncompressed(in) }
	case "DecodeCoordinates":
		if len(in) != 64 {
			panic("harness: coordinates case needs 64 bytes")
		}

		want, accept = oracle.CoordsRef(in[:32], in[32:])
		call = func() { err = e.DecodeCoordinates([32]byte(in[:32]), [32]byte(in[32:])) }
	case "DecodeHex":
		s := cs.Str
		if s == "" && cs.In != "" {
			s = cs.In
		}

		b, ok, upper := strictHex(s)
		if ok {
			want, accept = oracle.DecodeRef(b, oracle.FormAny)
			optional = upper && accept

			if upper {
				c.Count("hex:uppercase")
			}
		} else {
			c.Count("hex:invalid")
		}

		in = b
		call = func() { err = e.DecodeHex(s) }
	default:
		panic("harness: unknown decoder " + cs.Dec)
	}

	c.Eval(1)

	switch cs.Class {
	case "near-miss", "steered-y2", "steered-x3", "steered-y", "steered-x", "other-curve", "receiver-internals", "text-form":
		c.Count("class:" + cs.Class)
	}

	if pan, pv := mon.Call(call); pan {
		c.Fail(fmt.Sprintf("%s panicked on a %d-byte input: %v", cs.Dec, len(in), pv), "decode-panic:"+cs.Dec, nil)
		return
	}

	if !bytes.Equal(in, inCopy) && cs.Dec != "DecodeHex" {
		c.Fail(cs.Dec+" modified its input", "decode-input-modified", nil)
	}

	// classification for the evidence
	if (cs.Dec == "DecodeCompressed" && len(in) == 65) || (cs.Dec == "DecodeUncompressed" && (len(in) == 33 || len(in) == 1)) || (cs.Dec == "DecodeCompressed" && len(in) == 1) {
		if _, okAny := oracle.DecodeRef(in, oracle.FormAny); okAny {
			c.Count("wrong-form")
		}
	}

	got := err == nil

	switch {
	case accept && !got && !optional:
		c.Fail(fmt.Sprintf("%s rejected a valid encoding (%s): %v", cs.Dec, cs.Class, err), "decode-rejects-valid:"+cs.Dec, nil)
	case !accept && got:
		c.Fail(fmt.Sprintf("%s accepted an invalid input (%s)", cs.Dec, cs.Class), "decode-accepts-invalid:"+cs.Dec+":"+c03Why(in, cs.Dec), nil)
	}

	if got {
		c.Count("accept")

		switch {
		case want.IsInf():
			c.Count("accept:identity")
		case len(in) == 33:
			c.Count("accept:compressed")
		default:
			c.Count("accept:uncompressed")
		}

		if accept {
			if ok, why := mon.RawValid(e); !ok {
				c.Fail(cs.Dec+" left an invalid element: "+why, "decode-invalid-element", nil)
			} else if v, _ := mon.RawValue(e); !v.Equal(want) {
				c.Fail(fmt.Sprintf("%s decoded %s, want %s", cs.Dec, v, want), "decode-wrong-point:"+cs.Dec, nil)
			} else if ok, why := mon.ElemIs(e, want); !ok {
				c.Fail(cs.Dec+" result re-encodes differently: "+why, "decode-reencode", nil)
			} else if cs.Dec != "DecodeHex" && len(in) > 0 {
				// the caller reuses its buffer for the next message (another valid encoding of the same length): the element
				// decoded from it, and a copy of that element, keep their value
				var next []byte

				switch d2 := oracle.Dbl(oracle.G()); len(in) {
				case 33:
					next = oracle.EncC(d2)
				case 65:
					next = oracle.EncU(d2)
				case 64:
					next = oracle.EncU(d2)[1:]
				default:
					next = bytes.Repeat([]byte{0xff}, len(in))
				}

				copy(in, next)
				c.Count("input-buffer-reused-after-accept")

				if ok, why := mon.ElemIs(e, want); !ok {
					c.Fail(cs.Dec+": after the caller reused the input buffer the decoded element changed: "+why, "decode-retains-input", nil)
				} else if ok, why := mon.ElemIs(e.Copy(), want); !ok {
					c.Fail(cs.Dec+": after the caller reused the input buffer a copy of the decoded element differs: "+why, "decode-retains-input", nil)
				}

				copy(in, inCopy)
			}
		}
	} else {
		c.Count("reject")
		c.Count("reject:" + c03Why(in, cs.Dec))

		if strings.HasPrefix(cs.Class, "alias-") {
			c.Count("reject:" + cs.Class)
		}

		// receiver value must be unchanged
		v, ok := mon.RawValue(e)
		if !ok || !v.Equal(pre) {
			c.Fail(fmt.Sprintf("%s changed the receiver on a rejected input (%s): now %s, was %s", cs.Dec, cs.Class, v, pre), "decode-reject-mutates:"+cs.Dec, nil)
		} else if ok2, why := mon.ElemIs(e, pre); !ok2 {
			c.Fail(cs.Dec+" changed the receiver's encoding on a rejected input: "+why, "decode-reject-mutates-enc:"+cs.Dec, nil)
		}
	}

	if cs.Dec == "DecodeCoordinates" || cs.Dec == "DecodeHex" || len(in) == 1 || len(in) == 33 || len(in) == 65 {
		c.Seen(cs.Dec, cs.In, cs.Str, cs.Nil)

		if c.WantSample() && accept && len(in) == 33 && cs.Dec == "Decode" {
			c.Sample(map[string]any{"case": cs, "oracle_accepts": accept, "implementation_error": fmt.Sprint(err)})
		}

		if c.WantSample() && !accept && strings.HasPrefix(cs.Class, "alias") {
			c.Sample(map[string]any{"case": cs, "oracle_accepts": accept, "implementation_error": fmt.Sprint(err)})
		}
	}
}

// c03Why names the first reason for which the oracle rejects (for counters and violation keys).
func c03Why(in []byte, dec string) string {
	check := func(x, y []byte, pfx byte) string {
		xv := new(big.Int).SetBytes(x)
		if xv.Cmp(oracle.P) >= 0 {
			return "x>=p"
		}

		if y != nil {
			if new(big.Int).SetBytes(y).Cmp(oracle.P) >= 0 {
				return "y>=p"
			}

			return "off-curve"
		}

		return "off-curve"
	}

	switch {
	case dec == "DecodeCoordinates" && len(in) == 64:
		return check(in[:32], in[32:], 4)
	case len(in) == 33 && (in[0] == 2 || in[0] == 3) && dec != "DecodeUncompressed":
		return check(in[1:], nil, in[0])
	case len(in) == 65 && in[0] == 4 && dec != "DecodeCompressed":
		return check(in[1:33], in[33:], 4)
	case len(in) == 1 || len(in) == 33 || len(in) == 65:
		return "prefix-or-form"
	default:
		return "length"
	}
}

func c03RunConc(c *mon.Ctx, seed uint64) {
	r := concRng("C03", seed)

	var jobs []func() string

	var (
		in     []byte
		want   oracle.Pt
		accept bool
	)

	for i := 0; i < concJobs; i++ {
		// every second job decodes the SAME input slice as the job before it (the input is an argument: only read), into
		// its own receiver
		if i%2 == 0 {
			p := gen.Fresh(r).P
			in = oracle.EncC(p)

			switch (i / 2) % 4 {
			case 1:
				in = oracle.EncU(p)
			case 2:
				in = append([]byte{2}, oracle.Bytes32(gen.Draw256(r, oracle.P).X)...)
			case 3:
				in = oracle.EncU(p)
				in[40] ^= 1
			}

			want, accept = oracle.DecodeRef(in, oracle.FormAny)
		}

		in, want, accept := in, want, accept
		jobs = append(jobs, func() string {
			e, pre := c03Pre(1)
			err := e.Decode(in)

			if (err == nil) != accept {
				return fmt.Sprintf("Decode(%s) accepted=%v, want %v", mon.H(in), err == nil, accept)
			}

			exp := pre
			if accept {
				exp = want
			}

			if v, ok := mon.RawValue(e); !ok || !v.Equal(exp) {
				return fmt.Sprintf("receiver holds %s after Decode(%s), want %s", v, mon.H(in), exp)
			}

			return ""
		})
	}

	if c.RunConcurrent("Decode", "decode-concurrent", 600, jobs) {
		c.Seen("conc", seed)
	}
}
