//go:build verif && (p_all || p_c16)

package props

import (
	"bytes"
	"crypto/rand"
	"encoding/json"
	"errors"
	"fmt"
	"hash/fnv"
	"io"
	"math/big"
	"os"
	"os/exec"
	"path/filepath"
	"regexp"
	"runtime"
	"sort"
	"strconv"
	"strings"
	"sync"
	"sync/atomic"
	"time"

	"github.com/bytemare/secp256k1"
	"github.com/bytemare/secp256k1/internal/field"
	"github.com/bytemare/secp256k1/zz_verif/gen"
	"github.com/bytemare/secp256k1/zz_verif/mon"
	"github.com/bytemare/secp256k1/zz_verif/oracle"
)

// C16 — concurrent use with shared read-only arguments is race-free and deterministic.
//
// Monitor: the Go race detector over a workload in which every goroutine owns its receivers and all goroutines share
// the same argument objects (elements, scalars, message / DST / encoding slices in every C15 layout). Between the
// start barrier and the final Wait the workload performs NO synchronisation (no atomics, no mutexes, no channels):
// in Go's memory model those would add happens-before edges and hide races between the calls they bracket.

func init() {
	Commands["racecanary"] = func([]string) int { return C16Canary() }
	Commands["raceload"] = func(a []string) int {
		// raceload <seed> <goroutines> <iters> <out> [<concurrent-first>]
		seed, _ := strconv.ParseUint(a[0], 10, 64)
		g, _ := strconv.Atoi(a[1])
		it, _ := strconv.Atoi(a[2])

		return C16Load(seed, g, it, a[3], len(a) > 4 && a[4] == "true")
	}
	Commands["hashstorm"] = func(a []string) int {
		g, _ := strconv.Atoi(a[0])
		n, _ := strconv.Atoi(a[1])

		return C16HashStorm(g, n, a[2])
	}
	Commands["randstorm"] = func(a []string) int {
		g, _ := strconv.Atoi(a[0])
		n, _ := strconv.Atoi(a[1])

		return C16RandStorm(g, n, a[2])
	}

	Commands["faultstorm"] = func(a []string) int {
		g, _ := strconv.Atoi(a[0])
		n, _ := strconv.Atoi(a[1])

		return C16FaultStorm(g, n, a[2])
	}

	register(&mon.Prop{
		ID:      "C16",
		Flavour: "race",
		Rule: "executions = (goroutine count, GOMAXPROCS, seed) runs of a workload in which each goroutine owns its receivers and draws, from its own PRNG, API calls whose arguments come from one shared table: " +
			"shared *Element (affine, λ-scaled, identity forms), shared *Scalar, shared message/DST/encoding slices in all layouts (len=cap, spare capacity 1/8/64, interior sub-slice, zero-length of a non-empty array, DST lengths on both sides of 255), shared [32]byte arrays. " +
			"Each program starts by calling every function once in the same order, and half of the runs are concurrent-first (nothing of the library has run in the process before the goroutines start), so that first uses coincide. Every exported function and method is in the mix (the exported map-to-curve functions SSWU / IsogenySecp256k13iso / Secp256Polynomial with the exceptional inputs, writes into returned slices, ground-truth probes whose expected values come from the oracle rather than from the solo pass, constructors, Base, Identity, Set, Copy, Add, Subtract, Double, Negate, Multiply, Equal, IsIdentity, all encoders/decoders, HashToGroup, EncodeToGroup, HashToScalar, all scalar operations, Pow, CSelect, LessOrEqual, Bits, Random, Order). " +
			"Oracle: zero race-detector reports with a frame of the module under test; every call's result equals the result of the same call sequence run alone beforehand; the package-level identity and error variables are unchanged. " +
			"Two hash storms (16 and 48 goroutines hashing with shared short and several different oversize DSTs, results compared with the oracle). A storm of 16 goroutines x thousands of concurrent Random calls on the real entropy source must not return any scalar twice. Two fault storms (16 goroutines on 16 CPUs, 4 on 2): three single reads of the entropy source fail while all goroutines draw random scalars; the number of failing Random calls may not exceed the number of failed reads, and a second wave after the faults must be clean. The shared table contains zero values of Element and Scalar (never passed through a constructor). The detector is armed first with a deliberate race in harness code and the run is inconclusive if that is not reported. evaluations = API calls made concurrently; non-trivial = calls taking a shared argument; distinct = distinct (function, shared-argument) pairs exercised concurrently.",
		Assume: []string{
			"the race detector reports only conflicting accesses it actually observes without an intervening happens-before edge; interleavings are sampled, not enumerated",
			"a library without goroutines or locks can only violate this through a write into an argument or a global, which is a single conflicting access that any schedule exposes",
		},
		Parent: c16Parent,
	})
}

// ---------------------------------------------------------------------------------------------------------------------
// shared argument table

type c16Shared struct {
	elems   []*secp256k1.Element
	scalars []*secp256k1.Scalar
	msgs    [][]byte
	dsts    [][]byte
	encs    [][]byte // element encodings (valid and invalid), scalar encodings
	arr     [][32]byte
	names   map[string][]string
	us      []*big.Int // inputs of the map-to-curve functions (exceptional ones included)
	fes     []*field.Element // the same inputs as shared, read-only field element objects

	probeMsg, probeDst                                     []byte
	truthOrder, truthG, truthH2S, truthH2G, truthNegG []byte
}

// history: some of the shared arguments are objects the library itself has already worked on (receivers of Pow, Multiply,
// Double, the decoders, the encoders) instead of objects whose limbs were written; not in concurrent-first runs, where
// nothing of the library may have run before the goroutines start.
func c16BuildShared(seed uint64, history bool) *c16Shared {
	r := gen.New(seed, "C16/shared")
	pool := gen.NewPool(r, 4)
	sh := &c16Shared{}

	for i, pv := range pool.All {
		if i%3 != 0 && i > 6 {
			continue
		}

		sh.elems = append(sh.elems, mon.Elem(pv.P, gen.DrawRepr(r, pv.P.IsInf())))
	}

	sh.elems = append(sh.elems, mon.Elem(oracle.Inf(), gen.Repr{Kind: "id-y", L: big.NewInt(5)}), mon.Elem(oracle.G(), gen.Repr{Kind: "scaled", L: big.NewInt(77)}))
	// zero values of the types, never passed through a constructor (what `var e secp256k1.Element` gives a caller)
	sh.elems = append(sh.elems, new(secp256k1.Element), new(secp256k1.Element))

	for _, v := range []*big.Int{big.NewInt(0), big.NewInt(1), big.NewInt(2), new(big.Int).Sub(oracle.N, big.NewInt(1)), gen.Draw(r, oracle.N).X, gen.Draw(r, oracle.N).X, new(big.Int).Lsh(big.NewInt(1), 255)} {
		sh.scalars = append(sh.scalars, mon.Scal(v))
	}

	sh.scalars = append(sh.scalars, new(secp256k1.Scalar))

	if history {
		a := mon.Scal(gen.Draw(r, oracle.N).X).Pow(mon.Scal(big.NewInt(5)))
		_, _ = a.Bits(), a.Encode()
		a.Invert().Pow(mon.Scal(big.NewInt(3)))

		b := secp256k1.NewScalar().SetUInt64(77)
		b.Pow(b)
		_ = b.LessOrEqual(a)

		sh.scalars = append(sh.scalars, a, b)

		e1 := secp256k1.Base().Multiply(mon.Scal(big.NewInt(12345))).Double()
		_, _ = e1.Encode(), e1.EncodeUncompressed()

		e2 := secp256k1.NewElement()
		_ = e2.Decode(oracle.EncC(oracle.Dbl(oracle.G())))
		e2.Subtract(secp256k1.Base()).Negate()
		_ = e2.Equal(e1)

		sh.elems = append(sh.elems, e1, e2)
	}

	for i, lay := range h2cLayouts {
		m, _ := layoutSlice(r.Bytes([]int{0, 3, 64, 100, 200}[i%5]), lay, 0x11)
		sh.msgs = append(sh.msgs, m)

		for _, dl := range []int{1, 16, 49, 255, 256, 300} {
			d, _ := layoutSlice(r.Bytes(dl), lay, 0x22)
			sh.dsts = append(sh.dsts, d)
		}
	}

	for i, lay := range h2cLayouts {
		p := gen.Fresh(r).P
		hyb := oracle.EncU(p)
		hyb[0] = 6 + byte(p.Y.Bit(0)) // SEC1 hybrid form of a valid point: if it is accepted at all, the input stays untouched

		for _, b := range [][]byte{oracle.EncC(p), oracle.EncC(oracle.Neg(p)), oracle.EncU(p), hyb, {0}, oracle.Bytes32(gen.Draw(r, oracle.N).X), oracle.Bytes32(oracle.N), append([]byte{2}, oracle.Bytes32(oracle.P)...), r.Bytes(33), r.Bytes(i)} {
			e, _ := layoutSlice(b, lay, 0x33)
			sh.encs = append(sh.encs, e)
		}
	}

	for i := 0; i < 4; i++ {
		p := gen.Fresh(r).P

		var x, y [32]byte

		copy(x[:], oracle.Bytes32(p.X))
		copy(y[:], oracle.Bytes32(p.Y))
		sh.arr = append(sh.arr, x, y)
	}

	ex, _ := oracle.FSqrt(oracle.FNeg(oracle.FInv0(oracle.Z)))
	sh.us = []*big.Int{big.NewInt(0), ex, oracle.FNeg(ex), big.NewInt(1), gen.Draw(r, oracle.P).X, gen.Draw(r, oracle.P).X}

	for _, u := range sh.us {
		sh.fes = append(sh.fes, mon.FE(u))
	}

	sh.probeMsg, sh.probeDst = []byte("c16 probe message"), []byte("c16-probe-dst-0123456789")
	sh.truthOrder = oracle.Bytes32(oracle.N)
	sh.truthG = oracle.EncC(oracle.G())
	sh.truthH2S = oracle.Bytes32(oracle.HashToScalar(sh.probeMsg, sh.probeDst))
	hp, _ := oracle.HashToCurve(sh.probeMsg, sh.probeDst)
	sh.truthH2G = oracle.EncC(hp)
	sh.truthNegG = oracle.EncC(oracle.Neg(oracle.G()))

	return sh
}

// c16Op performs one API call on receivers owned by the goroutine (st) with shared arguments; it returns a digest of
// everything the call returned, and the name of the (function, shared argument) pair.
type c16Own struct {
	e *secp256k1.Element
	s *secp256k1.Scalar
	// the goroutine's own long-lived tag buffer: written, used, overwritten, used again (same address, same length)
	dbuf []byte
}

func digest(parts ...any) uint64 {
	h := fnv.New64a()
	fmt.Fprint(h, parts...)

	return h.Sum64()
}

const c16NOps = 64

func c16Do(op int, st *c16Own, sh *c16Shared, r *gen.Rng) (name string, d uint64, deterministic bool) {
	ei := r.Intn(len(sh.elems))
	si := r.Intn(len(sh.scalars))
	sj := r.Intn(len(sh.scalars))
	mi := r.Intn(len(sh.msgs))
	di := r.Intn(len(sh.dsts))
	ci := r.Intn(len(sh.encs))
	ai := r.Intn(len(sh.arr) / 2)
	E, S, S2, M, D, C := sh.elems[ei], sh.scalars[si], sh.scalars[sj], sh.msgs[mi], sh.dsts[di], sh.encs[ci]
	e, s := st.e, st.s
	deterministic = true

	errS := func(err error) string {
		if err == nil {
			return "ok"
		}

		return err.Error()
	}

	switch op {
	case 0:
		return fmt.Sprintf("Element.Add(e%d)", ei), digest(e.Add(E).Encode()), true
	case 1:
		return fmt.Sprintf("Element.Subtract(e%d)", ei), digest(e.Subtract(E).Encode()), true
	case 2:
		return fmt.Sprintf("Element.Equal(e%d)", ei), digest(e.Equal(E)), true
	case 3:
		return fmt.Sprintf("Element.Set(e%d)", ei), digest(e.Set(E).Encode()), true
	case 4:
		return fmt.Sprintf("Element.Multiply(s%d)", si), digest(e.Multiply(S).Encode()), true
	case 5:
		return "Element.Double", digest(e.Double().Encode()), true
	case 6:
		return "Element.Negate", digest(e.Negate().Encode()), true
	case 7:
		return "Element.Base", digest(e.Base().Encode()), true
	case 8:
		return "Element.Identity", digest(e.Identity().IsIdentity()), true
	case 9:
		return "NewElement", digest(secp256k1.NewElement().IsIdentity(), secp256k1.NewElement().Encode()), true
	case 10:
		return "Base", digest(secp256k1.Base().Encode()), true
	case 11:
		c := e.Copy()
		c.Double()

		return "Element.Copy", digest(c.Encode(), e.Encode()), true
	case 12:
		return "Element.Encode*", digest(e.Encode(), e.EncodeUncompressed(), e.XCoordinate(), e.Hex()), true
	case 13:
		b, err := e.MarshalBinary()
		return "Element.MarshalBinary", digest(b, err), true
	case 14:
		err := e.Decode(C)
		return fmt.Sprintf("Element.Decode(enc%d)", ci), digest(errS(err), e.Encode()), true
	case 15:
		err := e.DecodeCompressed(C)
		return fmt.Sprintf("Element.DecodeCompressed(enc%d)", ci), digest(errS(err), e.Encode()), true
	case 16:
		err := e.DecodeUncompressed(C)
		return fmt.Sprintf("Element.DecodeUncompressed(enc%d)", ci), digest(errS(err), e.Encode()), true
	case 17:
		err := e.UnmarshalBinary(C)
		return fmt.Sprintf("Element.UnmarshalBinary(enc%d)", ci), digest(errS(err), e.Encode()), true
	case 18:
		err := e.DecodeCoordinates(sh.arr[2*ai], sh.arr[2*ai+1])
		return fmt.Sprintf("Element.DecodeCoordinates(arr%d)", ai), digest(errS(err), e.Encode()), true
	case 19:
		err := e.DecodeHex(mon.H(C))
		return "Element.DecodeHex", digest(errS(err), e.Encode()), true
	case 20:
		if len(D) == 0 {
			return "HashToGroup(skip)", 0, true
		}

		// the result belongs to the caller, who goes on working with it (concurrent callers with the same arguments included)
		h := secp256k1.HashToGroup(M, D)
		enc := h.Encode()
		h.Double().Negate()

		return fmt.Sprintf("HashToGroup(msg%d,dst%d)", mi, di), digest(enc, h.Encode()), true
	case 21:
		if len(D) == 0 {
			return "EncodeToGroup(skip)", 0, true
		}

		h := secp256k1.EncodeToGroup(M, D)
		enc := h.Encode()
		h.Add(E)

		return fmt.Sprintf("EncodeToGroup(msg%d,dst%d)", mi, di), digest(enc, h.Encode()), true
	case 22:
		if len(D) == 0 {
			return "HashToScalar(skip)", 0, true
		}

		h := secp256k1.HashToScalar(M, D)
		enc := h.Encode()
		h.Square().Add(S)

		return fmt.Sprintf("HashToScalar(msg%d,dst%d)", mi, di), digest(enc, h.Encode()), true
	case 23:
		return fmt.Sprintf("Scalar.Add(s%d)", si), digest(s.Add(S).Encode()), true
	case 24:
		return fmt.Sprintf("Scalar.Subtract(s%d)", si), digest(s.Subtract(S).Encode()), true
	case 25:
		return fmt.Sprintf("Scalar.Multiply(s%d)", si), digest(s.Multiply(S).Encode()), true
	case 26:
		return fmt.Sprintf("Scalar.Set(s%d)", si), digest(s.Set(S).Encode()), true
	case 27:
		return fmt.Sprintf("Scalar.Pow(s%d)", si), digest(s.Pow(S).Encode()), true
	case 28:
		return fmt.Sprintf("Scalar.Equal(s%d)", si), digest(s.Equal(S)), true
	case 29:
		return fmt.Sprintf("Scalar.LessOrEqual(s%d)", si), digest(s.LessOrEqual(S)), true
	case 30:
		err := s.CSelect(uint64(r.Intn(3)), S, S2)
		return fmt.Sprintf("Scalar.CSelect(s%d,s%d)", si, sj), digest(errS(err), s.Encode()), true
	case 31:
		return "Scalar.Square", digest(s.Square().Encode()), true
	case 32:
		return "Scalar.Invert", digest(s.Invert().Encode()), true
	case 33:
		return "Scalar.Zero/One/MinusOne", digest(s.Zero().Encode(), s.One().Encode(), s.MinusOne().Encode()), true
	case 34:
		return "Scalar.SetUInt64", digest(s.SetUInt64(r.U64()).Encode()), true
	case 35:
		err := s.Decode(C)
		return fmt.Sprintf("Scalar.Decode(enc%d)", ci), digest(errS(err), s.Encode()), true
	case 36:
		err := s.UnmarshalBinary(C)
		return fmt.Sprintf("Scalar.UnmarshalBinary(enc%d)", ci), digest(errS(err), s.Encode()), true
	case 37:
		err := s.DecodeHex(mon.H(C))
		return "Scalar.DecodeHex", digest(errS(err), s.Encode()), true
	case 38:
		b, err := s.MarshalBinary()
		return "Scalar.Encode*", digest(s.Encode(), s.Hex(), b, err), true
	case 39:
		return "Scalar.Bits", digest(s.Bits()), true
	case 40:
		return "Scalar.IsZero/IsOne", digest(s.IsZero(), s.IsOne()), true
	case 41:
		c := s.Copy()
		c.Square()

		return "Scalar.Copy", digest(c.Encode(), s.Encode()), true
	case 42:
		// Random is the one non-deterministic call: observe it, then put the owned scalar back on a deterministic
		// value so that the rest of the program stays comparable with the solo pass.
		s.Random()
		z := s.IsZero()
		s.SetUInt64(r.U64())

		return "Scalar.Random", digest(z), true
	case 43:
		return "Order/ScalarLength/ElementLength/Ciphersuite", digest(secp256k1.Order(), secp256k1.ScalarLength(), secp256k1.ElementLength(), secp256k1.Ciphersuite()), true
	case 44:
		return "NewScalar", digest(secp256k1.NewScalar().IsZero()), true
	case 45:
		return "Element.IsIdentity", digest(e.IsIdentity()), true
	case 46:
		return fmt.Sprintf("Element.Add(nil)/Subtract(nil)"), digest(e.Add(nil).Subtract(nil).Encode()), true
	case 47:
		return "Element.Multiply(nil)", digest(e.Multiply(nil).Encode()), true
	case 48:
		return "Scalar.Set(nil)/Add(nil)", digest(s.Add(nil).Encode(), s.Set(nil).Encode()), true
	case 49:
		// shared element used as the argument of Equal on a fresh receiver: readers of the package identity
		n := secp256k1.NewElement()
		return fmt.Sprintf("NewElement().Equal(e%d)", ei), digest(n.Equal(E), n.Add(E).Encode()), true
	case 50:
		// empty DST panics (and must not write)
		pan, _ := mon.Call(func() { secp256k1.HashToScalar(M, D[:0]) })
		return "HashToScalar(empty dst)", digest(pan), true
	case 51:
		err := s.CSelect(1, S, nil)
		return "Scalar.CSelect(nil)", digest(errS(err)), true
	case 52:
		// the exported map-to-curve functions, including the three exceptional inputs
		ui := r.Intn(len(sh.us))
		u := sh.us[ui]
		q := secp256k1.SSWU(mon.FE(u))
		x, y, _ := secp256k1.VRaw(q)

		// ... and on the SHARED field element holding the same value (the argument is read-only)
		q2 := secp256k1.SSWU(sh.fes[ui])
		x2, y2, _ := secp256k1.VRaw(q2)

		if x2 != x || y2 != y || sh.fes[ui].E != oracle.ToMont(u, oracle.P) {
			return "TRUTH-VIOLATED: SSWU on a shared field element differs from SSWU on a private one, or changed its argument", 1, true
		}

		return fmt.Sprintf("SSWU(u%d)", ui), digest(x, y), true
	case 53:
		u := sh.us[r.Intn(len(sh.us))]
		q := secp256k1.IsogenySecp256k13iso(secp256k1.SSWU(mon.FE(u)))

		return "IsogenySecp256k13iso", digest(q.Encode()), true
	case 54:
		var y2 field.Element

		secp256k1.Secp256Polynomial(&y2, mon.FE(sh.us[r.Intn(len(sh.us))]))

		return "Secp256Polynomial", digest(y2.E), true
	case 55:
		// the caller owns what it was handed: it writes into the returned slices
		o := secp256k1.Order()
		for i := range o {
			o[i] = byte(i)
		}

		enc := e.Encode()
		enc[0] ^= 0xff
		h := s.Encode()
		h[31] ^= 0xff

		return "write-into-returned-slices", digest(secp256k1.Order(), e.Encode(), s.Encode()), true
	case 56:
		// ground truth that does not depend on any earlier call
		if !bytes.Equal(secp256k1.Order(), sh.truthOrder) || !bytes.Equal(secp256k1.Base().Encode(), sh.truthG) || !secp256k1.NewElement().IsIdentity() ||
			!bytes.Equal(secp256k1.HashToScalar(sh.probeMsg, sh.probeDst).Encode(), sh.truthH2S) {
			return "TRUTH-VIOLATED: Order()/Base()/NewElement()/HashToScalar no longer return their documented values", 1, true
		}

		return "truth", 0, true
	case 58:
		// a private copy of a shared scalar is worked on: whatever Copy hands out must not be shared with the original
		// or with the copies other goroutines hold
		c := S.Copy()
		c.Pow(S2)
		c.Square().Invert()

		return fmt.Sprintf("Scalar.Copy(s%d).Pow(s%d)", si, sj), digest(c.Encode(), c.Bits()), true
	case 59:
		c := E.Copy()
		c.Double().Add(E)
		k := secp256k1.NewElement().Set(E)
		k.Negate()

		return fmt.Sprintf("Element.Copy(e%d)/Set(e%d) then changed", ei, ei), digest(c.Encode(), k.EncodeUncompressed()), true
	case 60:
		// decoded from a private copy of a shared encoding, which its owner then overwrites: the element must not follow
		// the buffer (checked against a second element decoded from another copy that is left alone)
		b1, b2 := append([]byte{}, C...), append([]byte{}, C...)
		x, y := secp256k1.NewElement(), secp256k1.NewElement()
		e1, e2 := x.Decode(b1), y.Decode(b2)

		for i := range b1 {
			b1[i] ^= 0xa5
		}

		if errS(e1) != errS(e2) || !bytes.Equal(x.Encode(), y.Encode()) || x.Hex() != y.Hex() {
			return "TRUTH-VIOLATED: an element decoded from a buffer changed when the buffer's owner overwrote it afterwards", 1, true
		}

		return fmt.Sprintf("Element.Decode(copy of enc%d), buffer reused", ci), digest(errS(e1), x.Encode()), true
	case 61:
		// the same tag content from the goroutine's own, reused buffer and from the shared slice: same result
		if len(D) == 0 || len(D) > 600 {
			return "HashToScalar(own buffer)(skip)", 0, true
		}

		if st.dbuf == nil {
			st.dbuf = make([]byte, 600)
		}

		copy(st.dbuf, D)
		own := secp256k1.HashToScalar(M, st.dbuf[:len(D):len(D)]).Encode()

		// the buffer is edited in place and used again at once
		for i := 0; i < len(D); i++ {
			st.dbuf[i] ^= 0x5c
		}

		own2 := secp256k1.HashToScalar(M, st.dbuf[:len(D):len(D)]).Encode()
		edited := append([]byte{}, st.dbuf[:len(D)]...)

		if !bytes.Equal(own, secp256k1.HashToScalar(M, D).Encode()) || !bytes.Equal(own2, secp256k1.HashToScalar(M, edited).Encode()) {
			return "TRUTH-VIOLATED: HashToScalar depends on WHICH slice holds the tag, not only on its content (a reused buffer gives the result of its earlier content)", 1, true
		}

		return fmt.Sprintf("HashToScalar(msg%d, own reused buffer = dst%d)", mi, di), digest(own), true
	case 62:
		// chaining on returned elements when the receiver is a fresh identity: what is returned is the receiver, so the
		// shared argument stays out of it
		acc := secp256k1.NewElement()
		acc = acc.Add(E)
		acc = acc.Add(E).Double()
		sub := secp256k1.NewElement().Subtract(E).Negate()

		return fmt.Sprintf("NewElement().Add(e%d) chained", ei), digest(acc.Encode(), sub.Encode()), true
	case 63:
		// the exported isogeny on the abscissa at which its denominators vanish (the result is the identity), and on an
		// exceptional SSWU output; what it returns is the caller's own element and is worked on in place; the package's
		// constants are read afterwards
		in := secp256k1.NewElement()
		xk := oracle.FMul(oracle.FNeg(oracle.K[1][1]), oracle.FInv0(big.NewInt(2)))
		secp256k1.VSetRaw(in, oracle.ToMont(xk, oracle.P), oracle.ToMont(big.NewInt(3), oracle.P), oracle.ToMont(big.NewInt(1), oracle.P))
		q := secp256k1.IsogenySecp256k13iso(in)
		wasID := q.IsIdentity()
		q.Add(E).Double()

		z := secp256k1.IsogenySecp256k13iso(secp256k1.SSWU(mon.FE(new(big.Int))))
		z.Subtract(E)

		if why := mon.ConstantsIntact(); why != "" {
			return "TRUTH-VIOLATED: after a caller worked in place on the element the exported isogeny returned, " + why, 1, true
		}

		return fmt.Sprintf("IsogenySecp256k13iso(kernel abscissa) then Add(e%d)", ei), digest(wasID, q.Encode(), z.Encode()), true
	default:
		if !bytes.Equal(secp256k1.HashToGroup(sh.probeMsg, sh.probeDst).Encode(), sh.truthH2G) ||
			!bytes.Equal(secp256k1.Base().Multiply(sh.scalars[3]).Encode(), sh.truthNegG) {
			return "TRUTH-VIOLATED: HashToGroup / Base().Multiply(n-1) no longer return the RFC / group-law value", 1, true
		}

		return "truth", 0, true
	}
}

type c16Log struct {
	names   []string
	digests []uint64
	det     []bool
	t0, t1  []int64 // goroutine-local monotonic timestamps of each call (informational: measures overlap actually achieved)
}

func c16RunProgram(seed uint64, g, iters int, sh *c16Shared, yield bool) *c16Log {
	r := gen.New(seed, fmt.Sprintf("C16/goroutine%d", g))
	st := &c16Own{e: secp256k1.Base(), s: secp256k1.NewScalar().SetUInt64(uint64(g) + 3)}
	lg := &c16Log{names: make([]string, 0, iters), digests: make([]uint64, 0, iters), det: make([]bool, 0, iters)}

	for i := 0; i < iters+c16NOps; i++ {
		var op int

		if i < c16NOps {
			// every program starts by calling each function once, in the same order: in a concurrent-first run the
			// FIRST use of every function in the process then happens in several goroutines at about the same time
			// (lazily initialised package state is racy exactly there)
			op = i
		} else {
			op = r.Intn(c16NOps)
			// Multiply and Pow are ~100x the cost of the rest under -race: thin them out
			if (op == 4 || op == 27) && r.Intn(6) != 0 {
				op = r.Intn(4)
			}
		}

		y := r.Intn(8) == 0 // draw regardless of yield so that the solo and concurrent runs use the same stream

		var ts int64
		if yield {
			ts = int64(time.Since(c16Epoch))
		}

		n, d, det := c16Do(op, st, sh, r)

		if yield {
			lg.t0 = append(lg.t0, ts)
			lg.t1 = append(lg.t1, int64(time.Since(c16Epoch)))
		}

		lg.names = append(lg.names, n)
		lg.digests = append(lg.digests, d)
		lg.det = append(lg.det, det)

		if yield && y {
			runtime.Gosched()
		}
	}

	return lg
}

var c16Epoch = time.Now()

// c16Overlaps counts the distinct pairs of calls (by function+argument name) that were in flight at the same time in
// two different goroutines, and those among them that used the same shared argument. Informational only: the verdict
// never depends on timing.
func c16Overlaps(logs []*c16Log) (pairs, sameArg int) {
	type iv struct {
		t0, t1 int64
		g      int
		name   string
	}

	var all []iv

	for g, lg := range logs {
		for i := range lg.t0 {
			all = append(all, iv{lg.t0[i], lg.t1[i], g, lg.names[i]})
		}
	}

	sort.Slice(all, func(i, j int) bool { return all[i].t0 < all[j].t0 })

	seen := map[string]bool{}
	same := map[string]bool{}
	active := map[int]iv{}

	argOf := func(n string) string {
		if k := strings.IndexByte(n, '('); k > 0 {
			return n[k:]
		}

		return ""
	}

	for _, x := range all {
		for g, a := range active {
			if a.t1 <= x.t0 {
				delete(active, g)
				continue
			}

			if g == x.g {
				continue
			}

			p, q := a.name, x.name
			if q < p {
				p, q = q, p
			}

			seen[p+"|"+q] = true

			if aa := argOf(a.name); aa != "" && aa == argOf(x.name) && reArg.MatchString(a.name) {
				same[p+"|"+q] = true
			}
		}

		active[x.g] = x
	}

	return len(seen), len(same)
}

type c16ChildResult struct {
	OverlapPairs        int `json:"overlap_pairs"`
	OverlapSameArgPairs int `json:"overlap_same_arg_pairs"`
	Goroutines   int              `json:"goroutines"`
	Iters        int              `json:"iters"`
	GOMAXPROCS   int              `json:"gomaxprocs"`
	Calls        int64            `json:"calls"`
	SharedCalls  int64            `json:"shared_calls"`
	Pairs        []string         `json:"pairs"`
	PerFn        map[string]int64 `json:"per_fn"`
	Mismatches   []string         `json:"mismatches"`
	GlobalChange string           `json:"global_change"`
	ConcFirst    bool             `json:"concurrent_first"`
	Done         bool             `json:"done"`
}

var reArg = regexp.MustCompile(`\((e|s|enc|msg|arr)\d`)

// C16Load is the child: solo pass, then the concurrent pass, then comparison.
func C16Load(seed uint64, goroutines, iters int, out string, concFirst bool) int {
	sh := c16BuildShared(seed, !concFirst)
	res := &c16ChildResult{Goroutines: goroutines, Iters: iters, GOMAXPROCS: runtime.GOMAXPROCS(0), PerFn: map[string]int64{}}

	// package-level state as seen through the API: what a fresh element looks like, and the identity of the error
	// values returned for the four documented failure causes
	globals := func() (mon.RawSnap, []error) {
		return mon.Snap(secp256k1.NewElement()), []error{
			secp256k1.NewScalar().Decode(nil),
			secp256k1.NewScalar().Decode(make([]byte, 5)),
			secp256k1.NewScalar().Decode(oracle.Bytes32(oracle.N)),
			secp256k1.NewElement().Decode([]byte{9}),
			secp256k1.NewScalar().CSelect(0, nil, nil),
		}
	}

	id0, errs0 := globals()

	var msgs0 []string
	for _, e := range errs0 {
		msgs0 = append(msgs0, fmt.Sprint(e))
	}

	// snapshot of all shared memory (whole backing arrays via full capacity)
	snapshot := func() []byte {
		var b bytes.Buffer

		for _, e := range sh.elems {
			fmt.Fprint(&b, mon.Snap(e))
		}

		for _, s := range sh.scalars {
			fmt.Fprint(&b, s.S)
		}

		for _, l := range [][][]byte{sh.msgs, sh.dsts, sh.encs} {
			for _, s := range l {
				b.Write(s[:cap(s)])
			}
		}

		return b.Bytes()
	}

	snap0 := snapshot()

	solo := make([]*c16Log, goroutines)
	conc := make([]*c16Log, goroutines)

	soloPass := func() {
		for g := 0; g < goroutines; g++ {
			solo[g] = c16RunProgram(seed, g, iters, sh, false)
		}

		if !bytes.Equal(snapshot(), snap0) {
			res.Mismatches = append(res.Mismatches, "shared argument memory changed during the SOLO pass (a write into an argument)")
		}
	}

	// concurrent pass: no synchronisation between the start barrier and Wait
	concPass := func() {
		start := make(chan struct{})

		var wg sync.WaitGroup

		for g := 0; g < goroutines; g++ {
			wg.Add(1)

			go func(g int) {
				defer wg.Done()
				<-start
				conc[g] = c16RunProgram(seed, g, iters, sh, true)
			}(g)
		}

		close(start)
		wg.Wait()
	}

	// The same programs run once alone (one after the other) and once concurrently. In a concurrent-first run the
	// library has not been used at all before the goroutines start (the shared table is built from raw limbs).
	res.ConcFirst = concFirst
	if concFirst {
		concPass()
		soloPass()
	} else {
		soloPass()
		concPass()
	}

	// 3. comparison
	pairs := map[string]bool{}

	for g := 0; g < goroutines; g++ {
		for i := range solo[g].digests {
			res.Calls++
			name := conc[g].names[i]
			fn := name

			if k := strings.IndexByte(fn, '('); k > 0 {
				fn = fn[:k]
			}

			res.PerFn[fn]++

			if reArg.MatchString(name) {
				res.SharedCalls++
				pairs[name] = true
			}

			if solo[g].names[i] != name && !strings.HasPrefix(name, "TRUTH-VIOLATED") && !strings.HasPrefix(solo[g].names[i], "TRUTH-VIOLATED") {
				res.Mismatches = append(res.Mismatches, fmt.Sprintf("goroutine %d call %d: program diverged (%s vs %s) — harness error", g, i, solo[g].names[i], name))
				break
			}

			for _, lg := range []*c16Log{solo[g], conc[g]} {
				if strings.HasPrefix(lg.names[i], "TRUTH-VIOLATED") && len(res.Mismatches) < 20 {
					res.Mismatches = append(res.Mismatches, fmt.Sprintf("goroutine %d call %d: %s", g, i, lg.names[i]))
				}
			}

			if strings.HasPrefix(name, "TRUTH-VIOLATED") || strings.HasPrefix(solo[g].names[i], "TRUTH-VIOLATED") {
				continue
			}

			if conc[g].det[i] && solo[g].digests[i] != conc[g].digests[i] && len(res.Mismatches) < 20 {
				res.Mismatches = append(res.Mismatches, fmt.Sprintf("goroutine %d call %d %s: result under concurrency differs from the result of the same call sequence run alone", g, i, name))
			}
		}
	}

	if !bytes.Equal(snapshot(), snap0) {
		res.Mismatches = append(res.Mismatches, "shared argument memory changed during the concurrent pass")
	}

	id1, errs1 := globals()
	if id1 != id0 {
		res.GlobalChange = "the package-level identity changed: a fresh NewElement() no longer has the coordinates it had before the workload"
	}

	for i, e := range errs1 {
		if e != errs0[i] || fmt.Sprint(e) != msgs0[i] {
			res.GlobalChange = "a package-level error value changed"
		}
	}

	for p := range pairs {
		res.Pairs = append(res.Pairs, p)
	}

	res.OverlapPairs, res.OverlapSameArgPairs = c16Overlaps(conc)

	sort.Strings(res.Pairs)

	res.Done = true
	b, _ := json.Marshal(res)

	if err := os.WriteFile(out, b, 0o644); err != nil {
		return 3
	}

	return 0
}

// C16RandStorm: many goroutines draw random scalars at the same time from the real system source. No value may come
// back twice (an entropy block handed to two callers) and every value must be a canonical non-zero scalar.
func C16RandStorm(goroutines, calls int, out string) int {
	results := make([][][32]byte, goroutines)
	start := make(chan struct{})

	var wg sync.WaitGroup

	for g := 0; g < goroutines; g++ {
		wg.Add(1)

		go func(g int) {
			defer wg.Done()
			<-start

			s := secp256k1.NewScalar()
			buf := make([][32]byte, 0, calls)

			for i := 0; i < calls; i++ {
				s.Random()
				buf = append(buf, [32]byte(s.Encode()))
			}

			results[g] = buf
		}(g)
	}

	close(start)
	wg.Wait()

	res := &c16ChildResult{Goroutines: goroutines, Iters: calls, GOMAXPROCS: runtime.GOMAXPROCS(0), PerFn: map[string]int64{"Scalar.Random(storm)": int64(goroutines * calls)}}
	seen := make(map[[32]byte]bool, goroutines*calls)

	var zero [32]byte

	for _, rs := range results {
		for _, b := range rs {
			res.Calls++

			if b == zero || new(big.Int).SetBytes(b[:]).Cmp(oracle.N) >= 0 {
				res.Mismatches = append(res.Mismatches, fmt.Sprintf("Random returned the non-canonical or zero value %x under concurrency", b))
			}

			if seen[b] && len(res.Mismatches) < 5 {
				res.Mismatches = append(res.Mismatches, fmt.Sprintf("two concurrent Random calls returned the same scalar %x (an entropy block was handed out twice)", b))
			}

			seen[b] = true
		}
	}

	res.Done = true
	b, _ := json.Marshal(res)

	if err := os.WriteFile(out, b, 0o644); err != nil {
		return 3
	}

	return 0
}

// c16FaultyReader serves the real entropy source but fails the reads whose ordinal is in failAt.
type c16FaultyReader struct {
	under  io.Reader
	n      atomic.Int64
	failed atomic.Int64
	failAt map[int64]bool
}

func (f *c16FaultyReader) Read(p []byte) (int, error) {
	if f.failAt[f.n.Add(1)] {
		f.failed.Add(1)
		return 0, errors.New("injected entropy fault (transient)")
	}

	return f.under.Read(p)
}

// C16FaultStorm: while many goroutines draw random scalars, a few single reads of the entropy source fail (a transient
// fault hitting one call in one goroutine). That call may fail; every other call, in every goroutine, before and after,
// would succeed if run alone and therefore must succeed here: the number of failing calls cannot exceed the number of
// failed reads, and once the faults are over no call fails.
func C16FaultStorm(goroutines, calls int, out string) int {
	total := int64(goroutines * calls)
	fr := &c16FaultyReader{under: rand.Reader, failAt: map[int64]bool{total / 5: true, total / 2: true, total/2 + 1: true}}
	old := rand.Reader
	rand.Reader = fr

	failures := make([]int, goroutines)
	first := make([]string, goroutines)
	late := make([]string, goroutines)
	line := mon.StartLine(goroutines)

	var wg sync.WaitGroup

	for g := 0; g < goroutines; g++ {
		wg.Add(1)

		go func(g int) {
			defer wg.Done()
			line()

			s := secp256k1.NewScalar()

			for i := 0; i < calls; i++ {
				if pan, pv := mon.Call(func() { s.Random() }); pan {
					failures[g]++

					if first[g] == "" {
						first[g] = fmt.Sprint(pv)
					}
				}
			}
		}(g)
	}

	wg.Wait()

	// the faults are over (every failing ordinal is behind us): a second wave must be entirely clean
	for g := 0; g < goroutines; g++ {
		wg.Add(1)

		go func(g int) {
			defer wg.Done()

			s := secp256k1.NewScalar()

			for i := 0; i < 50; i++ {
				if pan, pv := mon.Call(func() { s.Random() }); pan && late[g] == "" {
					late[g] = fmt.Sprint(pv)
				}
			}
		}(g)
	}

	wg.Wait()

	rand.Reader = old

	res := &c16ChildResult{Goroutines: goroutines, Iters: calls, GOMAXPROCS: runtime.GOMAXPROCS(0), Calls: total + int64(goroutines*50),
		PerFn: map[string]int64{"Scalar.Random(fault storm)": total + int64(goroutines*50), "entropy-reads-failed-by-injection": fr.failed.Load()}}

	nfail, example := 0, ""

	for g := range failures {
		nfail += failures[g]

		if example == "" {
			example = first[g]
		}
	}

	res.PerFn["Random calls that failed during the fault storm"] = int64(nfail)

	if int64(nfail) > fr.failed.Load() {
		res.Mismatches = append(res.Mismatches, fmt.Sprintf("%d concurrent Random calls failed although only %d reads of the entropy source failed: calls that would succeed alone fail because of another call's fault (e.g. %s)", nfail, fr.failed.Load(), mon.Trunc(example, 200)))
	}

	for g := range late {
		if late[g] != "" {
			res.Mismatches = append(res.Mismatches, fmt.Sprintf("Random fails in goroutine %d after the entropy faults are over (a past failure of some call is remembered process-wide): %s", g, mon.Trunc(late[g], 200)))
			break
		}
	}

	res.Done = true
	b, _ := json.Marshal(res)

	if err := os.WriteFile(out, b, 0o644); err != nil {
		return 3
	}

	return 0
}

// C16HashStorm: many goroutines hash at the same time with SHARED message / DST slices (short and several different
// oversize DSTs); every result is compared with the oracle's value computed beforehand.
func C16HashStorm(goroutines, calls int, out string) int {
	r := gen.New(uint64(goroutines*1000+calls), "C16/hashstorm")

	type in struct{ m, d, h2s, h2g, e2g []byte }

	var ins []in

	for _, dl := range []int{300, 300, 256, 257, 1000, 400, 20, 49, 255, 700} {
		m, d := r.Bytes(5+len(ins)), r.Bytes(dl)
		hp, _ := oracle.HashToCurve(m, d)
		ep, _ := oracle.EncodeToCurve(m, d)
		ins = append(ins, in{m, d, oracle.Bytes32(oracle.HashToScalar(m, d)), oracle.EncC(hp), oracle.EncC(ep)})
	}

	bad := make([]string, goroutines)
	line := mon.StartLine(goroutines)

	var wg sync.WaitGroup

	for g := 0; g < goroutines; g++ {
		wg.Add(1)

		go func(g int) {
			defer wg.Done()
			line()

			for i := 0; i < calls && bad[g] == ""; i++ {
				x := ins[(g+i)%len(ins)]

				switch (g + i/3) % 3 {
				case 0:
					h := secp256k1.HashToScalar(x.m, x.d)
					if !bytes.Equal(h.Encode(), x.h2s) {
						bad[g] = fmt.Sprintf("HashToScalar with a shared %d-byte DST returned a wrong value under concurrency", len(x.d))
					}

					h.Square() // the result is the caller's: it goes on working with it while others make the same call
				case 1:
					h := secp256k1.HashToGroup(x.m, x.d)
					if !bytes.Equal(h.Encode(), x.h2g) {
						bad[g] = fmt.Sprintf("HashToGroup with a shared %d-byte DST returned a wrong value under concurrency", len(x.d))
					}

					h.Double().Negate()
				default:
					h := secp256k1.EncodeToGroup(x.m, x.d)
					if !bytes.Equal(h.Encode(), x.e2g) {
						bad[g] = fmt.Sprintf("EncodeToGroup with a shared %d-byte DST returned a wrong value under concurrency", len(x.d))
					}

					h.Double().Double()
				}
			}
		}(g)
	}

	wg.Wait()

	res := &c16ChildResult{Goroutines: goroutines, Iters: calls, GOMAXPROCS: runtime.GOMAXPROCS(0), Calls: int64(goroutines * calls), SharedCalls: int64(goroutines * calls),
		PerFn: map[string]int64{"HashToScalar/HashToGroup/EncodeToGroup(storm)": int64(goroutines * calls)}}

	for _, b := range bad {
		if b != "" && len(res.Mismatches) < 5 {
			res.Mismatches = append(res.Mismatches, b)
		}
	}

	res.Done = true
	b, _ := json.Marshal(res)

	if err := os.WriteFile(out, b, 0o644); err != nil {
		return 3
	}

	return 0
}

// C16Canary commits a deliberate data race on harness memory, to prove that the detector is armed.
func C16Canary() int {
	var (
		x  int
		wg sync.WaitGroup
	)

	for i := 0; i < 2; i++ {
		wg.Add(1)

		go func() {
			defer wg.Done()

			for j := 0; j < 1000; j++ {
				c16CanaryWrite(&x)
			}
		}()
	}

	wg.Wait()

	return 0
}

//go:noinline
func c16CanaryWrite(p *int) { *p++ }

// ---------------------------------------------------------------------------------------------------------------------
// parent

var reRaceHeader = regexp.MustCompile(`(?m)^WARNING: DATA RACE`)

type raceReport struct {
	Text     string
	RepoTop  [2]string // outermost module-under-test frames of the two stacks (line numbers stripped)
	HasRepo  bool
	IsCanary bool
}

func parseRaceLogs(glob string) []raceReport {
	files, _ := filepath.Glob(glob)

	var out []raceReport

	for _, f := range files {
		b, err := os.ReadFile(f)
		if err != nil {
			continue
		}

		txt := string(b)
		idx := reRaceHeader.FindAllStringIndex(txt, -1)

		for i, loc := range idx {
			end := len(txt)
			if i+1 < len(idx) {
				end = idx[i+1][0]
			}

			blk := txt[loc[0]:end]
			r := raceReport{Text: blk, IsCanary: strings.Contains(blk, "c16CanaryWrite")}

			// split in stacks (blank-line separated); in each, the OUTERMOST (last) frame of the module under test
			n := 0

			for _, stack := range strings.Split(blk, "\n\n") {
				last := ""

				for _, ln := range strings.Split(stack, "\n") {
					ln = strings.TrimSpace(ln)
					if strings.HasPrefix(ln, "github.com/bytemare/secp256k1") && !strings.Contains(ln, "/zz_verif/") {
						// frame lines look like "pkg.(*T).Method()" or "pkg.Func()": drop the trailing argument list
						if k := strings.LastIndexByte(ln, '('); k > 0 {
							last = ln[:k]
						} else {
							last = ln
						}
					}
				}

				if last != "" && n < 2 {
					r.RepoTop[n] = last
					r.HasRepo = true
					n++
				}
			}

			out = append(out, r)
		}
	}

	return out
}

func c16Parent(p *mon.Prop, pc *mon.ParentCtx) *mon.Aggregate {
	agg := mon.NewAggregate()
	thorough := pc.Tier == "thorough"

	var (
		stallMu sync.Mutex
		stalls  = map[string]mon.Stall{} // by log path
	)

	runChild := func(args []string, env []string, logName string, timeout time.Duration) (string, error, bool) {
		logp := filepath.Join(pc.Scratch, logName)
		cmd := exec.Command(pc.Exe, args...)
		cmd.Env = append(append(os.Environ(), "GOTRACEBACK=all"), env...)

		lf, _ := os.Create(logp)
		defer lf.Close()

		cmd.Stdout, cmd.Stderr = lf, lf

		if err := cmd.Start(); err != nil {
			return logp, err, false
		}

		// a hang is told from slowness by the child's state, not by the clock (mon/watch.go)
		err, st := mon.WaitWatched(cmd, logp, 25*time.Second, timeout)
		if st.Stalled {
			stallMu.Lock()
			stalls[logp] = st
			stallMu.Unlock()

			return logp, err, true
		}

		return logp, err, false
	}

	// 1. arm the detector
	canaryLog := filepath.Join(pc.Scratch, "race.canary")
	_, _, timed := runChild([]string{"racecanary"}, []string{"GORACE=halt_on_error=0 log_path=" + canaryLog}, "canary.out", 5*time.Minute)
	canary := parseRaceLogs(canaryLog + ".*")
	armed := false

	for _, r := range canary {
		if r.IsCanary {
			armed = true
		}
	}

	agg.Extra["detector_armed_by_canary"] = armed
	agg.Extra["canary_reports"] = len(canary)

	if timed || !armed {
		agg.Incon("race detector not live: the deliberate race in harness code was not reported (is this a -race build?)")
		return agg
	}

	agg.Counters["race-canary-fired"] = 1

	// 2. workloads
	type cfg struct {
		g, procs, iters int
		concFirst       bool
		storm           bool
		hash            bool
		fault           bool
	}

	var cfgs []cfg

	if thorough {
		for rep := 0; rep < 6; rep++ {
			for _, g := range []int{2, 4, 16, 64} {
				for _, pr := range []int{2, 4, 16} {
					cfgs = append(cfgs, cfg{g: g, procs: pr, iters: 12000 / g, concFirst: rep%2 == 1})
				}
			}
		}
	} else {
		cfgs = []cfg{{g: 2, procs: 2, iters: 1500}, {g: 4, procs: 4, iters: 800, concFirst: true}, {g: 16, procs: 16, iters: 300}, {g: 64, procs: 16, iters: 100, concFirst: true}, {g: 8, procs: 2, iters: 500, concFirst: true}, {g: 16, procs: 4, iters: 300}, {g: 8, procs: 8, iters: 300, concFirst: true}, {g: 32, procs: 16, iters: 100, concFirst: true}}
	}

	// plus one storm of concurrent Random calls (duplicate detection)
	stormCalls := 6000
	if thorough {
		stormCalls = 60000
	}

	cfgs = append(cfgs, cfg{g: 16, procs: 16, iters: stormCalls, storm: true})
	cfgs = append(cfgs, cfg{g: 16, procs: 16, iters: stormCalls / 30, hash: true}, cfg{g: 48, procs: 16, iters: stormCalls / 60, hash: true})

	cfgs = append(cfgs, cfg{g: 16, procs: 16, iters: stormCalls / 20, fault: true}, cfg{g: 4, procs: 2, iters: stormCalls / 20, fault: true})

	type outcome struct {
		c     cfg
		res   c16ChildResult
		err   error
		timed bool
		logp  string
		race  string
		seed  uint64
	}

	outs := make([]outcome, len(cfgs))
	sem := make(chan struct{}, 4) // a few at a time: each run wants its GOMAXPROCS cores

	var wg sync.WaitGroup

	for i, cf := range cfgs {
		wg.Add(1)

		go func(i int, cf cfg) {
			defer wg.Done()
			sem <- struct{}{}
			defer func() { <-sem }()

			seed := pc.Seed*1000 + uint64(i)
			out := filepath.Join(pc.Scratch, fmt.Sprintf("raceload.%d.json", i))
			race := filepath.Join(pc.Scratch, fmt.Sprintf("race.%d", i))
			args := []string{"raceload", fmt.Sprint(seed), fmt.Sprint(cf.g), fmt.Sprint(cf.iters), out, fmt.Sprint(cf.concFirst)}
			if cf.storm {
				args = []string{"randstorm", fmt.Sprint(cf.g), fmt.Sprint(cf.iters), out}
			}

			if cf.hash {
				args = []string{"hashstorm", fmt.Sprint(cf.g), fmt.Sprint(cf.iters), out}
			}

			if cf.fault {
				args = []string{"faultstorm", fmt.Sprint(cf.g), fmt.Sprint(cf.iters), out}
			}

			logp, err, timed := runChild(
				args,
				[]string{"GORACE=halt_on_error=0 log_path=" + race, fmt.Sprintf("GOMAXPROCS=%d", cf.procs)},
				fmt.Sprintf("raceload.%d.out", i), 60*time.Minute)

			o := outcome{c: cf, err: err, timed: timed, logp: logp, race: race, seed: seed}

			if b, rerr := os.ReadFile(out); rerr == nil {
				_ = json.Unmarshal(b, &o.res)
			}

			outs[i] = o
		}(i, cf)
	}

	wg.Wait()

	// 3. aggregate
	pairs := map[string]bool{}
	dedup := map[string]int{}
	perFn := map[string]int64{}

	var configs []string

	for i, o := range outs {
		configs = append(configs, fmt.Sprintf("G=%d,GOMAXPROCS=%d,iters=%d,seed=%d,concurrent-first=%v,random-storm=%v,hash-storm=%v,fault-storm=%v", o.c.g, o.c.procs, o.c.iters, o.seed, o.c.concFirst, o.c.storm, o.c.hash, o.c.fault))

		if o.timed {
			if st := stalls[o.logp]; st.Deadlock != "" {
				agg.ViolCount++
				agg.Violations = append(agg.Violations, mon.Violation{Property: p.ID, What: "concurrent calls never return (each of them returns when run alone): " + st.Deadlock, Key: "deadlock-under-concurrency",
					Case: map[string]any{"config": configs[i]}, More: map[string]any{"goroutine_dump": st.Dump}})

				continue
			}

			agg.Incon("race workload %d: idle or over the wall-clock limit, and the goroutine dump does not show a deadlock; dump head: %s", i, mon.Trunc(stalls[o.logp].Dump, 2500))
			continue
		}

		reports := parseRaceLogs(o.race + ".*")

		if !o.res.Done {
			lt, _ := os.ReadFile(o.logp)
			agg.ViolCount++
			agg.Violations = append(agg.Violations, mon.Violation{Property: p.ID, What: "race workload process died (process-fatal error under concurrency)", Key: "race-process-fatal",
				Case: map[string]any{"config": configs[i]}, More: map[string]any{"exit": fmt.Sprint(o.err), "log_head": mon.Trunc(string(lt), 4000)}})

			continue
		}

		agg.Evaluations += o.res.Calls
		agg.Counters["shared-argument-calls"] += o.res.SharedCalls
		agg.Counters["goroutines-run"] += int64(o.res.Goroutines)
		agg.Counters["workload-runs"]++
		agg.Counters["distinct-call-pairs-observed-in-flight-simultaneously(sum over runs)"] += int64(o.res.OverlapPairs)
		agg.Counters["of-which-on-the-same-shared-argument"] += int64(o.res.OverlapSameArgPairs)

		if o.res.ConcFirst {
			agg.Counters["workload-runs-concurrent-first"]++
		}

		for _, pr := range o.res.Pairs {
			pairs[pr] = true
		}

		for k, v := range o.res.PerFn {
			perFn[k] += v
		}

		for _, m := range o.res.Mismatches {
			agg.ViolCount++
			agg.Violations = append(agg.Violations, mon.Violation{Property: p.ID, What: m, Key: "concurrent-result-differs", Case: map[string]any{"config": configs[i]}})
		}

		if o.res.GlobalChange != "" {
			agg.ViolCount++
			agg.Violations = append(agg.Violations, mon.Violation{Property: p.ID, What: o.res.GlobalChange, Key: "global-state-changed", Case: map[string]any{"config": configs[i]}})
		}

		for _, r := range reports {
			agg.Counters["race-reports-raw"]++

			if !r.HasRepo {
				agg.Counters["race-reports-harness-only"]++
				agg.Incon("race report without a frame of the module under test (harness defect): %s", mon.Trunc(r.Text, 600))

				continue
			}

			a, b := r.RepoTop[0], r.RepoTop[1]
			if b < a {
				a, b = b, a
			}

			key := a + " <-> " + b
			dedup[key]++

			if dedup[key] == 1 {
				agg.ViolCount++
				agg.Violations = append(agg.Violations, mon.Violation{Property: p.ID, What: "data race reported by the race detector between " + key, Key: "data-race:" + key,
					Case: map[string]any{"config": configs[i]}, More: map[string]any{"report": mon.Trunc(r.Text, 6000)}})
			}
		}
	}

	agg.Distinct = int64(len(pairs))
	agg.Extra["configurations"] = configs
	agg.Extra["calls_per_function"] = perFn
	agg.Extra["race_reports_deduplicated"] = dedup
	agg.Counters["distinct-functions-called"] = int64(len(perFn))

	var ps []string
	for k := range pairs {
		ps = append(ps, k)
	}

	sort.Strings(ps)

	if len(ps) > 6 {
		ps = ps[:6]
	}

	agg.Samples = append(agg.Samples, map[string]any{"first_configuration": configs[0], "some_function_shared_argument_pairs_run_concurrently": ps})

	return agg
}
