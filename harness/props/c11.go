//go:build verif && (p_all || p_c11)

package props

import (
	"fmt"
	"math/big"
	"sync"

	"github.com/bytemare/secp256k1"
	"github.com/bytemare/secp256k1/internal/field"
	"github.com/bytemare/secp256k1/zz_verif/gen"
	"github.com/bytemare/secp256k1/zz_verif/mon"
	"github.com/bytemare/secp256k1/zz_verif/oracle"
)

// C11 — map-to-curve is total and RFC-exact on every field element.

type c11Case struct {
	Kind  string `json:"kind"` // sswu (u -> E' -> E) | iso (chosen point of E' -> E)
	U     string `json:"u,omitempty"`
	X     string `json:"x,omitempty"`
	Odd   uint   `json:"odd,omitempty"`
	Class string `json:"class"`
	// Seq: field elements mapped one after the other in this order (Kind == "seq"): u then -u, u twice, ...
	Seq []string `json:"seq,omitempty"`
	// Conc: field elements mapped simultaneously, one goroutine each (Kind == "concurrent").
	Conc []string `json:"concurrent,omitempty"`

	// set by the sequence runner only (not serialised): the ONE field element object of the sequence, refilled with each
	// input through a different loader of the field API, and which loader
	obj *field.Element
	via int
}

func init() {
	register(&mon.Prop{
		ID:      "C11",
		Flavour: "plain",
		Rule: "sswu cases = field elements u: the three exceptional inputs 0 and ±sqrt(-1/Z) (computed by the oracle), ±1, ±2, the structured list mod p (boundaries, 2^k, 2^k±1, p-2^k, limb-perturbed p, R mod p), " +
			"Montgomery-structured values, (u,-u) pairs, PRNG values; each is mapped by SSWU and then by the isogeny. iso cases = points of E' constructed by the oracle from chosen abscissae (structured + PRNG, both signs), not only SSWU outputs. " +
			"Oracle: RFC 9380 6.6.2 (non-optimised: inv0, is_square, sqrt, sgn0) and the E.1 rational map in math/big; checks: SSWU output equals the oracle's point, lies on E', sgn0(y)=sgn0(u); isogeny output equals the oracle's, is a valid canonical point with y^2=x^3+7; no panic. " +
			"Sequences: u then -u, u twice, 0 between inputs (what a memo keyed on u^2 gets wrong); steered inputs: u solved so that u^2, tv1, tv3 = tv2+1 or tv6 (the operands of the multiplications by Z and B' = 1771), resp. x'^2, x'^3 in the isogeny, have structured stored values. Concurrent batches: 8 goroutines run the whole map (SSWU then isogeny) simultaneously on their own inputs, each output judged against the oracle. Steering (steer.go) also covers the inverted values (hard divstep inputs, inverse-structured), the numerator of the sqrt_ratio call and the isogeny's y denominator (cubics, solved with the oracle's root finder), the SSWU output placed on the points E' shares with secp256k1; every other sequence reloads ONE field element object through the five loaders of the field API; a soak of 2^18+2^10 isogeny evaluations on one input. non-trivial = all; distinct by input.",
		NewCase:  func() any { return &c11Case{} },
		Generate: c11Generate,
		Run:      c11Run,
		Require: func(string) map[string]int64 {
			return map[string]int64{"sswu": 3000, "sswu:exceptional": 3, "sswu:gx1-square": 1000, "sswu:gx1-nonsquare": 1000, "sswu:flipped": 500, "sswu:not-flipped": 500, "iso": 3000, "sswu:sgn0(u)=1": 500, "sswu:sgn0(u)=0": 500, "concurrent-batches": 4, "seq": 200, "seq:same-object-reloaded": 200, "steered:tv3": 20, "steered:u2": 20, "steered:tv6": 10, "steered:x2": 10}
		},
	})

	Registry["C11"].ColdStart = func(c *mon.Ctx) {
		r := c.SharedRng(fmt.Sprintf("cold%d", c.Shard))
		cs := &c11Case{Kind: "concurrent", Class: "concurrent-cold-start"}

		for g := 0; g < 16; g++ {
			cs.Conc = append(cs.Conc, fmt.Sprintf("%x", gen.Draw(r, oracle.P).X))
		}

		c11RunConcurrent(c, cs)
	}
}

func c11Generate(c *mon.Ctx) {
	p := oracle.P
	hx := func(v *big.Int) string { return fmt.Sprintf("%x", v) }

	emitU := func(u *big.Int, cls string) {
		s := hx(oracle.Mod(u, p))
		c.Structured(func() any { return &c11Case{Kind: "sswu", U: s, Class: cls} })
	}

	// exceptional inputs: Z^2 u^4 + Z u^2 = 0  <=>  u = 0 or u^2 = -1/Z
	ex, ok := oracle.FSqrt(oracle.FNeg(oracle.FInv0(oracle.Z)))
	if ok {
		emitU(ex, "exceptional")
		emitU(oracle.FNeg(ex), "exceptional")
	}

	emitU(big.NewInt(0), "exceptional")

	for _, d := range []int64{1, 2, 3, 11, -1, -2, -3, -11} {
		emitU(big.NewInt(d), "small")
	}

	for _, v := range gen.Structured(p) {
		emitU(v.X, v.Class)
		emitU(oracle.FNeg(v.X), "neg:"+v.Class)
	}

	// E' points from chosen abscissae
	emitX := func(x *big.Int, cls string) {
		s := hx(oracle.Mod(x, p))
		for odd := uint(0); odd < 2; odd++ {
			odd := odd
			c.Structured(func() any { return &c11Case{Kind: "iso", X: s, Odd: odd, Class: cls} })
		}
	}

	for _, v := range gen.Structured(p) {
		emitX(v.X, v.Class)
	}

	// sequences: what a memo of the last mapping keyed on u^2 (or on anything coarser than u) gets wrong
	sq := c.SharedRng("sequences")

	for i := 0; i < c.N(300, 30000); i++ {
		u := gen.Draw(sq, p).X
		v := gen.Draw(sq, p).X
		nu := oracle.FNeg(u)

		var seq []*big.Int

		switch i % 5 {
		case 0:
			seq = []*big.Int{u, nu}
		case 1:
			seq = []*big.Int{nu, u, u}
		case 2:
			seq = []*big.Int{u, v, nu, u}
		case 3:
			seq = []*big.Int{u, oracle.FMul(u, oracle.Beta), nu} // same u^6? no: a different u with related powers
		default:
			seq = []*big.Int{big.NewInt(0), u, big.NewInt(0), nu}
		}

		cs := &c11Case{Kind: "seq", Class: "sequence"}
		for _, x := range seq {
			cs.Seq = append(cs.Seq, hx(x))
		}

		c.Structured(func() any { return cs })
	}

	// steered inputs (steer.go): u resp. x' solved so that an intermediate, an inverted value or the output of the map sits
	// on a chosen value
	us, xs := steeredMapInputs(c)

	for _, su := range us {
		s, cl := hx(su.V), su.Class
		c.Structured(func() any { return &c11Case{Kind: "sswu", U: s, Class: cl} })
	}

	for i, sx := range xs {
		s, cl, odd := hx(sx.V), sx.Class, uint(i%2)
		c.Structured(func() any { return &c11Case{Kind: "iso", X: s, Odd: odd, Class: cl} })
		c.Structured(func() any { return &c11Case{Kind: "iso", X: s, Odd: 1 - odd, Class: cl} })
	}

	// a soak: the same map evaluated more than 2^18 times in one process (2^20 in thorough), every result compared with the
	// first: behaviour tied to a call counter (a sampled self-check, a periodic re-seed, a wrapping statistic) shows here
	soakU := hx(gen.Draw(c.SharedRng("soak"), p).X)
	soakN := c.N(1<<18+1<<10, 1<<20+1<<10)
	c.Structured(func() any { return &c11Case{Kind: "soak", U: soakU, Odd: uint(soakN), Class: "soak"} })

	cr := c.SharedRng("concurrent")

	for b := 0; b < c.N(8, 400); b++ {
		cs := &c11Case{Kind: "concurrent", Class: "concurrent"}
		for g := 0; g < 8; g++ {
			cs.Conc = append(cs.Conc, hx(gen.Draw(cr, p).X))
		}

		c.Structured(func() any { return cs })
	}

	c.Random(c.N(60000, 6000000), func(r *gen.Rng) any {
		v := gen.Draw(r, p)
		if r.Bool() {
			return &c11Case{Kind: "sswu", U: hx(v.X), Class: v.Class}
		}

		return &c11Case{Kind: "iso", X: hx(v.X), Odd: uint(r.Intn(2)), Class: v.Class}
	})
}


func c11Run(c *mon.Ctx, csAny any) {
	cs := csAny.(*c11Case)

	var (
		e  *secp256k1.Element
		qp oracle.Pt // the point on E' the isogeny is applied to
	)

	if cs.Kind == "concurrent" {
		c11RunConcurrent(c, cs)
		return
	}

	if cs.Kind == "soak" {
		u := mon.BigH(cs.U)
		want := oracle.Iso(func() oracle.Pt { q, _ := oracle.SSWU(u); return q }())
		q := secp256k1.SSWU(mon.FE(u))

		c.Count("soak")

		var first mon.RawSnap

		for i := 0; i < int(cs.Odd); i++ {
			in := q.Copy()
			out := secp256k1.IsogenySecp256k13iso(in)

			c.Eval(1)

			if i%4096 == 0 || i > int(cs.Odd)-8 {
				if ok, why := mon.ElemIs(out, want); !ok {
					c.Fail(fmt.Sprintf("evaluation %d of the isogeny on one and the same input in this process: %s", i, why), "iso-soak-value", nil)
					return
				}
			}

			// the map is deterministic down to the representation it returns: every result must be limb-for-limb the first one
			if i == 0 {
				first = mon.Snap(out)
			} else if sn := mon.Snap(out); sn != first {
				v, _ := mon.RawValue(out)
				c.Fail(fmt.Sprintf("evaluation %d of the isogeny on one and the same input in this process gives %s (raw %s), the first gave %s", i, v, sn, want), "iso-soak-value", nil)
				return
			}
		}

		return
	}

	if cs.Kind == "seq" {
		c.Count("seq")

		// the inputs are loaded, one after the other, into the same field element object (a memo inside the object that one
		// of the loaders forgets to reset shows here), every other sequence into fresh objects
		var obj *field.Element
		if len(cs.Seq[0])%2 == 0 {
			obj = field.New()
		}

		for i, h := range cs.Seq {
			sub := &c11Case{Kind: "sswu", U: h, Class: "sequence", obj: obj, via: i + len(h)}
			before := c.Res.ViolationCount
			c11Run(c, sub)

			if c.Res.ViolationCount != before {
				c.Fail(fmt.Sprintf("…observed at position %d of the sequence of inputs %v mapped one after the other", i, cs.Seq), "sswu-sequence", nil)
				return
			}
		}

		return
	}

	if len(cs.Class) > 8 && cs.Class[:8] == "steered:" {
		c.Count(cs.Class)
	}

	switch cs.Kind {
	case "sswu":
		u := mon.BigH(cs.U)
		want, info := oracle.SSWU(u)
		qp = want

		c.Count("sswu")
		c.Count(fmt.Sprintf("sswu:sgn0(u)=%d", oracle.Sgn0(u)))

		if info.Exceptional {
			c.Count("sswu:exceptional")
		}

		if info.Gx1Square {
			c.Count("sswu:gx1-square")
		} else {
			c.Count("sswu:gx1-nonsquare")
		}

		if info.Flipped {
			c.Count("sswu:flipped")
		} else {
			c.Count("sswu:not-flipped")
		}

		fu := mon.FE(u)

		if cs.obj != nil {
			fu = cs.obj
			ub32 := [32]byte(oracle.Bytes32(u))

			switch cs.via % 5 {
			case 0:
				fu.FromBytesNoReduce(ub32[:])
			case 1:
				fu.FromBytesWithReduce(ub32)
			case 2:
				var in [48]byte

				copy(in[16:], ub32[:])
				fu.HashToFieldElement(in)
			case 3:
				fu.Set(mon.FE(u))
			default:
				fu.Add(mon.FE(oracle.FSub(u, big.NewInt(1))), field.New().One())
			}

			c.Count("seq:same-object-reloaded")

			if mon.FEVal(fu).Cmp(u) != 0 {
				// a loader that does not load the value is the field layer's business (C12); nothing to map here
				panic("harness: field loader did not produce the intended value")
			}
		}

		ub := fu.E

		c.Eval(1)

		if pan, pv := mon.Call(func() { e = secp256k1.SSWU(fu) }); pan {
			c.Fail(fmt.Sprintf("SSWU panicked for u=%s: %v", cs.U, pv), "sswu-panic", nil)
			return
		}

		if fu.E != ub {
			c.Fail("SSWU modified its input field element", "sswu-mutates-input", nil)
		}

		xl, yl, _ := secp256k1.VRaw(e)
		if oracle.FromLimbs(xl).Cmp(oracle.P) >= 0 || oracle.FromLimbs(yl).Cmp(oracle.P) >= 0 {
			c.Fail("SSWU left a non-canonical coordinate", "sswu-noncanonical", nil)
			return
		}

		x, y := oracle.FromMont(xl, oracle.P), oracle.FromMont(yl, oracle.P)

		if oracle.FSqr(y).Cmp(gIsoRef(x)) != 0 {
			c.Fail(fmt.Sprintf("SSWU(u=%s) is not on the isogenous curve: x=%x y=%x", cs.U, x, y), "sswu-off-curve", nil)
			return
		}

		if oracle.Sgn0(y) != oracle.Sgn0(u) {
			c.Fail(fmt.Sprintf("SSWU(u=%s): sgn0(y)=%d != sgn0(u)=%d", cs.U, oracle.Sgn0(y), oracle.Sgn0(u)), "sswu-sign", nil)
			return
		}

		if x.Cmp(want.X) != 0 || y.Cmp(want.Y) != 0 {
			c.Fail(fmt.Sprintf("SSWU(u=%s) = (%x,%x), RFC 6.6.2 gives (%x,%x) [exceptional=%v gx1square=%v]", cs.U, x, y, want.X, want.Y, info.Exceptional, info.Gx1Square), "sswu-value", nil)
			return
		}
	case "iso":
		x := mon.BigH(cs.X)
		g := gIsoRef(x)

		y, ok := oracle.FSqrt(g)
		if !ok {
			// not an abscissa of E': nothing is demanded of the isogeny here
			c.Count("iso:x-not-on-curve")
			return
		}

		if y.Bit(0) != cs.Odd {
			y = oracle.FNeg(y)
		}

		qp = oracle.Pt{X: x, Y: y}
		e = secp256k1.NewElement()
		secp256k1.VSetRaw(e, oracle.ToMont(x, oracle.P), oracle.ToMont(y, oracle.P), oracle.ToMont(big.NewInt(1), oracle.P))
		c.Count("iso")
	default:
		panic("harness: unknown kind " + cs.Kind)
	}

	if oracle.IsoDenomsZero(qp.X) {
		// cannot happen for a rational point of E' (it would have order 3); reported, judged by the oracle's value
		c.Count("iso:zero-denominator")
	}

	want := oracle.Iso(qp)

	var ret *secp256k1.Element

	c.Eval(1)

	if pan, pv := mon.Call(func() { ret = secp256k1.IsogenySecp256k13iso(e) }); pan {
		c.Fail(fmt.Sprintf("isogeny panicked on (%x,%x): %v", qp.X, qp.Y, pv), "iso-panic", nil)
		return
	}

	if ok, why := mon.RawValid(ret); !ok {
		c.Fail(fmt.Sprintf("isogeny output for E' point (%x,%x) is not a valid curve point: %s", qp.X, qp.Y, why), "iso-off-curve", nil)
		return
	}

	if got, _ := mon.RawValue(ret); !got.Equal(want) {
		c.Fail(fmt.Sprintf("isogeny((%x,%x)) = %s, RFC E.1 gives %s", qp.X, qp.Y, got, want), "iso-value", nil)
		return
	}

	if ok, why := mon.ElemIs(ret, want); !ok {
		c.Fail("isogeny output encodes differently: "+why, "iso-encode", nil)
	}

	c.Seen(cs.Kind, cs.U, cs.X, cs.Odd)

	if c.WantSample() && (cs.Class == "exceptional" || cs.Class == "mont-structured") {
		c.Sample(map[string]any{"case": cs, "point_on_isogenous_curve": qp.String(), "image_on_secp256k1": want.String()})
	}
}

func c11RunConcurrent(c *mon.Ctx, cs *c11Case) {
	type job struct {
		u    *big.Int
		want oracle.Pt
		got  oracle.Pt
		ok   bool
		pan  any
	}

	jobs := make([]*job, len(cs.Conc))
	for i, h := range cs.Conc {
		u := mon.BigH(h)
		q, _ := oracle.SSWU(u)
		jobs[i] = &job{u: u, want: oracle.Iso(q)}
	}

	c.Count("concurrent-batches")

	line := mon.StartLine(len(jobs))

	var wg sync.WaitGroup

	for _, j := range jobs {
		wg.Add(1)

		go func(j *job) {
			defer wg.Done()
			defer func() { j.pan = recover() }()
			line()

			for rep := 0; rep < 50; rep++ {
				e := secp256k1.IsogenySecp256k13iso(secp256k1.SSWU(mon.FE(j.u)))
				j.got, j.ok = mon.RawValue(e)

				if !j.ok || !j.got.Equal(j.want) {
					return
				}
			}
		}(j)
	}

	wg.Wait()

	for i, j := range jobs {
		c.Eval(50)

		if j.pan != nil {
			c.Fail(fmt.Sprintf("map-to-curve panicked when %d goroutines mapped simultaneously: %v", len(jobs), j.pan), "map-concurrent-panic", nil)
			return
		}

		if !j.ok || !j.got.Equal(j.want) {
			c.Fail(fmt.Sprintf("map-to-curve of u=%x is wrong or off-curve when %d goroutines map simultaneously (job %d): got %s (valid point: %v), want %s", j.u, len(jobs), i, j.got, j.ok, j.want), "map-concurrent-value", nil)
			return
		}
	}

	c.Seen(cs.Conc)
}

