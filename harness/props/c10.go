//go:build verif && (p_all || p_c10)

package props

import (
	"bytes"
	"crypto/rand"
	"fmt"
	"math/big"

	"github.com/bytemare/secp256k1"
	"github.com/bytemare/secp256k1/zz_verif/gen"
	"github.com/bytemare/secp256k1/zz_verif/mon"
	"github.com/bytemare/secp256k1/zz_verif/oracle"
)

// C10 — any history of element and scalar operations matches the abstract group model.
//
// "History + executable model": a history is a sequence of API calls over a pool of element and scalar variables.
// The model (a map variable -> oracle value) is stepped in lock-step with the implementation, and after EVERY step
// every variable is observed through Encode / IsIdentity / IsZero / Equal, every element's raw coordinates are
// checked to be a valid curve point, and every variable that was not the receiver must be bit-identical to before.

const (
	c10NE = 5
	c10NS = 5
)

type c10Step struct {
	Op   string `json:"op"`
	R    int    `json:"r"`
	A    int    `json:"a"` // -1 = nil
	B    int    `json:"b,omitempty"`
	Lit  string `json:"lit,omitempty"`
	Lit2 string `json:"lit2,omitempty"`
	U    uint64 `json:"u,omitempty"`
}

type c10Case struct {
	InitE []mon.ElemCase `json:"init_elements"`
	InitS []string       `json:"init_scalars"`
	Steps []c10Step      `json:"steps"`
	// Shared (parallel batches): read-only elements that all histories of the batch use as ARGUMENTS (index c10NE + j).
	Shared []mon.ElemCase `json:"shared_arguments,omitempty"`
	// Parallel: several independent histories run simultaneously, one goroutine each, on variables of their own; each is
	// judged step by step against its own model exactly as when run alone.
	Parallel []*c10Case `json:"parallel,omitempty"`
}

func init() {
	register(&mon.Prop{
		ID:      "C10",
		Flavour: "plain",
		Rule: "cases = histories: sequences of API calls over a pool of 5 *Element and 5 *Scalar variables (+nil), indices drawn uniformly so that receiver = argument, CSelect(c,s,s), s.Pow(s), e.Subtract(e), e.Set(e) occur constantly; " +
			"operations: NewElement, Base, Identity, Set, Copy, Add, Subtract, Double, Negate, Multiply (down-weighted), Decode/DecodeCompressed/DecodeUncompressed/DecodeHex/UnmarshalBinary/DecodeCoordinates of valid and invalid inputs (corrupted bytes, wrong form, x+p / y+p aliases of small-coordinate points, the same bytes as an earlier step), " +
			"encode->decode round trips between variables, HashToGroup, EncodeToGroup, HashToScalar, scalar Zero/One/MinusOne/Set/Copy/Add/Subtract/Multiply/Square/Invert/Pow/SetUInt64/Decode/CSelect/Random (scripted entropy). " +
			"Initial pools contain non-canonical identities (0:Y:0) and λ-scaled points injected through the accessor. " +
			"Oracle: an abstract model (variable -> affine point or integer mod n) stepped in lock-step; after every step every variable is read through Encode, EncodeUncompressed, IsIdentity, IsZero, IsOne, Bits and the full Equal matrix (both orders), " +
			"every element's raw coordinates must satisfy the curve equation, and every non-receiver variable must be bit-identical to before the step. evaluations = observations; Also: structured histories whose decode steps go through every steered point; hashing steps on record buffers / long-lived reused buffers, called twice; invalid hex literals; 8 and 24 histories run side by side as independent instances. non-trivial = a history with >= 10 steps; distinct by the whole history.",
		NewCase:  func() any { return &c10Case{} },
		Generate: c10Generate,
		Run:      c10Run,
		Require: func(string) map[string]int64 {
			return map[string]int64{
				"histories": 100, "steps": 5000, "step:receiver=argument": 200, "step:identity-in-pool": 1000, "step:nil-argument": 50,
				"op:e.add": 200, "op:e.sub": 200, "op:e.copy": 100, "op:e.set": 100, "op:e.mul": 20, "op:e.decode-invalid": 50, "op:e.roundtrip": 100, "op:e.h2g": 20,
				"op:s.cselect": 50, "op:s.pow": 50, "op:s.random": 20, "op:s.invert": 50,
			}
		},
	})
}

// ---------------------------------------------------------------------------------------------------------------------
// model

type c10Model struct {
	e [c10NE]oracle.Pt
	s [c10NS]*big.Int
}

// Read-only elements shared by all the histories of a parallel batch (argument index c10NE + j). Set by the batch before
// its instances start, only read while they run.
var (
	c10SharedElems []*secp256k1.Element
	c10SharedPts   []oracle.Pt
)

// c10Apply steps the model. It returns ok=false if the step is malformed (harness error).
func c10Apply(m *c10Model, st *c10Step) {
	n := oracle.N
	arg := func() oracle.Pt {
		if st.A >= c10NE {
			return c10SharedPts[st.A-c10NE]
		}

		return m.e[st.A]
	}
	sarg := func() *big.Int { return m.s[st.A] }

	switch st.Op {
	case "e.new", "e.identity":
		m.e[st.R] = oracle.Inf()
	case "e.base":
		m.e[st.R] = oracle.G()
	case "e.set", "e.copy", "e.roundtrip", "e.roundtripU", "e.roundtripHex":
		m.e[st.R] = arg()
	case "e.add":
		if st.A >= 0 {
			m.e[st.R] = oracle.Add(m.e[st.R], arg())
		}
	case "e.sub":
		if st.A >= 0 {
			m.e[st.R] = oracle.Sub(m.e[st.R], arg())
		}
	case "e.double":
		m.e[st.R] = oracle.Dbl(m.e[st.R])
	case "e.negate":
		m.e[st.R] = oracle.Neg(m.e[st.R])
	case "e.mul":
		if st.A < 0 {
			m.e[st.R] = oracle.Inf()
		} else {
			m.e[st.R] = oracle.Mul(sarg(), m.e[st.R])
		}
	case "e.decode", "e.unmarshal", "e.decodeHex":
		if p, ok := c10Accepts(st); ok {
			m.e[st.R] = p
		}
	case "e.decodeC":
		if p, ok := oracle.DecodeRef(mon.UnH(st.Lit), oracle.FormCompressed); ok {
			m.e[st.R] = p
		}
	case "e.decodeU":
		if p, ok := oracle.DecodeRef(mon.UnH(st.Lit), oracle.FormUncompressed); ok {
			m.e[st.R] = p
		}
	case "e.coords":
		b := mon.UnH(st.Lit)
		if p, ok := oracle.CoordsRef(b[:32], b[32:]); ok {
			m.e[st.R] = p
		}
	case "e.h2g":
		m.e[st.R], _ = oracle.HashToCurve(mon.UnH(st.Lit), mon.UnH(st.Lit2))
	case "e.e2g":
		m.e[st.R], _ = oracle.EncodeToCurve(mon.UnH(st.Lit), mon.UnH(st.Lit2))
	case "s.new", "s.zero":
		m.s[st.R] = new(big.Int)
	case "s.one":
		m.s[st.R] = big.NewInt(1)
	case "s.minusone":
		m.s[st.R] = new(big.Int).Sub(n, big.NewInt(1))
	case "s.set":
		if st.A < 0 {
			m.s[st.R] = new(big.Int)
		} else {
			m.s[st.R] = sarg()
		}
	case "s.copy", "s.roundtrip":
		m.s[st.R] = sarg()
	case "s.add":
		if st.A >= 0 {
			m.s[st.R] = oracle.Mod(new(big.Int).Add(m.s[st.R], sarg()), n)
		}
	case "s.sub":
		if st.A >= 0 {
			m.s[st.R] = oracle.Mod(new(big.Int).Sub(m.s[st.R], sarg()), n)
		}
	case "s.mul":
		if st.A < 0 {
			m.s[st.R] = new(big.Int)
		} else {
			m.s[st.R] = oracle.Mod(new(big.Int).Mul(m.s[st.R], sarg()), n)
		}
	case "s.square":
		m.s[st.R] = oracle.Mod(new(big.Int).Mul(m.s[st.R], m.s[st.R]), n)
	case "s.invert":
		if m.s[st.R].Sign() != 0 {
			m.s[st.R] = new(big.Int).ModInverse(m.s[st.R], n)
		}
	case "s.pow":
		if st.A < 0 || sarg().Sign() == 0 {
			m.s[st.R] = big.NewInt(1)
		} else {
			m.s[st.R] = new(big.Int).Exp(m.s[st.R], sarg(), n)
		}
	case "s.setu64":
		m.s[st.R] = new(big.Int).SetUint64(st.U)
	case "s.decode":
		b := mon.UnH(st.Lit)
		if v := new(big.Int).SetBytes(b); len(b) == 32 && v.Cmp(n) < 0 {
			m.s[st.R] = v
		}
	case "s.h2s":
		m.s[st.R] = oracle.HashToScalar(mon.UnH(st.Lit), mon.UnH(st.Lit2))
	case "s.cselect":
		if st.A >= 0 && st.B >= 0 {
			if st.U == 0 {
				m.s[st.R] = m.s[st.A]
			} else {
				m.s[st.R] = m.s[st.B]
			}
		}
	case "s.random":
		stream := mon.UnH(st.Lit)
		for i := 0; i+32 <= len(stream); i += 32 {
			v := oracle.Mod(new(big.Int).SetBytes(stream[i:i+32]), n)
			if v.Sign() != 0 {
				m.s[st.R] = v
				return
			}
		}

		panic("harness: scripted entropy stream without a usable block")
	default:
		panic("harness: unknown history op " + st.Op)
	}
}

// ---------------------------------------------------------------------------------------------------------------------
// generator

var c10Ops = []struct {
	op string
	w  int
}{
	{"e.new", 2}, {"e.base", 3}, {"e.identity", 2}, {"e.set", 5}, {"e.copy", 5}, {"e.add", 12}, {"e.sub", 12}, {"e.double", 5}, {"e.negate", 5},
	{"e.mul", 1}, {"e.decode", 4}, {"e.unmarshal", 1}, {"e.decodeHex", 1}, {"e.decodeC", 2}, {"e.decodeU", 2}, {"e.coords", 2},
	{"e.roundtrip", 4}, {"e.roundtripU", 3}, {"e.roundtripHex", 1}, {"e.h2g", 1}, {"e.e2g", 1},
	{"s.new", 1}, {"s.zero", 1}, {"s.one", 1}, {"s.minusone", 1}, {"s.set", 3}, {"s.copy", 3}, {"s.add", 5}, {"s.sub", 5}, {"s.mul", 5}, {"s.square", 2},
	{"s.invert", 2}, {"s.pow", 2}, {"s.setu64", 2}, {"s.decode", 3}, {"s.roundtrip", 2}, {"s.h2s", 1}, {"s.cselect", 3}, {"s.random", 1},
}

var c10Targets = gen.DecodeTargets()

// forced: encodings of genuine points that the decode steps of this history must use, one after the other (the history is
// extended until all of them have been decoded).
func c10GenHistory(r *gen.Rng, pool *gen.Pool, steps int, forced ...oracle.Pt) *c10Case {
	cs := &c10Case{}

	var m c10Model

	for i := 0; i < c10NE; i++ {
		pv := pool.Draw(r)
		if r.Intn(3) == 0 {
			pv = gen.Fresh(r)
		}

		ec := mon.MkElemCase(pv, gen.DrawRepr(r, pv.P.IsInf()))
		cs.InitE = append(cs.InitE, ec)
		m.e[i] = pv.P
	}

	for i := 0; i < c10NS; i++ {
		v := gen.Draw(r, oracle.N).X
		cs.InitS = append(cs.InitS, fmt.Sprintf("%x", v))
		m.s[i] = v
	}

	total := 0
	for _, o := range c10Ops {
		total += o.w
	}

	argIdx := func(n int) int {
		if r.Intn(12) == 0 {
			return -1
		}

		return r.Intn(n)
	}

	lastLit := ""

	for len(cs.Steps) < steps || (len(forced) > 0 && len(cs.Steps) < 6*steps) {
		k := r.Intn(total)

		var op string

		for _, o := range c10Ops {
			if k < o.w {
				op = o.op
				break
			}

			k -= o.w
		}

		st := c10Step{Op: op, A: -1}

		if op[0] == 'e' {
			st.R = r.Intn(c10NE)
		} else {
			st.R = r.Intn(c10NS)
		}

		switch op {
		case "e.set", "e.copy", "e.roundtrip", "e.roundtripU", "e.roundtripHex":
			st.A = r.Intn(c10NE)
		case "e.add", "e.sub":
			st.A = argIdx(c10NE)
		case "e.mul":
			st.A = argIdx(c10NS)
		case "e.decode", "e.unmarshal", "e.decodeHex", "e.decodeC", "e.decodeU":
			src := m.e[r.Intn(c10NE)]
			if r.Bool() {
				src = gen.Fresh(r).P
			}

			b := oracle.EncC(src)
			if (op == "e.decodeU") != r.Bool() || src.IsInf() {
				b = oracle.EncU(src)
			}

			if op == "e.decodeC" && r.Intn(3) != 0 {
				b = oracle.EncC(src)
			}

			if len(forced) > 0 {
				sp := forced[0]
				forced = forced[1:]
				b = oracle.EncC(sp)

				if op == "e.decodeU" || r.Bool() && op != "e.decodeC" {
					b = oracle.EncU(sp)
				}
			} else if r.Intn(12) == 0 {
				// a genuine point whose y^2 resp. x^3 has a structured stored value: must be accepted
				if sp, ok := gen.PointWithStoredY2(c10Targets[r.Intn(len(c10Targets))]); ok {
					b = oracle.EncC(sp)
					if op == "e.decodeU" || r.Bool() && op != "e.decodeC" {
						b = oracle.EncU(sp)
					}
				}
			} else if r.Intn(10) == 0 {
				// non-canonical alias of a real point: x+p (small-x points) or y+p (small-y points)
				if r.Bool() {
					sp := pool.SmallX[r.Intn(len(pool.SmallX))].P
					b = append(append([]byte{4}, oracle.Bytes32(new(big.Int).Add(sp.X, oracle.P))...), oracle.Bytes32(sp.Y)...)

					if op == "e.decodeC" || r.Intn(3) == 0 {
						b = append([]byte{2 + byte(sp.Y.Bit(0))}, oracle.Bytes32(new(big.Int).Add(sp.X, oracle.P))...)
					}
				} else {
					sp := pool.SmallY[r.Intn(len(pool.SmallY))].P
					b = append(append([]byte{4}, oracle.Bytes32(sp.X)...), oracle.Bytes32(new(big.Int).Add(sp.Y, oracle.P))...)
				}
			} else if lastLit != "" && r.Intn(5) == 0 {
				// the same bytes as an earlier decode step, whatever happened to the receivers since
				b = mon.UnH(lastLit)
			} else if r.Intn(3) == 0 && len(b) > 1 { // corrupt
				b = append([]byte{}, b...)

				switch r.Intn(3) {
				case 0:
					b[1+r.Intn(len(b)-1)] ^= 1 << r.Intn(8)
				case 1:
					b[0] ^= byte(1 + r.Intn(7))
				default:
					b = b[:len(b)-1]
				}
			}

			st.Lit = mon.H(b)
			lastLit = st.Lit

			if op == "e.decodeHex" && r.Intn(3) == 0 && len(st.Lit) > 2 {
				// one character of the hex string replaced by a byte that a hand-written nibble decoder may take for a digit:
				// c-0x20 (control characters 0x10..0x19 for the digits), c|0x80, c+0x10, c&0x1f
				hs := []byte(st.Lit)
				i := r.Intn(len(hs))
				hs[i] = []byte{hs[i] - 0x20, hs[i] | 0x80, hs[i] + 0x10, hs[i] & 0x1f, hs[i] ^ 0x40}[r.Intn(5)]

				if hs[i] >= 'A' && hs[i] <= 'F' {
					hs[i] |= 0x80 // upper case is a matter of taste (C03): not here
				}
				st.Lit2 = string(hs)
			}
		case "e.coords":
			src := gen.Fresh(r).P
			x, y := src.X, src.Y

			switch r.Intn(6) {
			case 0, 1:
				y = oracle.FAdd(y, big.NewInt(1))
			case 2:
				sp := pool.SmallX[r.Intn(len(pool.SmallX))].P
				x, y = new(big.Int).Add(sp.X, oracle.P), sp.Y
			case 3:
				sp := pool.SmallY[r.Intn(len(pool.SmallY))].P
				x, y = sp.X, new(big.Int).Add(sp.Y, oracle.P)
			}

			st.Lit = mon.H(append(oracle.Bytes32(x), oracle.Bytes32(y)...))
		case "e.h2g", "e.e2g", "s.h2s":
			st.Lit = mon.H(r.Bytes(r.Intn(40)))
			st.Lit2 = mon.H(r.Bytes(1 + r.Intn(40)))

			// now and then a DST on either side of the 255-byte rule (longer ones are replaced by their hash)
			if r.Intn(4) == 0 {
				st.Lit2 = mon.H(r.Bytes([]int{255, 256, 257, 288, 300, 511, 512, 544, 1000}[r.Intn(9)]))
			}
		case "s.set", "s.add", "s.sub", "s.mul", "s.pow":
			st.A = argIdx(c10NS)
		case "s.copy", "s.roundtrip":
			st.A = r.Intn(c10NS)
		case "s.setu64":
			st.U = r.U64() >> uint(r.Intn(64))
		case "s.decode":
			v := gen.Draw256(r, oracle.N)
			b := oracle.Bytes32(v.X)

			if r.Intn(8) == 0 {
				b = b[:r.Intn(32)]
			}

			st.Lit = mon.H(b)
		case "s.cselect":
			st.A, st.B = argIdx(c10NS), argIdx(c10NS)
			st.U = []uint64{0, 0, 1, 2, r.U64(), 1 << uint(r.Intn(64))}[r.Intn(6)]
		case "s.random":
			var stream []byte

			for k := r.Intn(3); k > 0; k-- {
				if r.Bool() {
					stream = append(stream, make([]byte, 32)...)
				} else {
					stream = append(stream, oracle.Bytes32(oracle.N)...)
				}
			}

			good := gen.Draw256(r, oracle.N).X
			if oracle.Mod(good, oracle.N).Sign() == 0 {
				good = big.NewInt(1)
			}

			stream = append(stream, oracle.Bytes32(good)...)
			st.Lit = mon.H(stream)
		}

		c10Apply(&m, &st)
		cs.Steps = append(cs.Steps, st)
	}

	return cs
}

func c10Generate(c *mon.Ctx) {
	pool := gen.NewPool(c.SharedRng("pool"), 8)

	// histories whose decode steps go, between them, through EVERY genuine point whose y^2 / x^3 / y / x has a structured
	// stored value (gen.DecodeTargets), and its negation: not left to the draw
	var steered []oracle.Pt

	for _, t := range c10Targets {
		for _, f := range []func(*big.Int) (oracle.Pt, bool){gen.PointWithStoredY2, gen.PointWithStoredX3, gen.PointWithStoredY, gen.PointWithStoredX} {
			if p, ok := f(t); ok {
				steered = append(steered, p, oracle.Neg(p))
			}
		}
	}

	// histories that start from EVERY pool point (O, G, -G, small multiples and their negatives, [2^255]G, ...), each in three
	// representations, and in which a third of the steps are multiplications by the pool scalars: not left to the draw either
	mr := c.SharedRng("mul-histories")

	for i := 0; i+c10NE <= len(pool.All); i += c10NE - 1 {
		for rep := 0; rep < 3; rep++ {
			cs := c10GenHistory(mr, pool, 30)

			for j := 0; j < c10NE; j++ {
				pv := pool.All[i+j]
				rs := gen.StructuredReprs(pv.P.IsInf())
				cs.InitE[j] = mon.MkElemCase(pv, rs[(rep*7+j)%len(rs)])
			}

			// every third step becomes a multiplication of one of the initial elements
			for k := 0; k < len(cs.Steps); k += 3 {
				cs.Steps[k] = c10Step{Op: "e.mul", R: (k / 3) % c10NE, A: mr.Intn(c10NS)}
			}

			c.Structured(func() any { return cs })
		}
	}

	// histories whose element variables start from points that share a line of small slope (x+y, x-y, 2x+y, ... equal for two
	// different points): what a comparison folded into one linear combination of the coordinates cannot tell apart
	slopes := []*big.Int{big.NewInt(1), oracle.FNeg(big.NewInt(1)), big.NewInt(2), oracle.FNeg(big.NewInt(2)), new(big.Int)}
	for i := 0; i < c.N(24, 400); i++ {
		cs := c10GenHistory(mr, pool, 20)
		pv := gen.Fresh(mr)
		cs.InitE[0] = mon.MkElemCase(pv, gen.DrawRepr(mr, false))
		j := 1

		for _, m := range slopes {
			if q, ok := gen.SameLine(pv.P, m); ok && j < c10NE {
				cs.InitE[j] = mon.MkElemCase(gen.PV{P: q, Tag: "same-line"}, gen.DrawRepr(mr, false))
				j++
			}
		}

		c.Structured(func() any { return cs })
	}

	// histories whose scalar variables start from every Montgomery-structured value (stored limbs small, single limb, adjacent
	// to one, ...) and in which a third of the steps are scalar operations with those variables as operands (Pow in particular)
	ms := gen.MontStructured(oracle.N)
	for i := 0; i+c10NS <= len(ms); i += c10NS {
		cs := c10GenHistory(mr, pool, 30)

		for j := 0; j < c10NS; j++ {
			cs.InitS[j] = fmt.Sprintf("%x", ms[i+j].X)
		}

		for k := 0; k < len(cs.Steps); k += 3 {
			op := []string{"s.pow", "s.mul", "s.add", "s.pow", "s.sub", "s.invert", "s.square"}[(k/3)%7]
			cs.Steps[k] = c10Step{Op: op, R: (k / 3) % c10NS, A: (k/3 + 1 + i) % c10NS}
		}

		c.Structured(func() any { return cs })
	}

	// hashing steps whose message length runs through 0..520 under a 49-byte tag (60 steps per history)
	for base := 0; base <= 520; base += 60 {
		cs := c10GenHistory(mr, pool, 2)
		cs.Steps = cs.Steps[:0]

		for l := base; l < base+60 && l <= 520; l++ {
			op := []string{"e.h2g", "s.h2s", "e.e2g"}[l%3]
			cs.Steps = append(cs.Steps, c10Step{Op: op, R: l % c10NS, A: -1, Lit: mon.H(mr.Bytes(l)), Lit2: mon.H([]byte("QUUX-V01-CS02-with-secp256k1_XMD:SHA-256_SSWU_RO_"))})
		}

		c.Structured(func() any { return cs })
	}

	sr := c.SharedRng("steered-histories")
	stride := c.N(1, 1)

	for i := 0; i+8 <= len(steered); i += 8 {
		if (i/8)%stride != int(c.Seed%uint64(stride)) {
			continue
		}

		cs := c10GenHistory(sr, pool, 40, steered[i:i+8]...)
		c.Structured(func() any { return cs })
	}

	c.Random(c.N(400, 20000), func(r *gen.Rng) any { return c10GenHistory(r, pool, c.N(60, 100)) })

	// histories run simultaneously (8 and 24 at a time, more than cores for the latter)
	pr := c.SharedRng("parallel")

	for b := 0; b < c.NConc(12, 300); b++ {
		batch := &c10Case{}
		for g := 0; g < []int{8, 24}[b%2]; g++ {
			h := c10GenHistory(pr, pool, 40)

			// scripted Random swaps the process-wide entropy source: not in histories that run side by side
			kept := h.Steps[:0]
			for _, st := range h.Steps {
				if st.Op != "s.random" {
					kept = append(kept, st)
				}
			}

			h.Steps = kept

			// half of the element arguments of Add / Subtract / Set become one of three elements shared by the whole batch
			for si := range h.Steps {
				st := &h.Steps[si]
				if (st.Op == "e.add" || st.Op == "e.sub" || st.Op == "e.set") && st.A >= 0 && pr.Bool() {
					st.A = c10NE + pr.Intn(3)
				}
			}

			batch.Parallel = append(batch.Parallel, h)
		}

		for k := 0; k < 3; k++ {
			pv := gen.Fresh(pr)
			batch.Shared = append(batch.Shared, mon.MkElemCase(pv, gen.DrawRepr(pr, false)))
		}

		c.Structured(func() any { return batch })
	}

	if c.Thorough() {
		c.Random(192, func(r *gen.Rng) any { return c10GenHistory(r, pool, 2000) })
	} else {
		c.Random(16, func(r *gen.Rng) any { return c10GenHistory(r, pool, 400) })
	}
}

// ---------------------------------------------------------------------------------------------------------------------
// lock-step execution

// c10Record lays message and tag of a hashing step out the way the step's index says: fresh exact slices, or two windows
// of one record buffer (message first, its capacity running over the tag and beyond; or tag first). The call is made
// twice and the second result is the one the model is compared with: a call that writes behind one of its arguments
// changes what the next call reads.
func c10Record(im *c10Impl, st *c10Step) (m, d []byte) {
	msg, dst := mon.UnH(st.Lit), mon.UnH(st.Lit2)

	switch (len(msg) + len(dst) + st.R) % 4 {
	case 0:
		return msg, dst
	case 3:
		// the same two buffers as in earlier steps, edited in place (a cache keyed on the slice instead of its content)
		if im.mbuf == nil {
			im.mbuf, im.dbuf = make([]byte, 64), make([]byte, 1024)
		}

		if len(msg) > len(im.mbuf) || len(dst) > len(im.dbuf) {
			return msg, dst
		}

		copy(im.mbuf, msg)
		copy(im.dbuf, dst)

		return im.mbuf[:len(msg):len(msg)], im.dbuf[:len(dst):len(dst)]
	case 1:
		rec := make([]byte, 0, len(msg)+len(dst)+24)
		rec = append(append(rec, msg...), dst...)

		return rec[:len(msg)], rec[len(msg) : len(msg)+len(dst)]
	default:
		rec := make([]byte, 0, len(msg)+len(dst)+24)
		rec = append(append(rec, dst...), msg...)

		return rec[len(dst) : len(dst)+len(msg)], rec[:len(dst)]
	}
}

type c10Impl struct {
	e [c10NE]*secp256k1.Element
	s [c10NS]*secp256k1.Scalar
	// the caller's two long-lived buffers: some hashing steps write message and tag into them (same address, step after step)
	mbuf, dbuf []byte
}

func c10Exec(im *c10Impl, st *c10Step) {
	var ea *secp256k1.Element

	var sa, sb *secp256k1.Scalar

	if st.Op[0] == 'e' && st.A >= 0 && st.Op != "e.mul" {
		if st.A >= c10NE {
			ea = c10SharedElems[st.A-c10NE]
		} else {
			ea = im.e[st.A]
		}
	}

	if (st.Op[0] == 's' || st.Op == "e.mul") && st.A >= 0 {
		sa = im.s[st.A]
	}

	if st.Op == "s.cselect" && st.B >= 0 {
		sb = im.s[st.B]
	}

	r := st.R

	switch st.Op {
	case "e.new":
		im.e[r] = secp256k1.NewElement()
	case "e.identity":
		im.e[r].Identity()
	case "e.base":
		im.e[r].Base()
	case "e.set":
		im.e[r].Set(ea)
	case "e.copy":
		im.e[r] = ea.Copy()
	case "e.add":
		im.e[r].Add(ea)
	case "e.sub":
		im.e[r].Subtract(ea)
	case "e.double":
		im.e[r].Double()
	case "e.negate":
		im.e[r].Negate()
	case "e.mul":
		im.e[r].Multiply(sa)
	case "e.decode":
		_ = im.e[r].Decode(mon.UnH(st.Lit))
	case "e.unmarshal":
		_ = im.e[r].UnmarshalBinary(mon.UnH(st.Lit))
	case "e.decodeHex":
		if st.Lit2 != "" {
			_ = im.e[r].DecodeHex(st.Lit2)
		} else {
			_ = im.e[r].DecodeHex(st.Lit)
		}
	case "e.decodeC":
		_ = im.e[r].DecodeCompressed(mon.UnH(st.Lit))
	case "e.decodeU":
		_ = im.e[r].DecodeUncompressed(mon.UnH(st.Lit))
	case "e.coords":
		b := mon.UnH(st.Lit)
		_ = im.e[r].DecodeCoordinates([32]byte(b[:32]), [32]byte(b[32:]))
	case "e.roundtrip":
		if err := im.e[r].Decode(ea.Encode()); err != nil {
			panic("round trip rejected: " + err.Error())
		}
	case "e.roundtripU":
		if err := im.e[r].Decode(ea.EncodeUncompressed()); err != nil {
			panic("round trip (uncompressed) rejected: " + err.Error())
		}
	case "e.roundtripHex":
		if err := im.e[r].DecodeHex(ea.Hex()); err != nil {
			panic("round trip (hex) rejected: " + err.Error())
		}
	case "e.h2g":
		m, d := c10Record(im, st)
		secp256k1.HashToGroup(m, d)
		im.e[r] = secp256k1.HashToGroup(m, d)
	case "e.e2g":
		m, d := c10Record(im, st)
		secp256k1.EncodeToGroup(m, d)
		im.e[r] = secp256k1.EncodeToGroup(m, d)
	case "s.new":
		im.s[r] = secp256k1.NewScalar()
	case "s.zero":
		im.s[r].Zero()
	case "s.one":
		im.s[r].One()
	case "s.minusone":
		im.s[r].MinusOne()
	case "s.set":
		im.s[r].Set(sa)
	case "s.copy":
		im.s[r] = sa.Copy()
	case "s.add":
		im.s[r].Add(sa)
	case "s.sub":
		im.s[r].Subtract(sa)
	case "s.mul":
		im.s[r].Multiply(sa)
	case "s.square":
		im.s[r].Square()
	case "s.invert":
		im.s[r].Invert()
	case "s.pow":
		im.s[r].Pow(sa)
	case "s.setu64":
		im.s[r].SetUInt64(st.U)
	case "s.decode":
		_ = im.s[r].Decode(mon.UnH(st.Lit))
	case "s.roundtrip":
		if err := im.s[r].Decode(sa.Encode()); err != nil {
			panic("scalar round trip rejected: " + err.Error())
		}
	case "s.h2s":
		m, d := c10Record(im, st)
		secp256k1.HashToScalar(m, d)
		im.s[r] = secp256k1.HashToScalar(m, d)
	case "s.cselect":
		_ = im.s[r].CSelect(st.U, sa, sb)
	case "s.random":
		old := rand.Reader
		rand.Reader = bytes.NewReader(mon.UnH(st.Lit))

		defer func() { rand.Reader = old }()

		im.s[r].Random()
	default:
		panic("harness: unknown history op " + st.Op)
	}
}

func c10Run(c *mon.Ctx, csAny any) {
	cs := csAny.(*c10Case)

	if len(cs.Parallel) > 0 {
		c10SharedElems, c10SharedPts = nil, nil

		for _, sc := range cs.Shared {
			c10SharedElems = append(c10SharedElems, sc.Build())
			c10SharedPts = append(c10SharedPts, sc.P.Pt())
		}

		snaps := make([]mon.RawSnap, len(c10SharedElems))
		for i, e := range c10SharedElems {
			snaps[i] = mon.Snap(e)
		}

		defer func() {
			for i, e := range c10SharedElems {
				if mon.Snap(e) != snaps[i] {
					c.Fail(fmt.Sprintf("a read-only element shared as an argument by %d histories running side by side changed storage: %s -> %s", len(cs.Parallel), snaps[i], mon.Snap(e)), "history-shared-argument-modified", nil)
				}
			}
		}()

		var cases []any
		for _, h := range cs.Parallel {
			cases = append(cases, h)
		}

		c.RunParallel(cases)

		return
	}

	var (
		m  c10Model
		im c10Impl
	)

	for i := range im.e {
		im.e[i] = cs.InitE[i].Build()
		m.e[i] = cs.InitE[i].P.Pt()
	}

	for i := range im.s {
		m.s[i] = mon.BigH(cs.InitS[i])
		im.s[i] = mon.Scal(m.s[i])
	}

	c.Count("histories")

	fail := func(i int, st *c10Step, what string) {
		c.Fail(fmt.Sprintf("history diverges from the model at step %d (%s r=%d a=%d b=%d): %s", i, st.Op, st.R, st.A, st.B, what),
			"history:"+st.Op, map[string]any{"step_index": i, "step": st})
	}

	for i := range cs.Steps {
		st := &cs.Steps[i]

		// bookkeeping for the evidence
		c.Count("steps")

		opName := st.Op
		if _, ok := c10Accepts(st); !ok {
			opName = "e.decode-invalid"
		}

		c.Count("op:" + opName)

		if st.A == st.R && (st.Op[0] == 'e' && st.Op != "e.mul" || st.Op[0] == 's') {
			switch st.Op {
			case "e.set", "e.copy", "e.add", "e.sub", "e.roundtrip", "e.roundtripU", "e.roundtripHex", "s.set", "s.copy", "s.add", "s.sub", "s.mul", "s.pow", "s.roundtrip", "s.cselect":
				c.Count("step:receiver=argument")
			}
		}

		if st.Op == "s.cselect" && st.A == st.B && st.A >= 0 {
			c.Count("step:cselect-same-operands")
		}

		switch st.Op {
		case "e.add", "e.sub", "e.mul", "s.set", "s.add", "s.sub", "s.mul", "s.pow", "s.cselect":
			if st.A < 0 || (st.Op == "s.cselect" && st.B < 0) {
				c.Count("step:nil-argument")
			}
		}

		for _, p := range m.e {
			if p.IsInf() {
				c.Count("step:identity-in-pool")
				break
			}
		}

		// snapshot every variable
		var (
			eb [c10NE]mon.RawSnap
			sb [c10NS][4]uint64
		)

		for j := range im.e {
			eb[j] = mon.Snap(im.e[j])
		}

		for j := range im.s {
			sb[j] = im.s[j].S
		}

		// execute on both sides
		c10Apply(&m, st)

		if pan, pv := mon.Call(func() { c10Exec(&im, st) }); pan {
			if s, ok := pv.(string); ok && len(s) > 8 && s[:8] == "harness:" {
				panic(s)
			}

			fail(i, st, fmt.Sprint("the call panicked: ", pv))

			return
		}

		// A rejected scalar Decode: the statement does not say what the receiver holds afterwards (the implementation
		// stores input-n for 32-byte inputs >= n), so the model adopts whatever canonical value is observed.
		if st.Op == "s.decode" {
			b := mon.UnH(st.Lit)
			if len(b) != 32 || new(big.Int).SetBytes(b).Cmp(oracle.N) >= 0 {
				c.Count("step:scalar-decode-rejected-havoc")
				m.s[st.R] = mon.ScalVal(im.s[st.R])
			}
		}

		// observe everything
		for j := range im.e {
			c.Eval(3)

			isRecv := st.Op[0] == 'e' && j == st.R
			if !isRecv && mon.Snap(im.e[j]) != eb[j] {
				fail(i, st, fmt.Sprintf("element variable e%d, which is not the receiver, changed storage: %s -> %s", j, eb[j], mon.Snap(im.e[j])))
				return
			}

			if ok, why := mon.RawValid(im.e[j]); !ok {
				fail(i, st, fmt.Sprintf("e%d is no longer a valid curve point: %s", j, why))
				return
			}

			if ok, why := mon.ElemIs(im.e[j], m.e[j]); !ok {
				fail(i, st, fmt.Sprintf("e%d: %s", j, why))
				return
			}

			if eu := im.e[j].EncodeUncompressed(); !bytes.Equal(eu, oracle.EncU(m.e[j])) {
				fail(i, st, fmt.Sprintf("e%d: EncodeUncompressed=%s, model says %s", j, mon.H(eu), mon.H(oracle.EncU(m.e[j]))))
				return
			}

			if im.e[j].IsIdentity() != m.e[j].IsInf() {
				fail(i, st, fmt.Sprintf("e%d: IsIdentity=%v, model says %v", j, im.e[j].IsIdentity(), m.e[j].IsInf()))
				return
			}
		}

		for j := range im.s {
			c.Eval(2)

			isRecv := st.Op[0] == 's' && j == st.R
			if !isRecv && im.s[j].S != sb[j] {
				fail(i, st, fmt.Sprintf("scalar variable s%d, which is not the receiver, changed storage", j))
				return
			}

			if got := mon.ScalVal(im.s[j]); got.Cmp(m.s[j]) != 0 || !mon.ScalCanonical(im.s[j]) {
				fail(i, st, fmt.Sprintf("s%d = %x (stored %s), model says %x", j, got, mon.HexLimbs(im.s[j].S), m.s[j]))
				return
			}

			if im.s[j].IsOne() != (m.s[j].Cmp(big.NewInt(1)) == 0) {
				fail(i, st, fmt.Sprintf("s%d: IsOne=%v, model value %x", j, im.s[j].IsOne(), m.s[j]))
				return
			}

			bits := im.s[j].Bits()
			for b := 0; b < 256; b++ {
				if uint(bits[b]) != m.s[j].Bit(b) {
					fail(i, st, fmt.Sprintf("s%d: Bits()[%d]=%d, model value %x", j, b, bits[b], m.s[j]))
					return
				}
			}

			if im.s[j].IsZero() != (m.s[j].Sign() == 0) {
				fail(i, st, fmt.Sprintf("s%d: IsZero=%v, model value %x", j, im.s[j].IsZero(), m.s[j]))
				return
			}
		}

		for j := range im.e {
			for k := range im.e {
				c.Eval(1)

				want := 0
				if m.e[j].Equal(m.e[k]) {
					want = 1
				}

				if got := im.e[j].Equal(im.e[k]); got != want {
					fail(i, st, fmt.Sprintf("e%d.Equal(e%d)=%d, model says %d", j, k, got, want))
					return
				}
			}
		}

		for j := range im.s {
			for k := range im.s {
				c.Eval(1)

				want := 0
				if m.s[j].Cmp(m.s[k]) == 0 {
					want = 1
				}

				if got := im.s[j].Equal(im.s[k]); got != want {
					fail(i, st, fmt.Sprintf("s%d.Equal(s%d)=%d, model says %d", j, k, got, want))
					return
				}
			}
		}
	}

	if len(cs.Steps) >= 10 {
		c.Seen(cs.InitE, cs.InitS, cs.Steps)

		if c.WantSample() {
			n := len(cs.Steps)
			if n > 12 {
				n = 12
			}

			c.Sample(map[string]any{"initial_elements": cs.InitE, "initial_scalars": cs.InitS, "first_steps": cs.Steps[:n], "total_steps": len(cs.Steps)})
		}
	}
}

// c10Accepts reports whether the oracle accepts a decode step's literal.
func c10Accepts(st *c10Step) (oracle.Pt, bool) {
	if st.Op == "e.decodeHex" && st.Lit2 != "" {
		// a literal string that is not (lower-case) hexadecimal: must be rejected
		if b, ok, upper := strictHex(st.Lit2); ok && !upper {
			return oracle.DecodeRef(b, oracle.FormAny)
		}

		return oracle.Pt{}, false
	}

	switch st.Op {
	case "e.decode", "e.unmarshal", "e.decodeHex":
		return oracle.DecodeRef(mon.UnH(st.Lit), oracle.FormAny)
	case "e.decodeC":
		return oracle.DecodeRef(mon.UnH(st.Lit), oracle.FormCompressed)
	case "e.decodeU":
		return oracle.DecodeRef(mon.UnH(st.Lit), oracle.FormUncompressed)
	case "e.coords":
		b := mon.UnH(st.Lit)
		return oracle.CoordsRef(b[:32], b[32:])
	}

	return oracle.Pt{}, true
}
