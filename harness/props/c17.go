//go:build verif && (p_all || p_c17)

package props

import (
	"bytes"
	"fmt"
	"os"
	"os/exec"
	"path/filepath"
	"sort"
	"strconv"
	"strings"
	"sync"
	"sync/atomic"
	"time"

	"github.com/bytemare/secp256k1/zz_verif/mon"
	"github.com/bytemare/secp256k1/zz_verif/oracle"
)

// C17 — the hashing functions work in any program that imports the package.
//
// Monitor: a process-level observer. Plain (non-test) main programs, differing in what ELSE they import and in how
// they are built, are generated into a scratch module that `replace`s the package with /repo's working tree; each is
// built, run, and its exit status / stderr / stdout compared with values computed by the oracle. A test binary can
// never see this class of failure, because the test main itself links crypto/sha256.

type c17Variant struct {
	Name    string
	Imports []string // extra imports (blank unless used in Body)
	Pre     string   // extra top-level code
	InInit  bool     // call the library from init() instead of main()
	Flags   []string // extra go build flags
	GoBin   string   // alternative go command
	Env     []string
	Print   string // "print" (builtin, stderr) or "fmt"
	Thorough bool
	// MayNotRun: the binary targets another architecture; if the kernel cannot execute it the variant is skipped.
	MayNotRun bool
	// RunEnv: environment of the RUNNING program (not of the build).
	RunEnv []string
	// Concurrent: the program's first use of the library is 16 goroutines hashing all inputs at once.
	Concurrent bool
	// Runs: how many times the built program is executed (every execution is judged); 0 = once.
	Runs int
}

func c17Variants() []c17Variant {
	return []c17Variant{
		{Name: "imports-nothing-else", Print: "print"},
		{Name: "fmt-os", Imports: []string{"fmt", "os"}, Print: "fmt"},
		{Name: "crypto-sha512", Imports: []string{"crypto/sha512"}, Pre: "var _ = sha512.New", Print: "print"},
		{Name: "md5-crc32", Imports: []string{"crypto/md5", "hash/crc32"}, Pre: "var _ = md5.New\nvar _ = crc32.NewIEEE", Print: "print"},
		{Name: "crypto-sha256-itself", Imports: []string{"crypto/sha256"}, Pre: "var _ = sha256.New", Print: "print"},
		{Name: "from-init", InInit: true, Print: "print"},
		{Name: "crypto-registry-only", Imports: []string{"crypto"}, Pre: "var _ = crypto.SHA256", Print: "print"},
		{Name: "ldflags-s-w", Flags: []string{"-ldflags=-s -w"}, Print: "print"},
		// a program that wraps the registered SHA-256 (instrumentation, a counting wrapper): still a correct SHA-256,
		// but not the standard library's concrete type
		{Name: "registers-wrapped-sha256", Imports: []string{"crypto", "crypto/sha256", "hash"},
			Pre:   "type wrappedHash struct{ hash.Hash }\n\nfunc init() {\n\tcrypto.RegisterHash(crypto.SHA256, func() hash.Hash { return wrappedHash{sha256.New()} })\n}",
			Print: "print"},
		// other build configurations of the same source tree (files can be build-constrained)
		{Name: "goarch-386", Env: []string{"GOARCH=386"}, Print: "print", MayNotRun: true},
		{Name: "tags-purego", Flags: []string{"-tags=purego"}, Print: "print"},
		// instrumented builds a user may well ship or test with: pointer-arithmetic checks, the race detector
		{Name: "checkptr", Flags: []string{"-gcflags=all=-d=checkptr"}, Print: "print"},
		{Name: "race-build", Flags: []string{"-race"}, Print: "print"},
		{Name: "no-optimisation", Flags: []string{"-gcflags=all=-N -l"}, Print: "print"},
		// a program that replaces the process-wide entropy source by one that fails (or only yields zeros before failing):
		// hashing is deterministic and must not care
		{Name: "failing-rand-reader", Imports: []string{"crypto/rand", "errors"},
			Pre:   "type deadSource struct{ zeros int }\n\nfunc (d *deadSource) Read(p []byte) (int, error) {\n\tif d.zeros <= 0 {\n\t\treturn 0, errors.New(\"no entropy\")\n\t}\n\n\tfor i := range p {\n\t\tp[i] = 0\n\t}\n\n\td.zeros -= len(p)\n\n\treturn len(p), nil\n}\n\nfunc init() { rand.Reader = &deadSource{} }",
			Print: "print"},
		{Name: "zero-then-failing-rand-reader", Imports: []string{"crypto/rand", "errors"},
			Pre:   "type deadSource struct{ zeros int }\n\nfunc (d *deadSource) Read(p []byte) (int, error) {\n\tif d.zeros <= 0 {\n\t\treturn 0, errors.New(\"no entropy\")\n\t}\n\n\tfor i := range p {\n\t\tp[i] = 0\n\t}\n\n\td.zeros -= len(p)\n\n\treturn len(p), nil\n}\n\nfunc init() { rand.Reader = &deadSource{zeros: 4096} }",
			Print: "print"},
		// a program that already uses the obvious names in the process-wide registries of the standard library
		{Name: "global-registries-taken", Imports: []string{"expvar", "flag", "net/http"},
			Pre: "func init() {\n\tfor _, n := range []string{\"secp256k1\", \"github.com/bytemare/secp256k1\", \"bytemare/secp256k1\", \"h2c\", \"hash2curve\"} {\n\t\texpvar.NewMap(n)\n\t\tflag.String(n, \"\", \"taken\")\n\t\thttp.HandleFunc(\"/debug/\"+n, func(http.ResponseWriter, *http.Request) {})\n\t}\n}",
			Print: "print"},
		{Name: "cgo-disabled-netgo", Flags: []string{"-tags=netgo,osusergo"}, Env: []string{"CGO_ENABLED=0"}, Print: "print"},
		{Name: "math-big-only", Imports: []string{"math/big"}, Pre: "var _ = big.NewInt", Print: "print", Thorough: true},
		{Name: "encoding-json", Imports: []string{"encoding/json"}, Pre: "var _ = json.Marshal", Print: "print", Thorough: true},
		{Name: "crypto-tls", Imports: []string{"crypto/tls"}, Pre: "var _ = tls.VersionTLS13", Print: "print", Thorough: true},
		{Name: "trimpath", Flags: []string{"-trimpath"}, Print: "print", Thorough: true},
		{Name: "gcflags-noinline", Flags: []string{"-gcflags=all=-l"}, Print: "print", Thorough: true},
		{Name: "toolchain-go1.26.8", GoBin: "go1.26.8", Env: []string{"GOTOOLCHAIN=local"}, Print: "print"},
		// a program that writes into every slice the package hands out before it hashes (they are the caller's to keep)
		{Name: "writes-into-returned-slices", Print: "print",
			Pre: "func init() {\n\tfor _, b := range [][]byte{secp256k1.Order(), secp256k1.Base().Encode(), secp256k1.Base().EncodeUncompressed(), secp256k1.NewElement().Encode(), secp256k1.NewScalar().Encode(), secp256k1.NewScalar().One().Encode(), secp256k1.Base().XCoordinate()} {\n\t\tfull := b[:cap(b)]\n\t\tfor i, j := 0, len(full)-1; i < j; i, j = i+1, j-1 {\n\t\t\tfull[i], full[j] = full[j]^0x5a, full[i]^0x5a\n\t\t}\n\t}\n}"},
		// a program that uses the exported map-to-curve functions directly, on the exceptional inputs, before it hashes (the
		// field element type is internal, so the program builds the zero value by reflection)
		{Name: "calls-map-functions-first", Imports: []string{"reflect"}, Print: "print",
			Pre: "func init() {\n\tsswu := reflect.ValueOf(secp256k1.SSWU)\n\tfor i := 0; i < 3; i++ {\n\t\tu := reflect.New(sswu.Type().In(0).Elem()) // u = 0: the exceptional input\n\t\tq := sswu.Call([]reflect.Value{u})[0]\n\t\treflect.ValueOf(secp256k1.IsogenySecp256k13iso).Call([]reflect.Value{q})\n\t}\n}"},
		// the machine the program runs on: one CPU (a small container), an aggressive collector
		{Name: "run-gomaxprocs-1", RunEnv: []string{"GOMAXPROCS=1"}, Print: "print"},
		{Name: "run-gomaxprocs-2-gogc-1", RunEnv: []string{"GOMAXPROCS=2", "GOGC=1"}, Print: "print"},
		{Name: "run-gomaxprocs-1-from-init", InInit: true, RunEnv: []string{"GOMAXPROCS=1"}, Print: "print"},
		// a server: the very first calls into the library arrive on many goroutines at once (each program start is one
		// cold first use, so the program is started many times)
		{Name: "concurrent-first-use", Concurrent: true, Runs: 40, Print: "print"},
		{Name: "concurrent-first-use-4-cpus", Concurrent: true, Runs: 20, RunEnv: []string{"GOMAXPROCS=4"}, Print: "print"},
		{Name: "concurrent-first-use-1-cpu", Concurrent: true, Runs: 5, RunEnv: []string{"GOMAXPROCS=1"}, Print: "print"},
		{Name: "concurrent-first-use-race-build", Concurrent: true, Runs: 6, Flags: []string{"-race"}, RunEnv: []string{"GORACE=halt_on_error=1"}, Print: "print"},
	}
}

type c17Input struct{ Fn, Msg, Dst string }

func c17Inputs() []c17Input {
	long := strings.Repeat("L", 300)
	d255, d256 := strings.Repeat("t", 255), strings.Repeat("T", 256)

	var out []c17Input

	for _, fn := range []string{"H2G", "E2G", "H2S"} {
		out = append(out,
			c17Input{fn, "", "QUUX-V01-CS02-with-secp256k1_XMD:SHA-256_SSWU_RO_"},
			c17Input{fn, "abc", "QUUX-V01-CS02-with-secp256k1_XMD:SHA-256_SSWU_NU_"},
			c17Input{fn, "a message of some length, longer than one SHA-256 block, to exercise several compressions .........", "d"},
			c17Input{fn, "oversize", long},
			c17Input{fn, "longest ordinary tag", d255},
			c17Input{fn, "shortest oversize tag", d256},
			c17Input{fn, "sixteen", "0123456789abcdef"},
			c17Input{fn, "@65536", "a message of exactly 64 KiB"},
			c17Input{fn, "@131072", "a message of exactly 128 KiB"},
		)
	}

	return out
}

const c17ConcurrentBody = `// runConcurrent: nothing of the library has run in this process; 16 goroutines start hashing at the same moment, each
// its own rotation of the inputs. The values are printed afterwards; goroutines that disagree print "DIVERGED".
func runConcurrent() {
	const g = 16

	var (
		res   [g][]string
		start = make(chan struct{})
		done  = make(chan int, g)
	)

	for w := 0; w < g; w++ {
		res[w] = make([]string, len(inputs))

		go func(w int) {
			<-start

			for k := range inputs {
				i := (k + w) % len(inputs)
				res[w][i] = one(inputs[i])
			}

			done <- w
		}(w)
	}

	close(start)

	for w := 0; w < g; w++ {
		<-done
	}

	for i := range inputs {
		v := res[0][i]
		for w := 1; w < g; w++ {
			if res[w][i] != v {
				v = "DIVERGED:" + v + "/" + res[w][i]
				break
			}
		}

		emit(i, v)
	}

	// and once more, sequentially, now that the process is warm: the first use must not have left anything broken
	for i, in := range inputs {
		if v := one(in); v != res[0][i] {
			emit(i, "LATER:"+v)
		}
	}

	records()
	emit(-2, sweep())
	emit(-1, "done")
}

`

func c17Source(v c17Variant, inputs []c17Input) string {
	var b strings.Builder

	b.WriteString("package main\n\nimport (\n")

	for _, im := range v.Imports {
		fmt.Fprintf(&b, "\t%q\n", im)
	}

	b.WriteString("\t\"github.com/bytemare/secp256k1\"\n)\n\n")


	if v.Pre != "" {
		b.WriteString(v.Pre + "\n\n")
	}

	b.WriteString("var inputs = [][3]string{\n")

	for _, in := range inputs {
		fmt.Fprintf(&b, "\t{%q, %q, %q},\n", in.Fn, in.Msg, in.Dst)
	}

	b.WriteString("}\n\nfunc emit(i int, s string) {\n")

	if v.Print == "fmt" {
		b.WriteString("\tfmt.Fprintf(os.Stdout, \"R%d=%s\\n\", i, s)\n")
	} else {
		b.WriteString("\tprint(\"R\", i, \"=\", s, \"\\n\")\n")
	}

	b.WriteString(`}

// a program may make the documented mistake (empty DST), recover from the panic, and carry on
func mistake() {
	defer func() { _ = recover() }()
	secp256k1.HashToScalar([]byte("x"), nil)
}

// a message written "@N" stands for N bytes of a fixed pattern (exact multiples of 64 KiB among them)
func expand(s string) string {
	if len(s) < 2 || s[0] != '@' {
		return s
	}

	n := 0
	for i := 1; i < len(s); i++ {
		n = n*10 + int(s[i]-'0')
	}

	b := make([]byte, n)
	for i := range b {
		b[i] = byte(i*13 + 7)
	}

	return string(b)
}

var _ = func() int {
	for i := range inputs {
		inputs[i][1] = expand(inputs[i][1])
	}

	return 0
}()

func call(fn string, m, d []byte) string {
	switch fn {
	case "H2G":
		return secp256k1.HashToGroup(m, d).Hex()
	case "E2G":
		return secp256k1.EncodeToGroup(m, d).Hex()
	default:
		return secp256k1.HashToScalar(m, d).Hex()
	}
}

func one(in [3]string) string { return call(in[0], []byte(in[1]), []byte(in[2])) }

// records: message and tag kept in ONE buffer and passed as two windows of it (the message's capacity runs over the tag),
// twice in a row: a call that appends to its message argument rewrites the tag of the next call
func records() {
	for i, in := range inputs {
		rec := make([]byte, 0, len(in[1])+len(in[2])+16)
		rec = append(append(rec, in[1]...), in[2]...)
		n := len(in[1])
		m, d := rec[:n], rec[n:n+len(in[2])]
		emit(100+i, call(in[0], m, d))
		emit(200+i, call(in[0], m, d))

		// and the other way round: the tag first, its capacity running over the message
		rec2 := make([]byte, 0, len(in[1])+len(in[2])+16)
		rec2 = append(append(rec2, in[2]...), in[1]...)
		k := len(in[2])
		d2, m2 := rec2[:k], rec2[k:k+len(in[1])]
		emit(300+i, call(in[0], m2, d2))
		emit(400+i, call(in[0], m2, d2))

		// one tag buffer, edited in place between two calls (same address, same length, last byte flipped)
		tag := []byte(in[2])
		call(in[0], []byte(in[1]), []byte("an unrelated tag used in between"))
		call(in[0], []byte(in[1]), tag)
		tag[len(tag)-1] ^= 1
		emit(500+i, call(in[0], []byte(in[1]), tag))
	}
}

// sweep: every message length 0..520 under a 49-byte and (every fourth) a 16-byte tag, the three functions in rotation,
// all results folded into one 64-bit FNV-1a value (computed by hand: the program imports nothing for it)
func sweep() string {
	h := uint64(14695981039346656037)
	mix := func(s string) {
		for i := 0; i < len(s); i++ {
			h ^= uint64(s[i])
			h *= 1099511628211
		}
	}

	msg := make([]byte, 520)
	for i := range msg {
		msg[i] = byte(i*7 + 3)
	}

	tag49 := []byte("QUUX-V01-CS02-with-secp256k1_XMD:SHA-256_SSWU_RO_")
	tag16 := []byte("sixteen-byte-tag")
	fns := [3]string{"H2G", "E2G", "H2S"}

	for l := 0; l <= 520; l++ {
		mix(call(fns[l%3], msg[:l:l], tag49))

		if l%4 == 0 {
			mix(call(fns[(l/4)%3], msg[:l:l], tag16))
		}
	}

	const digits = "0123456789abcdef"

	out := make([]byte, 16)
	for i := 15; i >= 0; i-- {
		out[i] = digits[h&15]
		h >>= 4
	}

	return string(out)
}

func run() {
	mistake()
	for i, in := range inputs {
		if i == len(inputs)/2 {
			mistake()
		}

		switch in[0] {
		case "H2G":
			emit(i, secp256k1.HashToGroup([]byte(in[1]), []byte(in[2])).Hex())
		case "E2G":
			emit(i, secp256k1.EncodeToGroup([]byte(in[1]), []byte(in[2])).Hex())
		default:
			emit(i, secp256k1.HashToScalar([]byte(in[1]), []byte(in[2])).Hex())
		}
	}
	records()
	emit(-2, sweep())
	emit(-1, "done")
}

`)

	entry := "run"

	if v.Concurrent {
		b.WriteString(c17ConcurrentBody)

		entry = "runConcurrent"
	}

	if v.InInit {
		b.WriteString("func init() { " + entry + "() }\n\nfunc main() {}\n")
	} else {
		b.WriteString("func main() { " + entry + "() }\n")
	}

	return b.String()
}

func init() {
	register(&mon.Prop{
		ID:      "C17",
		Flavour: "plain",
		Rule: "executions = plain main programs (not test binaries) generated into a scratch module with `replace github.com/bytemare/secp256k1 => /repo`, differing in the set of other imports " +
			"(nothing else at all, fmt+os, crypto/sha512, crypto/md5+hash/crc32, crypto/sha256 itself, the crypto registry package only; thorough: math/big, encoding/json, crypto/tls), in calling the library from init(), " +
			"in what they do to process-wide state (the entropy source replaced by a failing one; the obvious names already taken in expvar / flag / http.DefaultServeMux), in what they do to the crypto hash registry (a program that re-registers SHA-256 as a wrapper around the standard one), and in build configuration (-ldflags='-s -w', -gcflags=all=-d=checkptr, GOARCH=386 executed natively, -tags=purego, CGO_ENABLED=0 with netgo/osusergo; -race, -gcflags=all=-N -l, the alternate toolchain go1.26.8; thorough: -trimpath, -gcflags=all=-l). Each calls HashToGroup, EncodeToGroup and HashToScalar on 4 (msg, DST) pairs including an oversize DST, and twice makes the documented mistake of an empty DST, recovers from the panic and carries on. " +
			"Every program also prints a digest (FNV-1a written out by hand) of the three functions over every message length 0..520 under a 49-byte and a 16-byte tag, and calls every input twice on a record buffer (message and tag as two windows of one array). Run-time configurations: GOMAXPROCS=1 (also from init), GOMAXPROCS=2 with GOGC=1. Concurrent-first-use programs, started 40/20/5/6 times each (x5 in thorough): the first calls into the library are 16 goroutines released together, each hashing all inputs in its own rotation (default CPUs, 4 CPUs, 1 CPU, and a -race build with halt_on_error); goroutines must agree with each other, with the oracle, and with a sequential pass afterwards. A program that has been completely idle for 15 s (no runnable thread, no CPU time used) is sent SIGQUIT and judged on its goroutine dump: all goroutines blocked, none runnable, the module on a blocked stack = deadlock (violation); otherwise inconclusive. " +
			"Oracle: exit status 0, no panic text, no race report, and every printed value equal to the oracle's RFC 9380 value. The program importing nothing else is the minimum of the configuration lattice (adding imports can only add registrations), so it is the decisive one. " +
			"evaluations = library calls observed across programs; distinct non-trivial = distinct (program, input) results checked.",
		Assume: []string{"`go build` links exactly what the import graph requires; adding imports can only add hash registrations"},
		Parent: c17Parent,
	})
}

type c17Result struct {
	v        c17Variant
	run      int
	buildErr string
	exit     string
	stdout   string
	stderr   string
	timed    bool
	deadlock string
	skipped  string
}

func (r c17Result) abnormal() bool {
	return r.exit != "" || r.timed || r.deadlock != "" || r.buildErr != "" || r.skipped != ""
}

// c17PackageDoesNotCompile: the go command reports compile errors per package ("# import/path" followed by file:line
// diagnostics); errors under the heading of the module under test (or of one of its internal packages) are the package's.
func c17PackageDoesNotCompile(out string) bool {
	inPkg := false

	for _, ln := range strings.Split(out, "\n") {
		ln = strings.TrimSpace(ln)

		if i := strings.Index(ln, "# "); i >= 0 && (i == 0 || strings.HasSuffix(ln[:i], ": ")) {
			h := ln[i:]
			inPkg = strings.HasPrefix(h, "# "+mon.ModulePath) && !strings.Contains(h, "zz_verif")

			continue
		}

		if inPkg && strings.Contains(ln, ".go:") {
			return true
		}
	}

	return false
}

// c17Values extracts the R<i>=<value> lines (the builtin print writes them to stderr).
func c17Values(s string) string {
	var out []string

	for _, ln := range strings.Split(s, "\n") {
		if strings.HasPrefix(strings.TrimSpace(ln), "R") {
			out = append(out, strings.TrimSpace(ln))
		}
	}

	return strings.Join(out, "\n")
}

// c17RunOnce executes the built program once. A program of this kind finishes in milliseconds. Whether one that does not
// finish is hung or merely slow is decided on its state, not on the clock (mon/watch.go): once it has been completely idle
// for 15 s it is sent SIGQUIT and judged on its goroutine dump — all goroutines blocked, none runnable, the module on a
// blocked stack: deadlock; anything else: inconclusive.
func c17RunOnce(dir string, v c17Variant) c17Result {
	var r c17Result

	run := exec.Command(filepath.Join(dir, "probe"))
	run.Dir = dir
	run.Env = append(append(os.Environ(), "GOTRACEBACK=all"), v.RunEnv...)

	var so bytes.Buffer

	errPath := filepath.Join(dir, "stderr.log")

	ef, err := os.Create(errPath)
	if err != nil {
		r.buildErr = "cannot create log: " + err.Error()
		return r
	}
	defer ef.Close()

	run.Stdout, run.Stderr = &so, ef

	if err := run.Start(); err != nil {
		if v.MayNotRun {
			r.skipped = "cannot execute this architecture here: " + err.Error()
		} else {
			r.buildErr = "cannot start: " + err.Error()
		}

		return r
	}

	werr, st := mon.WaitWatched(run, errPath, 15*time.Second, 5*time.Minute)

	switch {
	case st.Stalled:
		r.timed = true
		r.deadlock = st.Deadlock
	case werr != nil:
		r.exit = werr.Error()
	}

	se, _ := os.ReadFile(errPath)
	r.stdout, r.stderr = so.String(), string(se)

	return r
}

func c17Parent(p *mon.Prop, pc *mon.ParentCtx) *mon.Aggregate {
	agg := mon.NewAggregate()
	thorough := pc.Tier == "thorough"
	repo := os.Getenv("VERIF_REPO")

	if repo == "" {
		repo = "/repo"
	}

	inputs := c17Inputs()

	expected := make([]string, len(inputs))
	for i, in := range inputs {
		if len(in.Msg) > 1 && in.Msg[0] == '@' {
			n, _ := strconv.Atoi(in.Msg[1:])
			b := make([]byte, n)

			for k := range b {
				b[k] = byte(k*13 + 7)
			}

			in.Msg = string(b)
		}

		switch in.Fn {
		case "H2G":
			pt, _ := oracle.HashToCurve([]byte(in.Msg), []byte(in.Dst))
			expected[i] = mon.H(oracle.EncC(pt))
		case "E2G":
			pt, _ := oracle.EncodeToCurve([]byte(in.Msg), []byte(in.Dst))
			expected[i] = mon.H(oracle.EncC(pt))
		default:
			expected[i] = mon.H(oracle.Bytes32(oracle.HashToScalar([]byte(in.Msg), []byte(in.Dst))))
		}
	}

	// the sweep value, computed by the oracle exactly as the programs compute it
	sweepWant := func() string {
		h := uint64(14695981039346656037)
		mix := func(s string) {
			for i := 0; i < len(s); i++ {
				h ^= uint64(s[i])
				h *= 1099511628211
			}
		}

		msg := make([]byte, 520)
		for i := range msg {
			msg[i] = byte(i*7 + 3)
		}

		tag49, tag16 := []byte("QUUX-V01-CS02-with-secp256k1_XMD:SHA-256_SSWU_RO_"), []byte("sixteen-byte-tag")
		ref := func(fn string, m, d []byte) string {
			switch fn {
			case "H2G":
				pt, _ := oracle.HashToCurve(m, d)
				return mon.H(oracle.EncC(pt))
			case "E2G":
				pt, _ := oracle.EncodeToCurve(m, d)
				return mon.H(oracle.EncC(pt))
			default:
				return mon.H(oracle.Bytes32(oracle.HashToScalar(m, d)))
			}
		}
		fns := [3]string{"H2G", "E2G", "H2S"}

		for l := 0; l <= 520; l++ {
			mix(ref(fns[l%3], msg[:l], tag49))

			if l%4 == 0 {
				mix(ref(fns[(l/4)%3], msg[:l], tag16))
			}
		}

		return fmt.Sprintf("%016x", h)
	}()

	// expected values for the "tag edited in place" calls (last byte of the tag flipped)
	expectedEdited := make([]string, len(inputs))

	for i, in := range inputs {
		msg := in.Msg
		if len(msg) > 1 && msg[0] == '@' {
			n, _ := strconv.Atoi(msg[1:])
			b := make([]byte, n)

			for k := range b {
				b[k] = byte(k*13 + 7)
			}

			msg = string(b)
		}

		tag := []byte(in.Dst)
		tag[len(tag)-1] ^= 1

		switch in.Fn {
		case "H2G":
			pt, _ := oracle.HashToCurve([]byte(msg), tag)
			expectedEdited[i] = mon.H(oracle.EncC(pt))
		case "E2G":
			pt, _ := oracle.EncodeToCurve([]byte(msg), tag)
			expectedEdited[i] = mon.H(oracle.EncC(pt))
		default:
			expectedEdited[i] = mon.H(oracle.Bytes32(oracle.HashToScalar([]byte(msg), tag)))
		}
	}

	root := filepath.Join(pc.Scratch, "c17")

	var variants []c17Variant

	for _, v := range c17Variants() {
		if v.Thorough && !thorough {
			continue
		}

		variants = append(variants, v)
	}

	results := make([]c17Result, len(variants))
	sem := make(chan struct{}, 8)

	var (
		wg         sync.WaitGroup
		mu         sync.Mutex
		extra      []c17Result // every execution judged: the first of each program and all that differ from it
		executions int64
	)

	for i, v := range variants {
		wg.Add(1)

		go func(i int, v c17Variant) {
			defer wg.Done()
			sem <- struct{}{}
			defer func() { <-sem }()

			r := c17Result{v: v}
			dir := filepath.Join(root, v.Name)
			_ = os.MkdirAll(dir, 0o755)
			gomod := fmt.Sprintf("module c17probe/%s\n\ngo 1.22.2\n\nrequire github.com/bytemare/secp256k1 v0.0.0\n\nreplace github.com/bytemare/secp256k1 => %s\n", strings.ReplaceAll(v.Name, ".", "-"), repo)
			_ = os.WriteFile(filepath.Join(dir, "go.mod"), []byte(gomod), 0o644)
			_ = os.WriteFile(filepath.Join(dir, "main.go"), []byte(c17Source(v, inputs)), 0o644)

			if b, err := os.ReadFile(filepath.Join(repo, "go.sum")); err == nil {
				_ = os.WriteFile(filepath.Join(dir, "go.sum"), b, 0o644)
			}

			gobin := "go"
			if v.GoBin != "" {
				gobin = v.GoBin
			}

			args := append([]string{"build"}, v.Flags...)
			args = append(args, "-o", "probe", ".")
			cmd := exec.Command(gobin, args...)
			cmd.Dir = dir
			cmd.Env = append(os.Environ(), v.Env...)

			if out, err := cmd.CombinedOutput(); err != nil {
				r.buildErr = fmt.Sprintf("%v: %s", err, mon.Trunc(string(out), 2000))
				results[i] = r

				return
			}

			nruns := v.Runs
			if nruns == 0 {
				nruns = 1
			}

			if thorough {
				nruns *= 5
			}

			for k := 0; k < nruns; k++ {
				rr := c17RunOnce(dir, v)
				rr.v = v
				rr.run = k

				if k == 0 || rr.abnormal() || rr.stdout != r.stdout || c17Values(rr.stderr) != c17Values(r.stderr) {
					// keep every execution that differs from the first one (all are judged)
					mu.Lock()
					extra = append(extra, rr)
					mu.Unlock()
				}

				if k == 0 {
					r = rr
				}

				atomic.AddInt64(&executions, 1)

				if rr.abnormal() {
					break
				}
			}

			results[i] = r
		}(i, v)
	}

	wg.Wait()

	// diagnostic, not the verdict: does the package's own import graph contain crypto/sha256?
	dl := exec.Command("go", "list", "-deps", ".")
	dl.Dir = repo

	if out, err := dl.Output(); err == nil {
		agg.Extra["go_list_deps_contains_crypto_sha256"] = strings.Contains("\n"+string(out), "\ncrypto/sha256\n")
	}

	perVariant := map[string]string{}

	var judged []c17Result

	for _, r := range results {
		if r.skipped != "" || r.buildErr != "" {
			judged = append(judged, r)
		}
	}

	sort.SliceStable(extra, func(a, b int) bool {
		if extra[a].v.Name != extra[b].v.Name {
			return extra[a].v.Name < extra[b].v.Name
		}

		return extra[a].run < extra[b].run
	})

	judged = append(judged, extra...)
	agg.Counters["program-executions"] = executions

	for _, r := range judged {
		v := r.v

		if st, done := perVariant[v.Name]; done && st != "ok" {
			continue // already reported for an earlier execution of this program
		}

		switch {
		case r.skipped != "":
			perVariant[v.Name] = "skipped: " + r.skipped
			agg.Counters["programs-skipped-not-executable"]++

			continue
		case r.buildErr != "" && c17PackageDoesNotCompile(r.buildErr):
			// the program is a dozen lines that compile in every other configuration; what fails to compile here is the
			// package under test itself, in one of its supported build configurations
			perVariant[v.Name] = "FAILED: the package does not compile"
			agg.ViolCount++
			agg.Violations = append(agg.Violations, mon.Violation{
				Property: p.ID,
				What:     fmt.Sprintf("a program importing the package cannot be built in configuration %q (flags %v, build environment %v): the package itself does not compile: %s", v.Name, v.Flags, v.Env, mon.Trunc(r.buildErr, 600)),
				Key:      "package-does-not-compile:" + v.Name,
				Case:     map[string]any{"variant": v.Name},
			})

			continue
		case r.buildErr != "":
			perVariant[v.Name] = "build failed"
			agg.Incon("program %q did not build: %s", v.Name, r.buildErr)

			continue
		case r.deadlock != "":
			// decided on the goroutine dump, not on the clock: no goroutine of the program can run, so it can never finish
			perVariant[v.Name] = "FAILED: deadlock"
			agg.ViolCount++
			agg.Violations = append(agg.Violations, mon.Violation{
				Property: p.ID,
				What:     fmt.Sprintf("program %q (run environment %v, execution %d) never returns from the library: every goroutine is blocked (%s)", v.Name, v.RunEnv, r.run, r.deadlock),
				Key:      "program-deadlocks:" + v.Name,
				Case:     map[string]any{"variant": v.Name, "source": c17Source(v, inputs)},
				More:     map[string]any{"goroutine_dump": mon.Trunc(r.stderr, 3000)},
			})

			continue
		case r.timed:
			perVariant[v.Name] = "timed out"
			agg.Incon("program %q: watchdog fired and the goroutine dump does not show a deadlock", v.Name)

			continue
		}

		agg.Counters["programs-run"]++

		all := r.stdout + "\n" + r.stderr
		got := map[int]string{}

		for _, ln := range strings.Split(all, "\n") {
			var (
				i int
				s string
			)

			if n, _ := fmt.Sscanf(strings.TrimSpace(ln), "R%d=%s", &i, &s); n == 2 {
				got[i] = s
			}
		}

		if r.exit != "" || strings.Contains(r.stderr, "panic:") || strings.Contains(r.stderr, "DATA RACE") || got[-1] != "done" {
			perVariant[v.Name] = "FAILED: " + r.exit
			agg.ViolCount++
			agg.Violations = append(agg.Violations, mon.Violation{
				Property: p.ID,
				What:     fmt.Sprintf("program %q (imports %v, flags %v, run environment %v, execution %d) did not complete: exit %q, stderr: %s", v.Name, v.Imports, v.Flags, v.RunEnv, r.run, r.exit, mon.Trunc(strings.TrimSpace(r.stderr), 400)),
				Key:      "program-fails:" + v.Name,
				Case:     map[string]any{"variant": v.Name, "source": c17Source(v, inputs)},
			})

			continue
		}

		bad := 0

		agg.Evaluations += 651 // the sweep
		if got[-2] != sweepWant {
			bad++
			agg.ViolCount++
			agg.Violations = append(agg.Violations, mon.Violation{
				Property: p.ID,
				What:     fmt.Sprintf("program %q (execution %d): the digest of the three functions over every message length 0..520 is %s, the RFC 9380 values give %s", v.Name, r.run, mon.Trunc(got[-2], 40), sweepWant),
				Key:      "program-wrong-sweep:" + v.Name,
				Case:     map[string]any{"variant": v.Name},
			})
		}

		for i := range inputs {
			agg.Evaluations++

			if got[500+i] != expectedEdited[i] && bad == 0 {
				bad++
				agg.ViolCount++
				agg.Violations = append(agg.Violations, mon.Violation{
					Property: p.ID,
					What: fmt.Sprintf("program %q (execution %d): %s called twice on one tag buffer whose last byte was flipped in between printed %s for the second call, RFC 9380 value for the edited tag is %s", v.Name, r.run, inputs[i].Fn,
						mon.Trunc(got[500+i], 80), expectedEdited[i]),
					Key:  "program-wrong-value-edited-tag:" + v.Name,
					Case: map[string]any{"variant": v.Name, "input": inputs[i]},
				})
			}
		}

		for i := range inputs {
			for _, off := range []int{100, 200, 300, 400} {
				agg.Evaluations++

				if got[off+i] != expected[i] && bad == 0 {
					bad++
					agg.ViolCount++
					agg.Violations = append(agg.Violations, mon.Violation{
						Property: p.ID,
						What: fmt.Sprintf("program %q (execution %d): %s on a message and tag held in one buffer (layout %d, call %d of 2) printed %s, RFC 9380 value is %s", v.Name, r.run, inputs[i].Fn, (off+100)/200, 2-(off/100)%2,
							mon.Trunc(got[off+i], 80), expected[i]),
						Key:  "program-wrong-value-record:" + v.Name,
						Case: map[string]any{"variant": v.Name, "input": inputs[i]},
					})
				}
			}
		}

		for i := range inputs {
			agg.Evaluations++

			if got[i] != expected[i] {
				bad++

				if bad == 1 {
					agg.ViolCount++
					agg.Violations = append(agg.Violations, mon.Violation{
						Property: p.ID,
						What:     fmt.Sprintf("program %q (execution %d): %s(msg=%q, dst[%d]) printed %s, RFC 9380 value is %s", v.Name, r.run, inputs[i].Fn, inputs[i].Msg, len(inputs[i].Dst), mon.Trunc(got[i], 160), expected[i]),
						Key:      "program-wrong-value:" + v.Name,
						Case:     map[string]any{"variant": v.Name, "input": inputs[i]},
					})
				}
			} else {
				agg.Distinct++
			}
		}

		if bad == 0 {
			perVariant[v.Name] = "ok"
		} else {
			perVariant[v.Name] = fmt.Sprintf("%d wrong values", bad)
		}
	}

	agg.Extra["program_results"] = perVariant
	agg.Extra["programs"] = len(perVariant)
	agg.Extra["inputs_per_program"] = len(inputs)

	names := make([]string, 0, len(perVariant))
	for k := range perVariant {
		names = append(names, k)
	}

	sort.Strings(names)

	if len(results) > 0 {
		agg.Samples = append(agg.Samples, map[string]any{"program": results[0].v.Name, "source": c17Source(results[0].v, inputs[:2]), "observed_output_head": mon.Trunc(results[0].stdout+results[0].stderr, 300)})
	}

	if agg.Counters["programs-run"] < 5 && len(agg.Violations) == 0 {
		agg.Incon("only %d programs ran", agg.Counters["programs-run"])
	}

	return agg
}
