//go:build verif

package props

import (
	"bytes"
	"fmt"
	"math/big"

	"github.com/bytemare/secp256k1"
	"github.com/bytemare/secp256k1/internal/field"
	"github.com/bytemare/secp256k1/zz_verif/gen"
	"github.com/bytemare/secp256k1/zz_verif/mon"
	"github.com/bytemare/secp256k1/zz_verif/oracle"
)

// Concurrent batches for the properties that are not themselves about concurrency: 8 goroutines run the property's
// operations simultaneously on objects THEY OWN, every result judged against an expectation computed beforehand by
// the oracle. A library without package-level scratch state cannot tell the difference from sequential use.

const concJobs = 8

// concBatches submits n concurrent-batch cases built by mk (which receives the batch seed).
func concBatches(c *mon.Ctx, n int, mk func(seed uint64) any) {
	for b := 0; b < n; b++ {
		seed := c.Seed*100000 + uint64(b) + 1
		c.Structured(func() any { return mk(seed) })
	}
}

func concRng(id string, seed uint64) *gen.Rng { return gen.New(seed, id+"/concurrent") }

func c14RunConc(c *mon.Ctx, seed uint64) {
	r := concRng("C14", seed)

	var jobs []func() string

	for i := 0; i < concJobs; i++ {
		v := gen.Draw(r, oracle.N).X
		s := mon.Scal(v)
		jobs = append(jobs, func() string {
			b := s.Bits()
			for i := 0; i < 256; i++ {
				if uint(b[i]) != v.Bit(i) {
					return fmt.Sprintf("Bits()[%d]=%d for s=%x", i, b[i], v)
				}
			}

			return ""
		})
	}

	if c.RunConcurrent("Bits", "bits-concurrent", 2000, jobs) {
		c.Seen("conc", seed)
	}
}

func c13RunConc(c *mon.Ctx, seed uint64) {
	r := concRng("C13", seed)

	var jobs []func() string

	for i := 0; i < concJobs; i++ {
		a, b := gen.Draw(r, oracle.N).X, gen.Draw(r, oracle.N).X
		if i%3 == 0 {
			b = new(big.Int).Set(a)
		}

		s, t := mon.Scal(a), mon.Scal(b)
		le, eq := uint64(0), 0

		if a.Cmp(b) <= 0 {
			le = 1
		}

		if a.Cmp(b) == 0 {
			eq = 1
		}

		cond := r.U64() | 1
		jobs = append(jobs, func() string {
			if s.LessOrEqual(t) != le || s.Equal(t) != eq || s.IsZero() != (a.Sign() == 0) || s.IsOne() != (a.Cmp(big.NewInt(1)) == 0) {
				return fmt.Sprintf("comparison of %x and %x", a, b)
			}

			recv := secp256k1.NewScalar()
			if err := recv.CSelect(cond, s, t); err != nil || recv.S != t.S {
				return fmt.Sprintf("CSelect(%#x, %x, %x) = %x", cond, a, b, mon.ScalVal(recv))
			}

			return ""
		})
	}

	if c.RunConcurrent("scalar comparison / CSelect", "cmp-concurrent", 3000, jobs) {
		c.Seen("conc", seed)
	}
}

func c07RunConc(c *mon.Ctx, seed uint64) {
	r := concRng("C07", seed)

	var jobs []func() string

	for i := 0; i < concJobs; i++ {
		v := gen.Draw256(r, oracle.N).X
		in := oracle.Bytes32(v)
		accept := v.Cmp(oracle.N) < 0
		dec := i % 3
		jobs = append(jobs, func() string {
			s := mon.Scal(big.NewInt(77))

			var err error

			switch dec {
			case 0:
				err = s.Decode(in)
			case 1:
				err = s.UnmarshalBinary(in)
			default:
				err = s.DecodeHex(mon.H(in))
			}

			if (err == nil) != accept {
				return fmt.Sprintf("decode of %x: accepted=%v, want %v", v, err == nil, accept)
			}

			if accept && (mon.ScalVal(s).Cmp(v) != 0 || !bytes.Equal(s.Encode(), in) || s.Hex() != mon.H(in)) {
				return fmt.Sprintf("decode/encode of %x gives %x", v, mon.ScalVal(s))
			}

			return ""
		})
	}

	if c.RunConcurrent("scalar Decode/Encode", "scalar-codec-concurrent", 3000, jobs) {
		c.Seen("conc", seed)
	}
}

func c06RunConc(c *mon.Ctx, seed uint64) {
	r := concRng("C06", seed)
	n := oracle.N

	var jobs []func() string

	for i := 0; i < concJobs; i++ {
		a, b := gen.Draw(r, n).X, gen.Draw(r, n).X
		if a.Sign() == 0 {
			a = big.NewInt(3)
		}

		op := i % 4

		var want *big.Int

		switch op {
		case 0:
			want = new(big.Int).ModInverse(a, n)
		case 1:
			want = oracle.Mod(new(big.Int).Mul(a, b), n)
		case 2:
			want = new(big.Int).Exp(a, big.NewInt(5), n)
		default:
			want = oracle.Mod(new(big.Int).Sub(oracle.Mod(new(big.Int).Add(a, b), n), oracle.Mod(new(big.Int).Mul(b, b), n)), n)
		}

		jobs = append(jobs, func() string {
			s, t := mon.Scal(a), mon.Scal(b)

			switch op {
			case 0:
				s.Invert()
			case 1:
				s.Multiply(t)
			case 2:
				s.Pow(mon.Scal(big.NewInt(5)))
			default:
				s.Add(t).Subtract(t.Copy().Square())
			}

			if got := mon.ScalVal(s); got.Cmp(want) != 0 || !mon.ScalCanonical(s) {
				return fmt.Sprintf("op %d on (%x, %x) = %x, want %x", op, a, b, got, want)
			}

			return ""
		})
	}

	if c.RunConcurrent("scalar arithmetic (Invert/Multiply/Pow/Add/Subtract/Square)", "scalar-arith-concurrent", 400, jobs) {
		c.Seen("conc", seed)
	}
}

func c05RunConc(c *mon.Ctx, seed uint64) {
	r := concRng("C05", seed)

	var jobs []func() string

	for i := 0; i < concJobs; i++ {
		p := gen.Fresh(r)
		q := p

		if i%2 == 1 {
			q = gen.PV{P: oracle.Neg(p.P), Tag: "-P"}
		}

		want := 0
		if p.P.Equal(q.P) {
			want = 1
		}

		a, b := mon.Elem(p.P, gen.DrawRepr(r, false)), mon.Elem(q.P, gen.DrawRepr(r, false))
		jobs = append(jobs, func() string {
			if x, y := a.Equal(b), b.Equal(a); x != want || y != want {
				return fmt.Sprintf("Equal=%d/%d, want %d", x, y, want)
			}

			if a.IsIdentity() {
				return "IsIdentity true for a finite point"
			}

			return ""
		})
	}

	if c.RunConcurrent("Equal", "equal-concurrent", 5000, jobs) {
		c.Seen("conc", seed)
	}
}

func c04RunConc(c *mon.Ctx, seed uint64) {
	r := concRng("C04", seed)

	var jobs []func() string

	for i := 0; i < concJobs; i++ {
		p := gen.Fresh(r)
		e := mon.Elem(p.P, gen.DrawRepr(r, false))
		wc, wu := oracle.EncC(p.P), oracle.EncU(p.P)
		jobs = append(jobs, func() string {
			if got := e.Encode(); !bytes.Equal(got, wc) {
				return fmt.Sprintf("Encode=%s want %s", mon.H(got), mon.H(wc))
			}

			if got := e.EncodeUncompressed(); !bytes.Equal(got, wu) {
				return fmt.Sprintf("EncodeUncompressed=%s want %s", mon.H(got), mon.H(wu))
			}

			d := secp256k1.NewElement()
			if err := d.Decode(wc); err != nil || d.Equal(e) != 1 {
				return "Decode(Encode(P)) != P"
			}

			return ""
		})
	}

	if c.RunConcurrent("Encode / EncodeUncompressed / Decode round trip", "encode-concurrent", 800, jobs) {
		c.Seen("conc", seed)
	}
}

func c03RunConc(c *mon.Ctx, seed uint64) {
	r := concRng("C03", seed)

	var jobs []func() string

	for i := 0; i < concJobs; i++ {
		p := gen.Fresh(r).P
		in := oracle.EncC(p)

		switch i % 4 {
		case 1:
			in = oracle.EncU(p)
		case 2:
			in = append([]byte{2}, oracle.Bytes32(gen.Draw256(r, oracle.P).X)...)
		case 3:
			in = oracle.EncU(p)
			in[40] ^= 1
		}

		want, accept := oracle.DecodeRef(in, oracle.FormAny)
		jobs = append(jobs, func() string {
			e, pre := c03Pre(1)
			err := e.Decode(in)

			if (err == nil) != accept {
				return fmt.Sprintf("Decode(%s) accepted=%v, want %v", mon.H(in), err == nil, accept)
			}

			exp := pre
			if accept {
				exp = want
			}

			if v, ok := mon.RawValue(e); !ok || !v.Equal(exp) {
				return fmt.Sprintf("receiver holds %s after Decode(%s), want %s", v, mon.H(in), exp)
			}

			return ""
		})
	}

	if c.RunConcurrent("Decode", "decode-concurrent", 600, jobs) {
		c.Seen("conc", seed)
	}
}

func c02RunConc(c *mon.Ctx, seed uint64) {
	r := concRng("C02", seed)

	var jobs []func() string

	for i := 0; i < concJobs; i++ {
		p, q := gen.Fresh(r), gen.Fresh(r)
		a, b := mon.Elem(p.P, gen.DrawRepr(r, false)), mon.Elem(q.P, gen.DrawRepr(r, false))
		wAdd, wSub, wDbl, wNeg := oracle.EncC(oracle.Add(p.P, q.P)), oracle.EncC(oracle.Sub(p.P, q.P)), oracle.EncC(oracle.Dbl(p.P)), oracle.EncC(oracle.Neg(p.P))
		jobs = append(jobs, func() string {
			if !bytes.Equal(a.Copy().Add(b).Encode(), wAdd) || !bytes.Equal(a.Copy().Subtract(b).Encode(), wSub) ||
				!bytes.Equal(a.Copy().Double().Encode(), wDbl) || !bytes.Equal(a.Copy().Negate().Encode(), wNeg) {
				return "Add/Subtract/Double/Negate result differs from the group law"
			}

			return ""
		})
	}

	if c.RunConcurrent("Add / Subtract / Double / Negate", "grouplaw-concurrent", 500, jobs) {
		c.Seen("conc", seed)
	}
}

func c12RunConc(c *mon.Ctx, seed uint64) {
	r := concRng("C12", seed)
	p := oracle.P

	var jobs []func() string

	for i := 0; i < concJobs; i++ {
		av, bv := gen.Draw(r, p).X, gen.Draw(r, p).X
		if bv.Sign() == 0 {
			bv = big.NewInt(2)
		}

		a, b := mon.FE(av), mon.FE(bv)
		wInv := oracle.FInv0(av)
		wMul := oracle.FMul(av, bv)
		ratio := oracle.FMul(av, oracle.FInv0(bv))
		qr := oracle.FIsSquare(ratio)
		wBytes := oracle.Bytes32(av)
		jobs = append(jobs, func() string {
			if got := mon.FEVal(field.New().Invert(*a)); got.Cmp(wInv) != 0 {
				return fmt.Sprintf("Invert(%x) = %x", av, got)
			}

			if got := mon.FEVal(field.New().Multiply(a, b)); got.Cmp(wMul) != 0 {
				return fmt.Sprintf("Multiply(%x,%x) = %x", av, bv, got)
			}

			e, flag := field.New().SqrtRatio(a, b)
			lhs := oracle.FMul(oracle.FSqr(mon.FEVal(e)), bv)

			if (flag == 1) != qr || (qr && lhs.Cmp(av) != 0) || (!qr && lhs.Cmp(oracle.FMul(oracle.Z, av)) != 0) {
				return fmt.Sprintf("SqrtRatio(%x,%x) wrong", av, bv)
			}

			if !bytes.Equal(a.Bytes(), wBytes) || a.Sgn0() != uint64(av.Bit(0)) {
				return fmt.Sprintf("Bytes/Sgn0(%x) wrong", av)
			}

			return ""
		})
	}

	if c.RunConcurrent("field Invert / Multiply / SqrtRatio / Bytes / Sgn0", "field-concurrent", 300, jobs) {
		c.Seen("conc", seed)
	}
}
