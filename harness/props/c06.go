//go:build verif && (p_all || p_c06)

package props

import (
	"fmt"
	"math/big"

	"github.com/bytemare/secp256k1"
	"github.com/bytemare/secp256k1/zz_verif/gen"
	"github.com/bytemare/secp256k1/zz_verif/mon"
	"github.com/bytemare/secp256k1/zz_verif/oracle"
)

// C06 — scalar arithmetic is exact arithmetic modulo the group order.

type c06Case struct {
	// Conc != 0: a concurrent batch (8 goroutines on objects they own) derived from this seed; other fields unused.
	Conc uint64 `json:"concurrent_seed,omitempty"`
	Op    string `json:"op"` // add sub mul square invert pow setuint64 zero one minusone set copy
	S     string `json:"s"`
	T     string `json:"t,omitempty"` // hex, or "nil"
	Alias bool   `json:"alias,omitempty"`
	U     uint64 `json:"u,omitempty"`
	Class string `json:"class"`
	// Decoy: before the judged call, the same operation runs on another object holding the same value, whose result is
	// then modified in place (a memo keyed by value, or one that keeps a pointer to an earlier result, gives itself away).
	Decoy bool `json:"decoy,omitempty"`
	// Chain: a sequence of operations applied to ONE receiver, judged after every step (Op == "chain").
	Chain []c06Step `json:"chain,omitempty"`
	// SMove / TMove: the receiver resp. the operand is an object that reached its value through a move (mon/move.go):
	// built through the API, observed, driven through one mutator or misuse; S resp. T is then ignored.
	SMove *mon.ScalarMove `json:"receiver_move,omitempty"`
	TMove *mon.ScalarMove `json:"operand_move,omitempty"`
}

type c06Step struct {
	Op string `json:"op"`
	T  string `json:"t,omitempty"`
	U  uint64 `json:"u,omitempty"`
}

func init() {
	register(&mon.Prop{
		ID:      "C06",
		Flavour: "plain",
		Rule: "cases = (op, s, t, aliasing) with op in {Add,Subtract,Multiply,Square,Invert,Pow,SetUInt64,Zero,One,MinusOne,Set,Copy}: operands from the structured list mod n (0,1,2,n-1,n-2,(n±1)/2,2^k,2^k±1,n-2^k, " +
			"n with one limb perturbed, R mod n neighbourhood, bit patterns), Montgomery-domain structured values (stored limbs on carry boundaries), operand pairs whose stored forms sum/differ to n-1,n,n+1,2^256-1,2^256,2^256+1,0,1, " +
			"limb-structured 4-tuples, receiver aliased with the argument, nil arguments, PRNG cases. Oracle: math/big mod n (ModInverse, Exp); the stored limbs of the result must be < n and the argument's stored limbs bit-identical afterwards. " +
			"" +
			"History: (decoy) the same operation first runs on another object of equal value whose result is then changed in place; (chain) 12-step sequences of operations on one receiver, judged after every step, with arguments drawn from a small pool so that values and objects recur. " +
			"Operands and receivers also reach their values through every scalar move of mon/move.go (API-built starts, self-aliasing, argument of other / of panicking calls, havoc after rejected decodes). non-trivial = at least one operand not in {0,1}; distinct by the whole case. Plus concurrent batches: 8 goroutines run the operations simultaneously on objects they own, each result judged against the oracle.",
		NewCase:  func() any { return &c06Case{} },
		Generate: c06Generate,
		Run:      c06Run,
		Require: func(string) map[string]int64 {
			return map[string]int64{
				"op:add": 1000, "op:sub": 1000, "op:mul": 1000, "op:square": 300, "op:invert": 300, "op:pow": 300, "op:setuint64": 100,
				"alias": 300, "t:nil": 5, "invert:0": 1, "pow:t=0": 3, "pow:pad": 3, "class:carry-sum": 100, "class:carry-diff": 100, "class:mont-structured": 100, "decoy": 500, "chains": 200, "chain-steps": 2000,
			}
		},
	})

	Registry["C06"].ColdStart = func(c *mon.Ctx) { c06RunConc(c, c.Seed*7919+uint64(c.Shard)+1) }
}

func c06Generate(c *mon.Ctx) {
	concBatches(c, c.NConc(6, 300), func(seed uint64) any { return &c06Case{Conc: seed} })

	n := oracle.N
	st := gen.Structured(n)
	hx := func(v *big.Int) string { return fmt.Sprintf("%x", v) }

	// operands and receivers that reached their value through every move (built through the API, driven through a mutator,
	// used as the argument of other calls, of calls that panic, ...)
	mvr := c.SharedRng("moves")

	for rep := 0; rep < 3; rep++ {
		for vi, via := range mon.ScalarVias {
			op := []string{"add", "sub", "mul"}[(vi+rep)%3]
			tm, sm := mon.PlanScalarMove(via, mvr), mon.PlanScalarMove(via, mvr)
			other := hx(gen.Draw(mvr, n).X)
			c.Structured(func() any { return &c06Case{Op: op, S: other, TMove: &tm, Class: "moved-operand:" + tm.Via} })
			c.Structured(func() any { return &c06Case{Op: op, T: other, SMove: &sm, Class: "moved-receiver:" + sm.Via} })
		}
	}

	// small words made by SetUInt64 (and left alone since) multiplied into receivers whose STORED value sits next to
	// j*2^256/k: the product by the word k lands just above a multiple of 2^256
	for _, k := range []int64{2, 3, 5, 7, 9, 255, 65537} {
		fr := gen.FractionStored(n, k)
		for i := 0; i < len(fr); i += 1 + len(fr)/24 {
			recv := hx(oracle.FromMont(oracle.Limbs(fr[i]), n))
			tm := mon.ScalarMove{Via: "setuint64", From: hx(gen.Draw(mvr, n).X), To: hx(big.NewInt(k)), Aux: "1"}
			c.Structured(func() any { return &c06Case{Op: "mul", S: recv, TMove: &tm, Class: "word-operand-times-fraction-stored"} })
		}
	}

	// a soak: the same operation many hundred times in a row in one process (zero and non-zero operands), every result
	// checked: behaviour tied to a call counter (a health check on every 256th inversion that mistakes Invert(0) = 0 for a fault)
	c.Structured(func() any { return &c06Case{Op: "soak", S: hx(gen.Draw(mvr, n).X), Class: "soak"} })

	// unary ops on every structured value
	for _, v := range st {
		for _, op := range []string{"square", "invert", "set", "copy"} {
			op, s, cl := op, hx(v.X), v.Class
			c.Structured(func() any { return &c06Case{Op: op, S: s, T: s, Class: cl} })
		}
	}

	// binary ops: structured x a rotating selection of structured
	for i, v := range st {
		for j := 0; j < 6; j++ {
			w := st[(i*7+j*131+j)%len(st)]
			for _, op := range []string{"add", "sub", "mul"} {
				op, s, t, cl := op, hx(v.X), hx(w.X), v.Class
				c.Structured(func() any { return &c06Case{Op: op, S: s, T: t, Class: cl} })
			}
		}

		for _, op := range []string{"add", "sub", "mul", "pow"} {
			op, s, cl := op, hx(v.X), v.Class
			c.Structured(func() any { return &c06Case{Op: op, S: s, T: s, Alias: true, Class: cl} })
		}
	}

	// boundary x boundary, all pairs
	bnd := []*big.Int{big.NewInt(0), big.NewInt(1), big.NewInt(2), new(big.Int).Sub(n, big.NewInt(1)), new(big.Int).Sub(n, big.NewInt(2)),
		new(big.Int).Rsh(n, 1), new(big.Int).Add(new(big.Int).Rsh(n, 1), big.NewInt(1)), new(big.Int).Lsh(big.NewInt(1), 255), oracle.Mod(oracle.R, n)}
	for _, a := range bnd {
		for _, b := range bnd {
			for _, op := range []string{"add", "sub", "mul", "pow"} {
				op, s, t := op, hx(a), hx(b)
				c.Structured(func() any { return &c06Case{Op: op, S: s, T: t, Class: "boundary"} })
			}
		}

		for _, op := range []string{"add", "sub", "mul", "pow", "set"} {
			op, s := op, hx(a)
			c.Structured(func() any { return &c06Case{Op: op, S: s, T: "nil", Class: "nil"} })
		}

		for _, op := range []string{"zero", "one", "minusone"} {
			op, s := op, hx(a)
			c.Structured(func() any { return &c06Case{Op: op, S: s, Class: "const"} })
		}
	}

	// Pow: structured exponents and results with leading zero bytes (the re-padding branch)
	for _, e := range []*big.Int{big.NewInt(0), big.NewInt(1), big.NewInt(2), big.NewInt(3), new(big.Int).Sub(n, big.NewInt(1)), new(big.Int).Sub(n, big.NewInt(2)), new(big.Int).Rsh(n, 1)} {
		for _, b := range bnd {
			s, t := hx(b), hx(e)
			c.Structured(func() any { return &c06Case{Op: "pow", S: s, T: t, Class: "pow-structured"} })
		}
	}

	// results with leading zeros: s = small^(1/e) i.e. choose s = g^k and t with s^t small: use t = n-2 (inverse) of small numbers' inverses
	for k := int64(2); k < 40; k++ {
		inv := new(big.Int).ModInverse(big.NewInt(k), n)
		s, t := hx(inv), hx(new(big.Int).Sub(n, big.NewInt(2)))
		c.Structured(func() any { return &c06Case{Op: "pow", S: s, T: t, Class: "pow-small-result"} })
	}

	for _, u := range []uint64{0, 1, 2, 3, 1 << 31, 1 << 32, 1<<32 + 1, 1 << 63, ^uint64(0), ^uint64(0) - 1, 0xffffffff} {
		u := u
		c.Structured(func() any { return &c06Case{Op: "setuint64", S: "5", U: u, Class: "u64"} })
	}

	for k := 0; k < 64; k++ {
		u := uint64(1) << k
		c.Structured(func() any { return &c06Case{Op: "setuint64", S: "5", U: u, Class: "u64"} })
	}

	// limb-structured 4-tuples (thorough: all; quick: a stride)
	stride := c.N(13, 1)
	for i := 0; i < gen.NLimbTuples; i += stride {
		v := oracle.Mod(gen.LimbTuple(i), n)
		w := oracle.FromMont(oracle.Limbs(oracle.Mod(gen.LimbTuple((i*31+7)%gen.NLimbTuples), n)), n)

		for _, op := range []string{"add", "sub", "mul", "invert"} {
			op, s, t := op, hx(v), hx(w)
			c.Structured(func() any { return &c06Case{Op: op, S: s, T: t, Class: "limb-structured"} })
		}
	}

	c.Random(c.N(300000, 30000000), func(r *gen.Rng) any {
		ops := []string{"add", "sub", "mul", "add", "sub", "mul", "square", "invert", "pow", "setuint64", "set"}
		op := ops[r.Intn(len(ops))]

		if op == "pow" && r.Intn(4) != 0 {
			op = "mul" // Pow goes through big.Int.Exp and costs ~100x the others
		}

		var a, b gen.V
		if r.Intn(3) == 0 {
			a, b = gen.PairOnCarry(r, n)
		} else {
			a, b = gen.Draw(r, n), gen.Draw(r, n)
		}

		cs := &c06Case{Op: op, S: hx(a.X), T: hx(b.X), Class: a.Class}
		if op == "setuint64" {
			cs.U = r.U64() >> uint(r.Intn(64))
		}

		if r.Intn(8) == 0 {
			cs.Alias = true
			cs.T = cs.S
		}

		if r.Intn(6) == 0 {
			cs.Decoy = true
		}

		return cs
	})

	// decoys on the structured unary/binary operations
	for i, v := range st {
		for _, op := range []string{"invert", "square", "pow", "mul", "add"} {
			op, sv, tv, cl := op, hx(v.X), hx(st[(i*3+1)%len(st)].X), v.Class
			c.Structured(func() any { return &c06Case{Op: op, S: sv, T: tv, Class: cl, Decoy: true} })
		}
	}

	// chains
	chainOps := []string{"add", "sub", "mul", "square", "invert", "pow", "set", "setuint64", "zero", "one", "minusone", "decode", "cselect0", "cselect1", "random", "copy-back"}

	c.Random(c.N(1500, 150000), func(r *gen.Rng) any {
		poolVals := []string{hx(gen.Draw(r, n).X), hx(gen.Draw(r, n).X), "0", "1", "2", hx(new(big.Int).Sub(n, big.NewInt(1)))}
		cs := &c06Case{Op: "chain", S: poolVals[r.Intn(2)], Class: "chain"}

		for i := 0; i < 12; i++ {
			st := c06Step{Op: chainOps[r.Intn(len(chainOps))], T: poolVals[r.Intn(len(poolVals))], U: r.U64() >> uint(r.Intn(64))}
			if st.Op == "pow" {
				st.T = []string{"0", "1", "2", "3", hx(new(big.Int).Sub(n, big.NewInt(2)))}[r.Intn(5)]
			}

			if st.Op == "random" && st.T == "0" {
				st.T = "7"
			}

			cs.Chain = append(cs.Chain, st)
		}

		return cs
	})

	// and again at the end of the shard, when the process has a history behind it
	concBatches(c, c.NConc(4, 200), func(seed uint64) any { return &c06Case{Conc: seed + 50000} })
}

func c06RunChain(c *mon.Ctx, cs *c06Case) {
	n := oracle.N
	val := mon.BigH(cs.S)
	s := mon.Scal(val)
	m := func(x *big.Int) *big.Int { return oracle.Mod(x, n) }

	c.Count("chains")

	for i, st := range cs.Chain {
		var tv *big.Int
		if st.T != "" {
			tv = mon.BigH(st.T)
		}

		c.Count("chain-steps")
		c.Eval(1)

		pan, pv := mon.Call(func() {
			switch st.Op {
			case "add":
				s.Add(mon.Scal(tv))
				val = m(new(big.Int).Add(val, tv))
			case "sub":
				s.Subtract(mon.Scal(tv))
				val = m(new(big.Int).Sub(val, tv))
			case "mul":
				s.Multiply(mon.Scal(tv))
				val = m(new(big.Int).Mul(val, tv))
			case "square":
				s.Square()
				val = m(new(big.Int).Mul(val, val))
			case "invert":
				s.Invert()

				if val.Sign() != 0 {
					val = new(big.Int).ModInverse(val, n)
				}
			case "pow":
				s.Pow(mon.Scal(tv))

				if tv.Sign() == 0 {
					val = big.NewInt(1)
				} else {
					val = new(big.Int).Exp(val, tv, n)
				}
			case "set":
				s.Set(mon.Scal(tv))
				val = tv
			case "setuint64":
				s.SetUInt64(st.U)
				val = new(big.Int).SetUint64(st.U)
			case "zero":
				s.Zero()
				val = new(big.Int)
			case "one":
				s.One()
				val = big.NewInt(1)
			case "minusone":
				s.MinusOne()
				val = new(big.Int).Sub(n, big.NewInt(1))
			case "decode":
				if err := s.Decode(oracle.Bytes32(tv)); err != nil {
					panic("decode of a canonical value rejected: " + err.Error())
				}

				val = tv
			case "cselect0":
				_ = s.CSelect(0, mon.Scal(tv), s)
				val = tv
			case "cselect1":
				_ = s.CSelect(st.U|1, s, mon.Scal(tv))
				val = tv
			case "random":
				mon.ApplyScalarMove(s, mon.ScalarMove{Via: "random", From: "0", To: st.T, Aux: "0"})
				val = tv
			case "copy-back":
				// s = s.Copy(): the variable now designates a new object; the old one is then changed
				old := s
				s = s.Copy()
				old.Add(mon.Scal(big.NewInt(1)))
			default:
				panic("harness: unknown chain op " + st.Op)
			}
		})
		if pan {
			if ms, ok := pv.(string); ok && len(ms) > 8 && ms[:8] == "harness:" {
				panic(ms)
			}

			c.Fail(fmt.Sprintf("chain step %d (%s) panicked: %v", i, st.Op, pv), "scalar-chain-panic:"+st.Op, nil)

			return
		}

		if got := mon.ScalVal(s); got.Cmp(val) != 0 || !mon.ScalCanonical(s) {
			c.Fail(fmt.Sprintf("after step %d (%s %s) of a chain on one receiver the scalar is %x (stored %s), want %x", i, st.Op, st.T, got, mon.HexLimbs(s.S), val), "scalar-chain:"+st.Op, map[string]any{"step": i})
			return
		}
	}

	c.Seen(cs.S, cs.Chain)
}

func c06Run(c *mon.Ctx, csAny any) {
	cs := csAny.(*c06Case)

	if cs.Conc != 0 {
		c06RunConc(c, cs.Conc)
		return
	}
	n := oracle.N

	if cs.Op == "chain" {
		c06RunChain(c, cs)
		return
	}

	if cs.Decoy {
		c.Count("decoy")

		d := mon.Scal(mon.BigH(cs.S))

		var dt *secp256k1.Scalar
		if cs.T != "" && cs.T != "nil" {
			dt = mon.Scal(mon.BigH(cs.T))
		}

		_, _ = mon.Call(func() {
			switch cs.Op {
			case "add":
				d.Add(dt)
			case "sub":
				d.Subtract(dt)
			case "mul":
				d.Multiply(dt)
			case "square":
				d.Square()
			case "invert":
				d.Invert()
			case "pow":
				d.Pow(dt)
			default:
				d.Encode()
			}
			// change the decoy's result in place
			d.Multiply(mon.Scal(big.NewInt(3))).Add(mon.Scal(big.NewInt(1)))
		})
	}
	if cs.Op == "soak" {
		x := mon.BigH(cs.S)
		xi := new(big.Int).ModInverse(x, n)
		rounds := c.N(700, 70000)

		c.Count("soak")

		for i := 0; i < rounds; i++ {
			var z, y *secp256k1.Scalar

			pan, pv := mon.Call(func() {
				z = secp256k1.NewScalar().Invert()
				y = mon.Scal(x).Invert()
			})

			c.Eval(2)

			if pan {
				c.Fail(fmt.Sprintf("round %d of %d consecutive inversions (0 and a non-zero value alternating) panicked: %v", i, rounds, pv), "arith-soak-panic", nil)
				return
			}

			if !z.IsZero() || mon.ScalVal(y).Cmp(xi) != 0 {
				c.Fail(fmt.Sprintf("round %d of %d consecutive inversions: Invert(0) = %x, Invert(x) = %x want %x", i, rounds, mon.ScalVal(z), mon.ScalVal(y), xi), "arith-soak-value", nil)
				return
			}

			if i%3 == 0 {
				// and the other operations in between, so that the counters of each advance at different rates
				if v := mon.ScalVal(mon.Scal(x).Square().Multiply(mon.Scal(xi)).Multiply(mon.Scal(xi))); v.Cmp(big.NewInt(1)) != 0 {
					c.Fail(fmt.Sprintf("round %d: x^2 * x^-2 = %x", i, v), "arith-soak-value", nil)
					return
				}
			}
		}

		return
	}

	var (
		sv *big.Int
		s  *secp256k1.Scalar
	)

	if cs.SMove == nil {
		sv = mon.BigH(cs.S)
		s = mon.Scal(sv)
	} else {
		var (
			pan bool
			pv  any
		)

		s, sv, pan, pv = mon.MoveScalar(*cs.SMove, func(x *secp256k1.Scalar) { _, _ = x.Encode(), x.Bits() })
		if pan {
			c.Fail(fmt.Sprintf("scalar mutator %s panicked: %v", cs.SMove.Via, pv), "arith-history-panic", nil)
			return
		}

		c.Count("moved-receiver")
	}

	var (
		t  *secp256k1.Scalar
		tv *big.Int
	)

	switch {
	case cs.TMove != nil:
		var (
			pan bool
			pv  any
		)

		t, tv, pan, pv = mon.MoveScalar(*cs.TMove, func(x *secp256k1.Scalar) { _, _ = x.Encode(), x.Bits() })
		if pan {
			c.Fail(fmt.Sprintf("scalar mutator %s panicked: %v", cs.TMove.Via, pv), "arith-history-panic", nil)
			return
		}

		c.Count("moved-operand")
	case cs.Alias:
		t, tv = s, sv

		c.Count("alias")
	case cs.T == "nil":
		c.Count("t:nil")
	case cs.T != "":
		tv = mon.BigH(cs.T)
		t = mon.Scal(tv)
	}

	c.Count("op:" + cs.Op)
	c.Count("class:" + cs.Class)

	var before [4]uint64
	if t != nil {
		before = t.S
	}

	var (
		want *big.Int
		ret  *secp256k1.Scalar
		call func()
	)

	m := func(x *big.Int) *big.Int { return oracle.Mod(x, n) }

	switch cs.Op {
	case "add":
		want = sv
		if t != nil {
			want = m(new(big.Int).Add(sv, tv))
		}

		call = func() { ret = s.Add(t) }
	case "sub":
		want = sv
		if t != nil {
			want = m(new(big.Int).Sub(sv, tv))
		}

		call = func() { ret = s.Subtract(t) }
	case "mul":
		want = new(big.Int)
		if t != nil {
			want = m(new(big.Int).Mul(sv, tv))
		}

		call = func() { ret = s.Multiply(t) }
	case "square":
		want = m(new(big.Int).Mul(sv, sv))
		call = func() { ret = s.Square() }
		t = nil
	case "invert":
		want = new(big.Int)
		if sv.Sign() != 0 {
			want = new(big.Int).ModInverse(sv, n)
		} else {
			c.Count("invert:0")
		}

		call = func() { ret = s.Invert() }
		t = nil
	case "pow":
		if t == nil || tv.Sign() == 0 {
			want = big.NewInt(1)

			c.Count("pow:t=0")
		} else {
			want = new(big.Int).Exp(sv, tv, n)
		}

		if want.BitLen() <= 248 {
			c.Count("pow:pad")
		}

		call = func() { ret = s.Pow(t) }
	case "setuint64":
		want = new(big.Int).SetUint64(cs.U)
		call = func() { ret = s.SetUInt64(cs.U) }
		t = nil
	case "zero":
		want = new(big.Int)
		call = func() { ret = s.Zero() }
	case "one":
		want = big.NewInt(1)
		call = func() { ret = s.One() }
	case "minusone":
		want = new(big.Int).Sub(n, big.NewInt(1))
		call = func() { ret = s.MinusOne() }
	case "set":
		// receiver starts as something else
		s = mon.Scal(big.NewInt(0x1234567))
		if cs.Alias {
			t = s
			tv = big.NewInt(0x1234567)
		}

		want = new(big.Int)
		if t != nil {
			want = tv
		}

		call = func() { ret = s.Set(t) }
	case "copy":
		want = sv
		call = func() {
			ret = s.Copy()
			// independence: mutating the copy must not touch the source
			ret.Add(mon.Scal(big.NewInt(1)))
			if mon.ScalVal(s).Cmp(sv) != 0 {
				c.Fail("mutating a Copy changed its source", "copy-shares-storage", nil)
			}

			ret.Subtract(mon.Scal(big.NewInt(1)))
			s = ret
		}
		t = nil
	default:
		panic("harness: unknown op " + cs.Op)
	}

	c.Eval(1)

	if pan, pv := mon.Call(call); pan {
		c.Fail(fmt.Sprintf("%s panicked: %v", cs.Op, pv), "scalar-panic:"+cs.Op, nil)
		return
	}

	got := mon.ScalVal(s)
	if got.Cmp(want) != 0 {
		c.Fail(fmt.Sprintf("%s(%s, %s) = %x, want %x", cs.Op, cs.S, cs.T, got, want), "scalar-value:"+cs.Op, nil)
	}

	if !mon.ScalCanonical(s) {
		c.Fail(fmt.Sprintf("%s left a non-canonical stored value %s", cs.Op, mon.HexLimbs(s.S)), "scalar-noncanonical:"+cs.Op, nil)
	}

	if ret != nil && ret != s && mon.ScalVal(ret).Cmp(want) != 0 {
		c.Fail(fmt.Sprintf("%s returned a scalar with value %x, want %x", cs.Op, mon.ScalVal(ret), want), "scalar-return:"+cs.Op, nil)
	}

	if t != nil && t != s && t.S != before {
		c.Fail(fmt.Sprintf("%s modified its argument", cs.Op), "scalar-arg-modified:"+cs.Op, nil)
	}

	one := big.NewInt(1)
	if sv.Cmp(one) > 0 || (tv != nil && tv.Cmp(one) > 0) {
		c.Seen(cs.Op, cs.S, cs.T, cs.Alias, cs.U)

		if c.WantSample() && cs.Class == "carry-sum" {
			c.Sample(map[string]any{"case": cs, "expected": fmt.Sprintf("%064x", want), "observed": fmt.Sprintf("%064x", got), "stored_limbs": mon.HexLimbs(s.S)})
		}
	}
}

func c06RunConc(c *mon.Ctx, seed uint64) {
	r := concRng("C06", seed)
	n := oracle.N

	var jobs []func() string

	for i := 0; i < concJobs; i++ {
		a, b := gen.Draw(r, n).X, gen.Draw(r, n).X
		if a.Sign() == 0 {
			a = big.NewInt(3)
		}

		op := i % 4

		var want *big.Int

		switch op {
		case 0:
			want = new(big.Int).ModInverse(a, n)
		case 1:
			want = oracle.Mod(new(big.Int).Mul(a, b), n)
		case 2:
			want = new(big.Int).Exp(a, big.NewInt(5), n)
		default:
			want = oracle.Mod(new(big.Int).Sub(oracle.Mod(new(big.Int).Add(a, b), n), oracle.Mod(new(big.Int).Mul(b, b), n)), n)
		}

		jobs = append(jobs, func() string {
			s, t := mon.Scal(a), mon.Scal(b)

			switch op {
			case 0:
				s.Invert()
			case 1:
				s.Multiply(t)
			case 2:
				s.Pow(mon.Scal(big.NewInt(5)))
			default:
				s.Add(t).Subtract(t.Copy().Square())
			}

			if got := mon.ScalVal(s); got.Cmp(want) != 0 || !mon.ScalCanonical(s) {
				return fmt.Sprintf("op %d on (%x, %x) = %x, want %x", op, a, b, got, want)
			}

			return ""
		})
	}

	if c.RunConcurrent("scalar arithmetic (Invert/Multiply/Pow/Add/Subtract/Square)", "scalar-arith-concurrent", 400, jobs) {
		c.Seen("conc", seed)
	}
}
