//go:build verif

package props

import (
	"bytes"
	"fmt"
	"runtime"
	"strings"
	"sync"

	"github.com/bytemare/secp256k1"
	"github.com/bytemare/secp256k1/zz_verif/gen"
	"github.com/bytemare/secp256k1/zz_verif/mon"
	"github.com/bytemare/secp256k1/zz_verif/oracle"
)

// Helpers shared by several property files. Nothing here refers to the internal packages of the module under test, so
// that an edit of those packages can only break the build of the checks that are about them (each cNN.go is compiled
// only into the binary of its own check, see the build tags).

var (
	h2cMsgLens = []int{0, 1, 2, 31, 32, 33, 54, 55, 56, 57, 63, 64, 65, 118, 119, 120, 121, 127, 128, 129, 255, 256, 1000}
	h2cDstLens = []int{1, 2, 15, 16, 17, 31, 32, 33, 49, 63, 64, 65, 127, 128, 200, 253, 254, 255, 256, 257, 258, 300, 511, 512, 1000}
	// DST lengths at which a length kept in 16 (or 8) bits wraps
	h2cHugeDstLens = []int{65535, 65536, 65537, 65551, 65791, 65792, 131072, 131088, 196863}
	h2cLayouts = []string{"exact", "spare1", "spare8", "spare64", "interior", "overlap", "adjacent"}
)

type h2cCase struct {
	Fn     string `json:"fn"` // H2G | E2G | H2S
	Msg    string `json:"msg"`
	Dst    string `json:"dst"`
	NilMsg bool   `json:"nil_msg,omitempty"`
	NilDst bool   `json:"nil_dst,omitempty"`
	Layout string `json:"layout"` // exact | spare1 | spare8 | spare64 | interior
	Class  string `json:"class"`
	// Reuse: a sequence of calls whose message / DST are written, one after the other, into the SAME two buffers
	// (same address, same or different length): what a cache keyed on slice identity cannot tell apart.
	Reuse []h2cPair `json:"reuse,omitempty"`
	// Conc: calls executed simultaneously, one goroutine each, on buffers they own.
	Conc []h2cPair `json:"concurrent,omitempty"`
	// Seq: consecutive calls on fresh buffers, possibly of different functions (Fn of each pair): pairs that collide when
	// message and tag are concatenated without unambiguous framing, the same tag used with different output lengths, very
	// short tags. What a memo, a per-tag cache or a shared table keyed too coarsely cannot tell apart.
	Seq []h2cPair `json:"sequence,omitempty"`
	// Uniform (Fn == "pipeline"): chosen expander output (48 or 96 bytes) pushed through the library's own reduction, map
	// and isogeny steps, i.e. everything of hash_to_curve after the hash. Hashing cannot steer these bytes; choosing them
	// reaches the thin sets on which the reduction or the map may err.
	Uniform string `json:"uniform,omitempty"`
}

type h2cPair struct {
	Msg string `json:"msg"`
	Dst string `json:"dst"`
	// Fn (Seq only): the function of this call; calls of functions the property is not about are made but not judged.
	Fn string `json:"fn,omitempty"`
}

// layoutSlice places content inside a larger backing array according to the layout name.
func layoutSlice(content []byte, layout string, fill byte) (s []byte, backing []byte) {
	pre, spare := 0, 0

	switch layout {
	case "overlap", "adjacent":
		spare = 8
	case "spare1":
		spare = 1
	case "spare8":
		spare = 8
	case "spare64":
		spare = 64
	case "interior":
		pre, spare = 13, 29
	}

	backing = bytes.Repeat([]byte{fill}, pre+len(content)+spare+7)
	copy(backing[pre:], content)
	s = backing[pre : pre+len(content) : pre+len(content)+spare]

	return s, backing
}

func h2cGenerate(c *mon.Ctx, fns []string, nq, nt int) {
	pat := func(n int, seed byte) []byte {
		b := make([]byte, n)
		for i := range b {
			b[i] = byte(i*7+3) ^ seed
		}

		return b
	}

	k := 0

	for _, ml := range h2cMsgLens {
		for _, dl := range h2cDstLens {
			// a sparse but complete-in-each-dimension product
			if !(ml == 0 || ml == 64 || dl == 16 || dl == 255 || dl == 256 || (ml+dl)%5 == 0) {
				continue
			}

			for _, fn := range fns {
				k++
				cs := &h2cCase{Fn: fn, Msg: mon.H(pat(ml, 0x11)), Dst: mon.H(pat(dl, 0x5a)), Layout: h2cLayouts[k%len(h2cLayouts)], Class: "lengths"}
				c.Structured(func() any { return cs })
			}
		}
	}

	for _, fn := range fns {
		fn := fn
		big64k := mon.H(pat(65536, 0x77))
		c.Structured(func() any { return &h2cCase{Fn: fn, Msg: big64k, Dst: mon.H([]byte("verif-64k-message-dst")), Layout: "exact", Class: "msg-64k"} })
		c.Structured(func() any { return &h2cCase{Fn: fn, NilMsg: true, Dst: mon.H([]byte("verif-nil-message-dst")), Layout: "exact", Class: "nil-msg"} })
		c.Structured(func() any { return &h2cCase{Fn: fn, Msg: "", Dst: mon.H([]byte("verif-nil-message-dst")), Layout: "spare8", Class: "empty-msg"} })
		c.Structured(func() any { return &h2cCase{Fn: fn, Msg: "616263", NilDst: true, Layout: "exact", Class: "nil-dst"} })
		c.Structured(func() any { return &h2cCase{Fn: fn, Msg: "616263", Dst: "", Layout: "exact", Class: "empty-dst"} })
		c.Structured(func() any { return &h2cCase{Fn: fn, Msg: "616263", Dst: "", Layout: "spare8", Class: "empty-dst"} })

		for _, suite := range []string{"QUUX-V01-CS02-with-secp256k1_XMD:SHA-256_SSWU_RO_", "QUUX-V01-CS02-with-secp256k1_XMD:SHA-256_SSWU_NU_", secp256k1.H2CSECP256K1, secp256k1.E2CSECP256K1} {
			for _, m := range []string{"", "abc", "abcdef0123456789"} {
				for _, lay := range h2cLayouts {
					cs := &h2cCase{Fn: fn, Msg: mon.H([]byte(m)), Dst: mon.H([]byte(suite)), Layout: lay, Class: "suite-dst"}
					c.Structured(func() any { return cs })
				}
			}
		}
	}

	for i, dl := range h2cHugeDstLens {
		for _, fn := range fns {
			cs := &h2cCase{Fn: fn, Msg: mon.H(pat(i, 0x19)), Dst: mon.H(pat(dl, byte(0x40+i))), Layout: "exact", Class: "huge-dst"}
			c.Structured(func() any { return cs })
		}
	}

	// buffer reuse
	rr := c.SharedRng("reuse")

	for i := 0; i < 160; i++ {
		fn := fns[i%len(fns)]
		dl := []int{16, 49, 255, 256, 300, 1, 32, 600}[i%8]
		cs := &h2cCase{Fn: fn, Layout: h2cLayouts[i%len(h2cLayouts)], Class: "reuse"}

		for j := 0; j < 3+i%2; j++ {
			l := dl
			if i%5 == 4 && j == 1 {
				l = dl + 1 // a different length in between
			}

			m := rr.Bytes(8)
			if j > 0 && i%3 == 0 {
				m = mon.UnH(cs.Reuse[0].Msg) // same message, only the DST changes
			}

			cs.Reuse = append(cs.Reuse, h2cPair{Msg: mon.H(m), Dst: mon.H(rr.Bytes(l))})
		}

		if i%4 == 0 {
			cs.Reuse = append(cs.Reuse, cs.Reuse[0]) // and back to the first content
		}

		c.Structured(func() any { return cs })
	}

	for _, cs := range h2cExtraCases(c, fns) {
		cs := cs
		c.Structured(func() any { return cs })
	}

	// concurrent batches
	for b := 0; b < c.N(8, 400); b++ {
		cs := &h2cCase{Fn: fns[b%len(fns)], Layout: "exact", Class: "concurrent"}

		// more goroutines than cores, so that some are descheduled in the middle of a call
		for g := 0; g < 40; g++ {
			dl := []int{20, 300, 255, 256, 700, 16, 300, 49}[g%8]
			if b%2 == 1 {
				dl = []int{300, 300, 400, 400, 300, 256, 257, 1000}[g%8] // several different oversize DSTs at once
			}

			cs.Conc = append(cs.Conc, h2cPair{Msg: mon.H(rr.Bytes(5 + g)), Dst: mon.H(rr.Bytes(dl))})
		}

		c.Structured(func() any { return cs })
	}

	c.Random(c.N(nq, nt), func(r *gen.Rng) any {
		ml := h2cMsgLens[r.Intn(len(h2cMsgLens))]
		if r.Bool() {
			ml = r.Intn(200)
		}

		dl := h2cDstLens[r.Intn(len(h2cDstLens))]
		if r.Intn(3) == 0 {
			dl = 1 + r.Intn(300)
		}

		return &h2cCase{Fn: fns[r.Intn(len(fns))], Msg: mon.H(r.Bytes(ml)), Dst: mon.H(r.Bytes(dl)), Layout: h2cLayouts[r.Intn(len(h2cLayouts))], Class: "random"}
	})
}

// h2cExtraCases: the length sweep and the call sequences, shared by C08 and C09 (which wraps them).
func h2cExtraCases(c *mon.Ctx, fns []string) []*h2cCase {
	var out []*h2cCase

	pat := func(n int, seed byte) []byte {
		b := make([]byte, n)
		for i := range b {
			b[i] = byte(i*7+3) ^ seed
		}

		return b
	}

	rr := c.SharedRng("sequences")

	// every message length 0..520 against four tag lengths: total lengths msg+tag cross every block / buffer boundary
	for ml := 0; ml <= 520; ml++ {
		for di, dl := range []int{49, 16, 255, 256} {
			if di >= 2 && ml%4 != 0 {
				continue
			}

			cs := &h2cCase{Fn: fns[(ml+di)%len(fns)], Msg: mon.H(pat(ml, 0x21)), Dst: mon.H(pat(dl, 0x6b)), Layout: h2cLayouts[(ml+di)%len(h2cLayouts)], Class: "length-sweep"}
			out = append(out, cs)
		}
	}

	// sequences across functions and colliding framings
	all3 := []string{"H2G", "E2G", "H2S"}

	for i := 0; i < c.N(240, 4000); i++ {
		cs := &h2cCase{Fn: fns[i%len(fns)], Layout: "exact", Class: "sequence"}
		fn := fns[i%len(fns)]

		switch i % 6 {
		case 0:
			// tag || len(tag) || msg collides: (A, M) and (A || len(A) || M[:j], M[j+1:]) with M[j] = len(A)+1+j
			a, j := 1+rr.Intn(5), rr.Intn(4)
			A := rr.Bytes(a)
			M := append(append(rr.Bytes(j), byte(a+1+j)), rr.Bytes(1+rr.Intn(6))...)
			d2 := append(append(append([]byte{}, A...), byte(a)), M[:j]...)
			p1, p2 := h2cPair{Fn: fn, Msg: mon.H(M), Dst: mon.H(A)}, h2cPair{Fn: fn, Msg: mon.H(M[j+1:]), Dst: mon.H(d2)}
			cs.Seq = []h2cPair{p1, p2, p1}

			if i%12 == 6 {
				cs.Seq = []h2cPair{p2, p1, p2}
			}
		case 1:
			// msg || tag (and tag || msg) collide: one byte string split at two places
			B := rr.Bytes(10 + rr.Intn(8))
			s1, s2 := 2+rr.Intn(3), 6+rr.Intn(3)
			p1, p2 := h2cPair{Fn: fn, Msg: mon.H(B[:s1]), Dst: mon.H(B[s1:])}, h2cPair{Fn: fn, Msg: mon.H(B[:s2]), Dst: mon.H(B[s2:])}
			q1, q2 := h2cPair{Fn: fn, Msg: mon.H(B[s1:]), Dst: mon.H(B[:s1])}, h2cPair{Fn: fn, Msg: mon.H(B[s2:]), Dst: mon.H(B[:s2])}
			cs.Seq = []h2cPair{p1, p2, q1, q2}
		case 2:
			// the same tag with every function, in every order (output lengths 96 and 48 under one tag)
			d := rr.Bytes([]int{1, 2, 3, 16, 49, 255, 256, 300}[rr.Intn(8)])
			m := rr.Bytes(rr.Intn(20))
			o := rr.Intn(3)

			for k := 0; k < 4; k++ {
				cs.Seq = append(cs.Seq, h2cPair{Fn: all3[(o+k)%3], Msg: mon.H(m), Dst: mon.H(d)})
			}

			cs.Seq = append(cs.Seq, h2cPair{Fn: fn, Msg: mon.H(m), Dst: mon.H(d)})
		case 3:
			// very short tags first, then ordinary ones
			for k := 0; k < 3; k++ {
				cs.Seq = append(cs.Seq, h2cPair{Fn: all3[k], Msg: mon.H(rr.Bytes(3)), Dst: mon.H(rr.Bytes(1 + (i/6+k)%3))})
			}

			for k := 0; k < 3; k++ {
				cs.Seq = append(cs.Seq, h2cPair{Fn: fn, Msg: mon.H(rr.Bytes(3 + k)), Dst: mon.H(rr.Bytes([]int{20, 49, 300}[k]))})
			}
		case 4:
			// identical call repeated, then the same message under another tag and the same tag with another message
			m, d := rr.Bytes(5+rr.Intn(40)), rr.Bytes(16+rr.Intn(40))
			p := h2cPair{Fn: fn, Msg: mon.H(m), Dst: mon.H(d)}
			cs.Seq = []h2cPair{p, p, {Fn: fn, Msg: mon.H(m), Dst: mon.H(rr.Bytes(len(d)))}, p, {Fn: fn, Msg: mon.H(rr.Bytes(len(m))), Dst: mon.H(d)}, p}
		default:
			// tags that differ only in their last byte / only in length (one a prefix of the other), messages likewise
			d := rr.Bytes(20 + rr.Intn(30))
			d2 := append([]byte{}, d...)
			d2[len(d2)-1] ^= 1
			m := rr.Bytes(10)
			cs.Seq = []h2cPair{{Fn: fn, Msg: mon.H(m), Dst: mon.H(d)}, {Fn: fn, Msg: mon.H(m), Dst: mon.H(d2)}, {Fn: fn, Msg: mon.H(m), Dst: mon.H(d[:len(d)-1])}, {Fn: fn, Msg: mon.H(m[:9]), Dst: mon.H(d)},
				{Fn: fn, Msg: mon.H(append(append([]byte{}, m...), 0)), Dst: mon.H(d)}, {Fn: fn, Msg: mon.H(m), Dst: mon.H(d)}}
		}

		out = append(out, cs)
	}

	// mixed concurrent batches: the three functions (96- and 48-byte expansions) at the same time, some on long messages
	for b := 0; b < c.N(6, 200); b++ {
		cs := &h2cCase{Fn: fns[b%len(fns)], Layout: "exact", Class: "concurrent-mixed"}

		for g := 0; g < 24; g++ {
			ml := []int{5, 40, 4096, 70000, 200, 9}[g%6]
			cs.Conc = append(cs.Conc, h2cPair{Fn: all3[(g+b)%3], Msg: mon.H(rr.Bytes(ml)), Dst: mon.H(rr.Bytes([]int{20, 49, 300, 16}[g%4]))})
		}

		out = append(out, cs)
	}

	// tags that begin like strings the RFC (or the library) reserves, and tags made of one repeated byte
	for i, pre := range []string{"H2C-OVERSIZE-DST-", "H2C-OVERSIZE-DST-QUUX-V01-CS02-with-secp256k1_XMD:SHA-256_SSWU_RO_", "QUUX-V01-CS02-with-", "secp256k1_XMD:SHA-256_SSWU_RO_", "secp256k1_XMD:SHA-256_SSWU_NU_suffix"} {
		for j, fn := range fns {
			out = append(out, &h2cCase{Fn: fn, Msg: mon.H(rr.Bytes(7 + i)), Dst: mon.H([]byte(pre)), Layout: h2cLayouts[(i+j)%len(h2cLayouts)], Class: "reserved-prefix"})
		}
	}

	for i, b := range []byte{0x00, 0xff, 0x20, 'A', 0x80} {
		for j, n := range []int{1, 16, 33, 255, 256} {
			out = append(out, &h2cCase{Fn: fns[(i+j)%len(fns)], Msg: mon.H(rr.Bytes(3)), Dst: mon.H(bytes.Repeat([]byte{b}, n)), Layout: "exact", Class: "uniform-tag"})
		}
	}

	// the package's own exported suite identifiers as tags, for every function
	for i, suite := range []string{secp256k1.H2CSECP256K1, secp256k1.E2CSECP256K1} {
		for j, fn := range fns {
			for k, m := range []string{"", "abc", "a longer message for the suite identifiers"} {
				out = append(out, &h2cCase{Fn: fn, Msg: mon.H([]byte(m)), Dst: mon.H([]byte(suite)), Layout: h2cLayouts[(i+j+k)%len(h2cLayouts)], Class: "suite-constant"})
			}
		}
	}

	return out
}

// h2cInputs materialises the case's slices.
func h2cInputs(cs *h2cCase, fill byte) (msg, dst, msgBack, dstBack []byte) {
	if cs.Layout == "overlap" && !cs.NilMsg && !cs.NilDst {
		// message and DST are overlapping windows of ONE caller buffer: dst = buf[:d], msg = buf[d/2 : d/2+m]
		d, m := mon.UnH(cs.Dst), mon.UnH(cs.Msg)
		buf := make([]byte, len(d)+len(m)+32)
		copy(buf, d)
		// the message content is whatever the window shows (its first bytes are the DST's tail)
		copy(buf[len(d):], m)
		dst = buf[:len(d)]
		msg = buf[len(d)/2 : len(d)/2+len(m)]

		return msg, dst, buf, buf
	}

	if cs.Layout == "adjacent" && !cs.NilMsg && !cs.NilDst {
		// message and DST are adjacent windows of ONE caller buffer: msg = buf[:m] (its capacity runs over the DST),
		// dst = buf[m:]
		d, m := mon.UnH(cs.Dst), mon.UnH(cs.Msg)
		buf := make([]byte, 0, len(d)+len(m)+16)
		buf = append(append(buf, m...), d...)
		msg = buf[:len(m)]
		dst = buf[len(m):len(m)+len(d)]

		return msg, dst, buf[:cap(buf)], buf[:cap(buf)]
	}

	if !cs.NilMsg {
		msg, msgBack = layoutSlice(mon.UnH(cs.Msg), cs.Layout, fill)
	}

	if !cs.NilDst {
		dst, dstBack = layoutSlice(mon.UnH(cs.Dst), cs.Layout, fill^0xff)
	}

	return
}

// h2cCallBytes runs fn and returns the bytes that identify the result (compressed point or scalar encoding).
func h2cCallBytes(fn string, m, d []byte) []byte {
	switch fn {
	case "H2G":
		return secp256k1.HashToGroup(m, d).Encode()
	case "E2G":
		return secp256k1.EncodeToGroup(m, d).Encode()
	default:
		return secp256k1.HashToScalar(m, d).Encode()
	}
}

func h2cWant(fn string, m, d []byte) []byte {
	switch fn {
	case "H2G":
		p, _ := oracle.HashToCurve(m, d)
		return oracle.EncC(p)
	case "E2G":
		p, _ := oracle.EncodeToCurve(m, d)
		return oracle.EncC(p)
	default:
		return oracle.Bytes32(oracle.HashToScalar(m, d))
	}
}

// h2cRunHistory handles the buffer-reuse and concurrent kinds for all three hashing functions; it reports whether
// the case was of one of those kinds.
func h2cRunHistory(c *mon.Ctx, cs *h2cCase) bool {
	switch {
	case len(cs.Seq) > 0:
		c.Count("sequences")

		judged := map[string]bool{cs.Fn: true}
		if cs.Fn == "H2G" || cs.Fn == "E2G" {
			judged["H2G"], judged["E2G"] = true, true
		}

		for i, p := range cs.Seq {
			m, d := mon.UnH(p.Msg), mon.UnH(p.Dst)

			c.Eval(1)
			c.Count("sequence-calls")

			var got []byte

			if pan, pv := mon.Call(func() { got = h2cCallBytes(p.Fn, m, d) }); pan {
				c.Fail(fmt.Sprintf("%s panicked at call %d of a sequence of hashing calls (msg[%d], dst[%d]): %v", p.Fn, i, len(m), len(d), pv), "h2c-sequence-panic", nil)
				return true
			}

			if !judged[p.Fn] {
				continue
			}

			if want := h2cWant(p.Fn, m, d); !bytes.Equal(got, want) {
				c.Fail(fmt.Sprintf("%s: call %d of a sequence of hashing calls on fresh buffers (msg=%s, dst=%s) returned %s, RFC 9380 value is %s; the sequence: %v", p.Fn, i, mon.Trunc(p.Msg, 40), mon.Trunc(p.Dst, 40), mon.H(got), mon.H(want), cs.Seq),
					"h2c-sequence:"+p.Fn, map[string]any{"call": i})
				return true
			}
		}

		c.Seen(cs.Seq)

		return true
	case len(cs.Reuse) > 0:
		c.Count("reuse-sequences")

		maxM, maxD := 0, 0
		for _, p := range cs.Reuse {
			maxM, maxD = max(maxM, len(p.Msg)/2), max(maxD, len(p.Dst)/2)
		}

		_, mback := layoutSlice(make([]byte, maxM), cs.Layout, 0x5a)
		_, dback := layoutSlice(make([]byte, maxD), cs.Layout, 0xa5)
		pre := 0
		if cs.Layout == "interior" {
			pre = 13
		}

		for i, p := range cs.Reuse {
			mb, db := mon.UnH(p.Msg), mon.UnH(p.Dst)
			copy(mback[pre:], mb)
			copy(dback[pre:], db)
			m := mback[pre : pre+len(mb) : pre+len(mb)]
			d := dback[pre : pre+len(db) : pre+len(db)]

			c.Eval(1)
			c.Count("reuse-calls")

			var got []byte

			if pan, pv := mon.Call(func() { got = h2cCallBytes(cs.Fn, m, d) }); pan {
				c.Fail(fmt.Sprintf("%s panicked at call %d of a buffer-reuse sequence: %v", cs.Fn, i, pv), "h2c-reuse-panic", nil)
				return true
			}

			if want := h2cWant(cs.Fn, mb, db); !bytes.Equal(got, want) {
				c.Fail(fmt.Sprintf("%s: call %d of a sequence that rewrites the same message/DST buffers in place (msg[%d], dst[%d]) returned %s, RFC 9380 value is %s", cs.Fn, i, len(mb), len(db), mon.H(got), mon.H(want)),
					"h2c-buffer-reuse:"+cs.Fn, map[string]any{"call": i})
				return true
			}
		}

		c.Seen(cs.Fn, cs.Reuse, cs.Layout)

		return true
	case len(cs.Conc) > 0:
		c.Count("concurrent-batches")

		type job struct {
			m, d, want, got []byte
			fn              string
			pan             any
		}

		jobs := make([]*job, len(cs.Conc))
		for i, p := range cs.Conc {
			jobs[i] = &job{m: mon.UnH(p.Msg), d: mon.UnH(p.Dst), fn: cs.Fn}
			if p.Fn != "" {
				jobs[i].fn = p.Fn // a mixed batch: the three functions (two output lengths) run at the same time
			}

			jobs[i].want = h2cWant(jobs[i].fn, jobs[i].m, jobs[i].d)
		}

		line := mon.StartLine(len(jobs))

		var wg sync.WaitGroup

		for _, j := range jobs {
			wg.Add(1)

			go func(j *job) {
				defer wg.Done()
				defer func() { j.pan = recover() }()
				line()

				for rep := 0; rep < 60; rep++ {
					j.got = h2cCallBytes(j.fn, j.m, j.d)
					if !bytes.Equal(j.got, j.want) {
						return
					}

					if rep%7 == 3 {
						runtime.Gosched()
					}
				}
			}(j)
		}

		wg.Wait()

		for i, j := range jobs {
			c.Eval(60)

			if j.pan != nil {
				c.Fail(fmt.Sprintf("%s panicked when %d goroutines hashed simultaneously on their own buffers: %v", cs.Fn, len(jobs), j.pan), "h2c-concurrent-panic", nil)
				return true
			}

			if !bytes.Equal(j.got, j.want) {
				c.Fail(fmt.Sprintf("%s wrong when %d goroutines hash simultaneously on buffers they own (job %d, dst[%d]): %s, RFC 9380 value is %s", j.fn, len(jobs), i, len(j.d), mon.H(j.got), mon.H(j.want)), "h2c-concurrent-value:"+cs.Fn, nil)
				return true
			}
		}

		c.Seen(cs.Fn, cs.Conc)

		return true
	}

	return false
}

func strictHex(s string) ([]byte, bool, bool) {
	if len(s)%2 != 0 {
		return nil, false, false
	}

	upper := false
	out := make([]byte, len(s)/2)

	for i := 0; i < len(s); i++ {
		var v byte

		ch := s[i]

		switch {
		case ch >= '0' && ch <= '9':
			v = ch - '0'
		case ch >= 'a' && ch <= 'f':
			v = ch - 'a' + 10
		case ch >= 'A' && ch <= 'F':
			v = ch - 'A' + 10
			upper = true
		default:
			return nil, false, false
		}

		if i%2 == 0 {
			out[i/2] = v << 4
		} else {
			out[i/2] |= v
		}
	}

	return out, true, upper
}

const concJobs = 16

// concBatches submits n concurrent-batch cases built by mk (which receives the batch seed).
func concBatches(c *mon.Ctx, n int, mk func(seed uint64) any) {
	for b := 0; b < n; b++ {
		seed := c.Seed*100000 + uint64(b) + 1
		c.Structured(func() any { return mk(seed) })
	}
}

func concRng(id string, seed uint64) *gen.Rng { return gen.New(seed, id+"/concurrent") }

// Kept outputs. A value the API handed out (a byte slice, a string) belongs to the caller from then on: nothing the
// library does later, and nothing the caller does with ANOTHER value it was handed, may change it. keep records an
// output together with a private copy; check first writes into the spare capacity of every kept slice (what
// append(b, ...) does when cap(b) > len(b)) and then compares every kept value with its copy. Slices carved out of one
// slab without a capacity cap, strings that alias a recycled buffer and memo entries handed out by reference all show here.
type keptOut struct {
	what string
	b    []byte
	s    string
	want string
}

type keptSet struct{ l []keptOut }

func (ks *keptSet) keep(what string, b []byte, s string) {
	k := keptOut{what: what, b: b, s: s}
	if b != nil {
		k.want = string(b) // a copy
	} else {
		k.want = strings.Clone(s)
	}

	ks.l = append(ks.l, k)
}

// check reports the first kept output that no longer has the value it was handed out with.
func (ks *keptSet) check(c *mon.Ctx, key string) bool {
	for _, k := range ks.l {
		if k.b != nil && cap(k.b) > len(k.b) {
			sp := k.b[len(k.b):cap(k.b)]
			for i := range sp {
				sp[i] = 0xa5
			}

			c.Count("kept-outputs-with-spare-capacity-written")
		}
	}

	for i, k := range ks.l {
		cur := k.s
		if k.b != nil {
			cur = string(k.b)
		}

		c.Count("kept-outputs-rechecked")

		if cur != k.want {
			show := func(s string) string {
				if k.b != nil {
					return mon.H([]byte(s))
				}

				return fmt.Sprintf("%q", s)
			}

			c.Fail(fmt.Sprintf("a value handed out by %s changed afterwards (%d further outputs were handed out after it; the caller only wrote into the spare capacity of the slices it had been handed): was %s, is now %s", k.what, len(ks.l)-1-i, show(k.want), show(cur)), key, nil)

			return false
		}
	}

	return true
}
