//go:build verif

// Package props holds one monitor per property (C01..C19).
package props

import (
	"sort"

	"github.com/bytemare/secp256k1/zz_verif/mon"
)

// Registry maps property ids to their checks.
var Registry = map[string]*mon.Prop{}

func register(p *mon.Prop) { Registry[p.ID] = p }

// IDs returns the registered ids in order.
func IDs() []string {
	var out []string
	for k := range Registry {
		out = append(out, k)
	}

	sort.Strings(out)

	return out
}

// Commands are extra sub-commands of the monitor binary contributed by property files (child-process entry points).
var Commands = map[string]func(args []string) int{}
