//go:build verif && (p_all || p_c14)

package props

import (
	"fmt"
	"math/big"

	"github.com/bytemare/secp256k1"
	"github.com/bytemare/secp256k1/zz_verif/gen"
	"github.com/bytemare/secp256k1/zz_verif/mon"
	"github.com/bytemare/secp256k1/zz_verif/oracle"
)

// C14 — Bits is the exact 256-bit binary expansion.

type c14Case struct {
	// Conc != 0: a concurrent batch (8 goroutines on objects they own) derived from this seed; other fields unused.
	Conc uint64 `json:"concurrent_seed,omitempty"`
	S     string          `json:"s"`
	Class string          `json:"class"`
	Move  *mon.ScalarMove `json:"move,omitempty"` // the object first holds Move.From, is observed, then is driven to S
	// Counter != nil: one object, starting at S, is observed and then incremented in place Counter[0] times, observed,
	// Counter[1] times, observed, ... (the distances between two consecutive observations are the exact powers of two at
	// which a generation stamp or an update counter of any width wraps).
	Counter []uint64 `json:"counter,omitempty"`
}

func init() {
	register(&mon.Prop{
		ID:      "C14",
		Flavour: "plain",
		Rule: "History cases use the scalar moves of mon/move.go (objects built through SetUInt64 / Decode / addition / scripted Random, then one of 40 mutators incl. self-aliasing, sums landing on 0 and 1, recovered misuse, range-rejected decodes whose resulting value is taken from Encode). cases: every 2^i, every n-1-2^i, 2^255|2^i, the structured list mod n, Montgomery-structured values, PRNG scalars (sparse, dense, limb patterns, bit 255 forced). " +
			"Oracle: entry i of Bits() must be exactly 0 or 1 and equal bit i of OS2IP(Encode(s)) (and of the materialised integer) for all 256 positions; sum of bits[i]*2^i must equal the value. " +
			"Every position must have been observed both as 0 and as 1. " +
			"History cases: the same *Scalar object first holds another value and is observed (Bits, Encode), is then driven to the target value through each mutator of the API " +
			"(Set, Decode, UnmarshalBinary, DecodeHex, CSelect with conditions 0/1/high-bit, Add, Subtract, Multiply, SetUInt64, Zero, One, MinusOne, Random with scripted entropy, Invert, Pow, Square, nil arguments, a rejected Decode), and Bits is judged again; " +
			"plus a decoy object of equal value observed and then mutated before the judged call. Counters: one object observed, incremented in place exactly 2^8 times, observed, 2^16 times, observed (thorough: also 2^24 and 2^32 times), from three starting values incl. one that wraps past n. non-trivial = value > 1; distinct by (value, history).",
		NewCase:  func() any { return &c14Case{} },
		Generate: c14Generate,
		Run:      c14Run,
		Require: func(string) map[string]int64 {
			return map[string]int64{"bit255=1": 100, "pow2": 256, "scalars": 1000, "history-cases": 400, "via:cselect1": 10, "via:random": 10, "via:decode": 10, "bits:position-seen-as-0-or-1": 512, "counter-runs": 6}
		},
	})

	Registry["C14"].ColdStart = func(c *mon.Ctx) { c14RunConc(c, c.Seed*7919+uint64(c.Shard)+1) }
}

func c14Generate(c *mon.Ctx) {
	concBatches(c, c.NConc(6, 300), func(seed uint64) any { return &c14Case{Conc: seed} })

	n := oracle.N
	emit := func(v *big.Int, class string) {
		if v.Sign() < 0 || v.Cmp(n) >= 0 {
			return
		}

		s := fmt.Sprintf("%x", v)
		c.Structured(func() any { return &c14Case{S: s, Class: class} })
	}

	for i := 0; i < 256; i++ {
		p := new(big.Int).Lsh(big.NewInt(1), uint(i))
		emit(p, "pow2")
		emit(new(big.Int).Sub(new(big.Int).Sub(n, big.NewInt(1)), p), "n-1-pow2")
		emit(new(big.Int).Or(new(big.Int).Lsh(big.NewInt(1), 255), p), "bit255|pow2")
	}

	for _, v := range gen.Structured(n) {
		emit(v.X, v.Class)
	}

	// history cases: every mutator, several times
	hr := c.SharedRng("moves")

	for rep := 0; rep < 20; rep++ {
		for _, via := range mon.ScalarVias {
			mv := mon.PlanScalarMove(via, hr)
			c.Structured(func() any { return &c14Case{S: mv.To, Class: "history", Move: &mv} })

			if rep == 0 && via == "add-self" {
				for i, v := range gen.MontStructured(oracle.N) {
					vv := mon.SelfVias[i%len(mon.SelfVias)]
					if vv == "add-to-zero" && v.X.Sign() == 0 {
						vv = "sub-self"
					}

					m1, m2 := mon.PlanScalarMoveFrom(vv, hr, v.X), mon.PlanScalarMoveFrom("add-self", hr, v.X)
					c.Structured(func() any { return &c14Case{S: m1.To, Class: "history", Move: &m1} })
					c.Structured(func() any { return &c14Case{S: m2.To, Class: "history", Move: &m2} })
				}
			}
		}
	}

	// counters: 2^8, 2^16 (and in the thorough tier 2^24, 2^32) in-place updates between two observations of one object
	for _, start := range []string{"1", fmt.Sprintf("%x", new(big.Int).Sub(n, big.NewInt(1<<15))), fmt.Sprintf("%x", gen.Draw(hr, n).X)} {
		start, dist := start, []uint64{1 << 8, 1 << 16}
		c.Structured(func() any { return &c14Case{S: start, Class: "counter", Counter: dist} })
	}

	if c.Thorough() && c.Stride() == 1 {
		c.Structured(func() any { return &c14Case{S: "2", Class: "counter", Counter: []uint64{1 << 24, 1 << 32}} })
	}

	c.Random(c.N(50000, 5000000), func(r *gen.Rng) any {
		if r.Intn(10) == 0 {
			mv := mon.PlanScalarMove(mon.ScalarVias[r.Intn(len(mon.ScalarVias))], r)
			return &c14Case{S: mv.To, Class: "history", Move: &mv}
		}

		v := gen.Draw(r, n)
		return &c14Case{S: fmt.Sprintf("%x", v.X), Class: v.Class}
	})

	// and again at the end of the shard, when the process has a history behind it
	concBatches(c, c.NConc(4, 200), func(seed uint64) any { return &c14Case{Conc: seed + 50000} })
}

func c14Run(c *mon.Ctx, csAny any) {
	cs := csAny.(*c14Case)

	if cs.Conc != 0 {
		c14RunConc(c, cs.Conc)
		return
	}
	if cs.Counter != nil {
		c14RunCounter(c, cs)
		return
	}

	var (
		v *big.Int
		s *secp256k1.Scalar
	)

	if cs.Move == nil {
		v = mon.BigH(cs.S)
		s = mon.Scal(v)
	} else {
		c.Count("history-cases")
		c.Count("via:" + cs.Move.Via)

		var (
			pan bool
			pv  any
		)

		s, v, pan, pv = mon.MoveScalar(*cs.Move, func(s *secp256k1.Scalar) {
			_ = s.Bits() // observe the old value, so that anything memoised is filled
			_ = s.Encode()
		})
		if pan {
			c.Fail(fmt.Sprintf("mutator %s panicked: %v", cs.Move.Via, pv), "bits-history-panic", nil)

			return
		}

		// decoy: another object with the target value, observed and then changed
		d := mon.Scal(v)
		_ = d.Bits()
		d.Add(mon.Scal(big.NewInt(1)))
	}

	c.Eval(1)
	c.Count("scalars")

	if cs.Class == "pow2" {
		c.Count("pow2")
	}

	var bits [256]uint8

	before := s.S

	if pan, pv := mon.Call(func() { bits = s.Bits() }); pan {
		c.Fail(fmt.Sprint("Bits panicked: ", pv), "bits-panic", nil)
		return
	}

	// Bits is judged against the canonical integer the scalar holds: the integer whose Montgomery form the oracle wrote
	// into the limbs (resp. the target of the move). Encode shares its conversion routine with Bits, so it is not an
	// independent witness; a disagreement between Encode and that integer is counted, and is C07's to report.
	enc := new(big.Int).Set(v)
	if got := new(big.Int).SetBytes(s.Encode()); got.Cmp(v) != 0 {
		c.Count("encode-disagrees-with-held-value")
	}

	if enc.Bit(255) == 1 {
		c.Count("bit255=1")
	}

	sum := new(big.Int)

	for i := 0; i < 256; i++ {
		if bits[i] > 1 {
			c.Fail(fmt.Sprintf("Bits()[%d] = %d is not 0/1 for s=%s", i, bits[i], cs.S), "bits-not-01", nil)
			return
		}

		if uint(bits[i]) != enc.Bit(i) {
			hist := ""
			if cs.Move != nil {
				hist = fmt.Sprintf(" after the object moved from %s to this value via %s", cs.Move.From, cs.Move.Via)
			}

			c.Fail(fmt.Sprintf("Bits()[%d] = %d but bit %d of the value is %d (s=%s)%s", i, bits[i], i, enc.Bit(i), cs.S, hist), fmt.Sprintf("bits-wrong-position-%d", i), nil)
			return
		}

		if bits[i] == 1 {
			sum.SetBit(sum, i, 1)
		}

		c.SetBit("position-seen-as-0-or-1", 512, 2*i+int(bits[i]))
	}

	if sum.Cmp(enc) != 0 {
		c.Fail("sum of bits[i]*2^i differs from the value", "bits-sum", nil)
	}

	if s.S != before {
		c.Fail("Bits modified its receiver", "bits-mutates", nil)
	}

	// the statement ties Bits to the encoding the caller holds: an encoding handed out must still be the one Bits agrees with
	// after another scalar was encoded and the caller appended to the first (wrote into its spare capacity)
	{
		var ks keptSet

		ks.keep("Scalar.Encode", s.Encode(), "")
		ks.keep("Scalar.Encode", mon.Scal(new(big.Int).Xor(v, big.NewInt(0x5555))).Encode(), "")
		ks.keep("Scalar.Encode", s.Encode(), "")

		if ks.check(c, "bits-vs-encoding-changed-later") && ks.l[0].want != string(oracle.Bytes32(enc)) {
			c.Count("encode-disagrees-with-held-value")
		}
	}

	if v.BitLen() > 1 {
		c.Seen(cs.S, cs.Move)

		if c.WantSample() && v.Bit(255) == 1 {
			on := []int{}
			for i := 255; i >= 0 && len(on) < 8; i-- {
				if bits[i] == 1 {
					on = append(on, i)
				}
			}

			c.Sample(map[string]any{"case": cs, "highest_set_positions_reported": on, "bitlen_of_value": v.BitLen()})
		}
	}
}

func c14RunCounter(c *mon.Ctx, cs *c14Case) {
	v := mon.BigH(cs.S)
	s, one := mon.Scal(v), mon.Scal(big.NewInt(1))
	total := uint64(0)

	observe := func() bool {
		c.Eval(1)

		var bits [256]uint8

		if pan, pv := mon.Call(func() { bits = s.Bits() }); pan {
			c.Fail(fmt.Sprint("Bits panicked after ", total, " in-place increments of one object: ", pv), "bits-counter-panic", nil)
			return false
		}

		for i := 0; i < 256; i++ {
			if uint(bits[i]) != v.Bit(i) {
				c.Fail(fmt.Sprintf("Bits()[%d] = %d but bit %d of the value is %d: one object, started at %s, observed, and incremented in place %d times in all (the last observation was %d increments ago)", i, bits[i], i, v.Bit(i), cs.S, total, cs.Counter), "bits-counter", nil)
				return false
			}
		}

		if got := new(big.Int).SetBytes(s.Encode()); got.Cmp(v) != 0 {
			c.Count("encode-disagrees-with-held-value")
		}

		return true
	}

	if !observe() {
		return
	}

	for _, d := range cs.Counter {
		if pan, pv := mon.Call(func() {
			for i := uint64(0); i < d; i++ {
				s.Add(one)
			}
		}); pan {
			c.Fail(fmt.Sprint("Add panicked in a run of in-place increments: ", pv), "bits-counter-panic", nil)
			return
		}

		total += d
		v = oracle.Mod(new(big.Int).Add(v, new(big.Int).SetUint64(d)), oracle.N)

		if !observe() {
			return
		}

		c.Count("counter-runs")
	}

	c.Seen(cs.S, cs.Counter)
}

func c14RunConc(c *mon.Ctx, seed uint64) {
	r := concRng("C14", seed)

	var jobs []func() string

	var (
		v *big.Int
		s *secp256k1.Scalar
	)

	for i := 0; i < concJobs; i++ {
		// every second job reads the SAME scalar object as the job before it (read-only methods only)
		if i%2 == 0 {
			v = gen.Draw(r, oracle.N).X
			s = mon.Scal(v)
		}

		v, s := v, s
		jobs = append(jobs, func() string {
			b := s.Bits()
			for i := 0; i < 256; i++ {
				if uint(b[i]) != v.Bit(i) {
					return fmt.Sprintf("Bits()[%d]=%d for s=%x", i, b[i], v)
				}
			}

			return ""
		})
	}

	if c.RunConcurrent("Bits", "bits-concurrent", 2000, jobs) {
		c.Seen("conc", seed)
	}
}
