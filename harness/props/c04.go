//go:build verif && (p_all || p_c04)

package props

import (
	"bytes"
	"fmt"
	"math/big"

	"github.com/bytemare/secp256k1"
	"github.com/bytemare/secp256k1/zz_verif/gen"
	"github.com/bytemare/secp256k1/zz_verif/mon"
	"github.com/bytemare/secp256k1/zz_verif/oracle"
)

// C04 — encodings are canonical SEC1, representation independent, and round-trip through Decode.

type c04Case struct {
	// Conc != 0: a concurrent batch (8 goroutines on objects they own) derived from this seed; other fields unused.
	Conc uint64 `json:"concurrent_seed,omitempty"`
	E   mon.ElemCase `json:"elem"`
	Via string       `json:"via,omitempty"` // how the element was produced: "" = materialised, or an operation
	// Move: the object first holds Move.From and is serialised through every view, is then driven to Move.To by one
	// mutator, and is serialised again (E is ignored).
	Move *mon.ElemMove `json:"move,omitempty"`
}

func init() {
	register(&mon.Prop{
		ID:      "C04",
		Flavour: "plain",
		Rule: "cases = (group element value, representation or producing operation): every pool point and its negation (both y parities), small-x points (leading zero bytes), " +
			"in affine / λ-scaled (structured + random λ) representations; the identity as (0:1:0), (0:Y:0) and as produced by P-P, P+(-P), [n]P, [0]P, Decode(00), NewElement, Identity(); PRNG cases. " +
			"Oracle: SEC1 bytes computed from the affine value in math/big (the same bytes for every representation of a value); Encode/EncodeUncompressed/XCoordinate/Hex/MarshalBinary compared byte for byte; " +
			"Decode, DecodeHex, UnmarshalBinary of each output must give back the value. " +
			"History cases: one *Element object holds a first value, is serialised through every view (so that any memo is filled), is driven to a second value through each mutator " +
			"(Set, every decoder, Identity, Base, Negate, Add, Subtract, Double, Multiply by small k / n-1 / 1 / 0 / nil, nil arguments, self-aliasing, a rejected decode) and is serialised again. " +
			"non-trivial = not the canonical (0:1:0) identity; distinct by (value, representation, via, history).",
		NewCase:  func() any { return &c04Case{} },
		Generate: c04Generate,
		Run:      c04Run,
		Require: func(string) map[string]int64 {
			return map[string]int64{"value:O": 20, "parity:even": 100, "parity:odd": 100, "repr:scaled": 200, "repr:id-y": 10, "x-leading-zero": 10, "via:ops": 8, "history-cases": 400, "move:negate": 10, "move:sub": 10, "move:mul-1": 10}
		},
	})

	Registry["C04"].ColdStart = func(c *mon.Ctx) { c04RunConc(c, c.Seed*7919+uint64(c.Shard)+1) }
}

func c04Generate(c *mon.Ctx) {
	concBatches(c, c.NConc(6, 300), func(seed uint64) any { return &c04Case{Conc: seed} })

	pool := gen.NewPool(c.SharedRng("pool"), 16)

	for _, pv := range pool.All {
		for _, v := range []gen.PV{pv, {P: oracle.Neg(pv.P), Tag: "-" + pv.Tag}} {
			for _, rp := range gen.StructuredReprs(v.P.IsInf()) {
				e := mon.MkElemCase(v, rp)
				c.Structured(func() any { return &c04Case{E: e} })
			}
		}
	}

	// points whose affine y (resp. x, y^2, x^3) has a structured STORED value, and their negations: what the decoder's square
	// root, negation and curve-equation check work on when the encoding comes back in
	strideS := c.N(1, 1)

	for ti, t := range gen.DecodeTargets() {
		if ti%strideS != int(c.Seed%uint64(strideS)) {
			continue
		}

		for k, f := range []func(*big.Int) (oracle.Pt, bool){gen.PointWithStoredY, gen.PointWithStoredX, gen.PointWithStoredY2, gen.PointWithStoredX3} {
			p, ok := f(t)
			if !ok {
				continue
			}

			tag := []string{"steered-y", "steered-x", "steered-y2", "steered-x3"}[k]
			reprs := gen.StructuredReprs(false)

			for j, v := range []gen.PV{{P: p, Tag: tag}, {P: oracle.Neg(p), Tag: "-" + tag}} {
				e := mon.MkElemCase(v, reprs[(ti+j+k)%len(reprs)])
				a := mon.MkElemCase(v, gen.Repr{Kind: "affine", L: big.NewInt(1)})
				c.Structured(func() any { return &c04Case{E: e} })
				c.Structured(func() any { return &c04Case{E: a} })
			}
		}
	}

	g := mon.MkElemCase(gen.PV{P: oracle.G(), Tag: "G"}, gen.StructuredReprs(false)[3])
	for _, via := range []string{"P-P", "P+(-P)", "[n]P", "[0]P", "Decode(00)", "NewElement", "Identity()", "Multiply(nil)", "2P", "P+P", "[n-1]P", "hash"} {
		via := via
		c.Structured(func() any { return &c04Case{E: g, Via: via} })
	}

	hr := c.SharedRng("moves")

	for rep := 0; rep < c.N(60, 2000); rep++ {
		mv := mon.PlanElemMove("decode-rejected", hr)
		c.Structured(func() any { return &c04Case{Move: &mv} })
	}

	for rep := 0; rep < 20; rep++ {
		for _, via := range mon.ElemVias {
			mv := mon.PlanElemMove(via, hr)
			c.Structured(func() any { return &c04Case{Move: &mv} })
		}
	}

	c.Random(c.N(30000, 3000000), func(r *gen.Rng) any {
		if r.Intn(12) == 0 {
			mv := mon.PlanElemMove(mon.ElemVias[r.Intn(len(mon.ElemVias))], r)
			return &c04Case{Move: &mv}
		}

		var pv gen.PV

		switch r.Intn(8) {
		case 0:
			pv = pool.Draw(r)
		case 1:
			pv = gen.PV{P: oracle.Inf(), Tag: "O"}
		default:
			pv = gen.Fresh(r)
		}

		if r.Intn(5) == 0 {
			return &c04Case{E: mon.MkNatElemCase(pv, r.Intn(8))}
		}

		return &c04Case{E: mon.MkElemCase(pv, gen.DrawRepr(r, pv.P.IsInf()))}
	})

	// and again at the end of the shard, when the process has a history behind it
	concBatches(c, c.NConc(4, 200), func(seed uint64) any { return &c04Case{Conc: seed + 50000} })
}

func c04Run(c *mon.Ctx, csAny any) {
	cs := csAny.(*c04Case)

	if cs.Conc != 0 {
		c04RunConc(c, cs.Conc)
		return
	}
	if cs.Move != nil {
		// the element under test is the moved object; E mirrors it for the bookkeeping below
		cs.E = mon.ElemCase{P: cs.Move.To, R: mon.ReprCase{Kind: "moved:" + cs.Move.Via, L: "1"}}
	}

	p := cs.E.P.Pt()

	var e *secp256k1.Element

	if cs.Move != nil {
		c.Count("history-cases")
		c.Count("move:" + cs.Move.Via)

		e = cs.Move.Start()
		// serialise the old value through every view
		_, _, _, _ = e.Encode(), e.EncodeUncompressed(), e.XCoordinate(), e.Hex()
		_, _ = e.MarshalBinary()

		if pan, pv := mon.Call(func() { mon.ApplyElemMove(e, *cs.Move) }); pan {
			if m, ok := pv.(string); ok && len(m) > 8 && m[:8] == "harness:" {
				panic(m)
			}

			c.Fail(fmt.Sprintf("mutator %s panicked: %v", cs.Move.Via, pv), "encode-history-panic", nil)

			return
		}
	} else {
		e = cs.E.Build()
	}

	if cs.Via != "" {
		c.Count("via:ops")

		n1 := mon.Scal(oracle.Mod(oracle.I(-1), oracle.N))

		switch cs.Via {
		case "P-P":
			e.Subtract(cs.E.Build())
			p = oracle.Inf()
		case "P+(-P)":
			e.Add(cs.E.Build().Negate())
			p = oracle.Inf()
		case "[n]P":
			// [n-1]P + P
			e.Multiply(n1).Add(cs.E.Build())
			p = oracle.Inf()
		case "[0]P":
			e.Multiply(secp256k1.NewScalar())
			p = oracle.Inf()
		case "Decode(00)":
			if err := e.Decode([]byte{0}); err != nil {
				c.Fail("Decode(00) rejected: "+err.Error(), "decode-identity", nil)
				return
			}

			p = oracle.Inf()
		case "NewElement":
			e = secp256k1.NewElement()
			p = oracle.Inf()
		case "Identity()":
			e.Identity()
			p = oracle.Inf()
		case "Multiply(nil)":
			e.Multiply(mon.NilScal)
			p = oracle.Inf()
		case "2P":
			e.Double()
			p = oracle.Dbl(p)
		case "P+P":
			e.Add(cs.E.Build())
			p = oracle.Dbl(p)
		case "[n-1]P":
			e.Multiply(n1)
			p = oracle.Neg(p)
		case "hash":
			e = secp256k1.HashToGroup([]byte("c04"), []byte("verif-c04-dst-0123456789"))
			p, _ = oracle.HashToCurve([]byte("c04"), []byte("verif-c04-dst-0123456789"))
		}
	}

	c.Count("repr:" + cs.E.R.Kind)

	if p.IsInf() {
		c.Count("value:O")
	} else {
		if p.Y.Bit(0) == 0 {
			c.Count("parity:even")
		} else {
			c.Count("parity:odd")
		}

		if p.X.BitLen() <= 248 {
			c.Count("x-leading-zero")
		}
	}

	wantC, wantU := oracle.EncC(p), oracle.EncU(p)
	before := mon.Snap(e)

	var (
		enc, encU, xc, mb []byte
		hx                string
		merr              error
	)

	c.Eval(5)

	if pan, pv := mon.Call(func() {
		enc, encU, xc, hx = e.Encode(), e.EncodeUncompressed(), e.XCoordinate(), e.Hex()
		mb, merr = e.MarshalBinary()
	}); pan {
		c.Fail(fmt.Sprint("encoder panicked: ", pv), "encode-panic", nil)
		return
	}

	if !bytes.Equal(enc, wantC) {
		c.Fail(fmt.Sprintf("Encode=%s want %s (repr %s)", mon.H(enc), mon.H(wantC), cs.E.R.Kind), "encode-bytes", nil)
	}

	if !bytes.Equal(encU, wantU) {
		c.Fail(fmt.Sprintf("EncodeUncompressed=%s want %s (repr %s)", mon.H(encU), mon.H(wantU), cs.E.R.Kind), "encode-uncompressed-bytes", nil)
	}

	if !bytes.Equal(xc, wantC[1:]) {
		c.Fail(fmt.Sprintf("XCoordinate=%s want %s", mon.H(xc), mon.H(wantC[1:])), "xcoordinate-bytes", nil)
	}

	if hx != mon.H(wantC) {
		c.Fail(fmt.Sprintf("Hex=%s want %s", hx, mon.H(wantC)), "hex-string", nil)
	}

	if merr != nil || !bytes.Equal(mb, wantC) {
		c.Fail(fmt.Sprintf("MarshalBinary=%s,%v want %s", mon.H(mb), merr, mon.H(wantC)), "marshal-bytes", nil)
	}

	if after := mon.Snap(e); after != before {
		c.Fail("an encoder modified its receiver's storage", "encode-mutates", nil)
	}

	// round trips: feed the implementation's own output back
	type rt struct {
		name string
		f    func(d *secp256k1.Element) error
	}

	for _, t := range []rt{
		{"Decode(Encode)", func(d *secp256k1.Element) error { return d.Decode(enc) }},
		{"Decode(EncodeUncompressed)", func(d *secp256k1.Element) error { return d.Decode(encU) }},
		{"DecodeHex(Hex)", func(d *secp256k1.Element) error { return d.DecodeHex(hx) }},
		{"UnmarshalBinary(MarshalBinary)", func(d *secp256k1.Element) error { return d.UnmarshalBinary(mb) }},
	} {
		d := secp256k1.Base().Double() // a receiver that is neither the value nor the identity

		if !p.IsInf() && p.X.Sign() != 0 && len(cs.E.R.L)%3 == 0 {
			// ... or one that holds ANOTHER point in a representation whose raw X (resp. raw Y) equals the affine x (y) of
			// the point about to be decoded: a decoder that compares the input with what the receiver holds sees a "match"
			q := oracle.Dbl(oracle.G())
			if q.X.Cmp(p.X) == 0 {
				q = oracle.Dbl(q)
			}

			l := oracle.FMul(p.X, oracle.FInv0(q.X))
			if len(cs.E.R.L)%2 == 1 {
				l = oracle.FMul(p.Y, oracle.FInv0(q.Y))
			}

			d = mon.Elem(q, gen.Repr{Kind: "scaled", L: l})
			c.Count("roundtrip-into-matching-receiver")
		}

		c.Eval(1)

		var err error
		if pan, pv := mon.Call(func() { err = t.f(d) }); pan {
			c.Fail(fmt.Sprint(t.name, " panicked: ", pv), "roundtrip-panic", nil)
			continue
		}

		if err != nil {
			c.Fail(fmt.Sprintf("%s rejected the implementation's own output: %v", t.name, err), "roundtrip-rejected:"+t.name, nil)
			continue
		}

		got, ok := mon.RawValue(d)
		if !ok || !got.Equal(p) {
			c.Fail(fmt.Sprintf("%s gives %s, want %s", t.name, got, p), "roundtrip-value:"+t.name, nil)
		}

		if d.Equal(e) != 1 {
			c.Fail(fmt.Sprintf("%s result is not Equal to the source", t.name), "roundtrip-equal:"+t.name, nil)
		}
	}

	// the caller owns what the encoders returned: overwriting it must not change any later encoding, of this element or
	// of any other element with the same value
	for _, b := range [][]byte{enc, encU, xc, mb} {
		full := b[:cap(b)]
		for i := range full {
			full[i] ^= 0xa5
		}
	}

	c.Eval(2)

	if again := e.Encode(); !bytes.Equal(again, wantC) {
		c.Fail(fmt.Sprintf("after the caller overwrote earlier results, Encode=%s want %s", mon.H(again), mon.H(wantC)), "encode-after-scribble", nil)
	} else if other := mon.ElemAffine(p).EncodeUncompressed(); !bytes.Equal(other, wantU) {
		c.Fail(fmt.Sprintf("after the caller overwrote earlier results, another element with the same value encodes as %s want %s", mon.H(other), mon.H(wantU)), "encode-after-scribble", nil)
	}

	// what was handed out stays what it was: outputs of this element are kept while another element is serialised through
	// every encoder, and while the caller appends to the slices it holds
	{
		var ks keptSet

		o := secp256k1.Base().Double()
		if len(cs.E.R.L)%2 == 0 {
			o = secp256k1.NewElement()
		}

		for _, x := range []*secp256k1.Element{e, o, e} {
			ks.keep("Hex", nil, x.Hex())
			ks.keep("Encode", x.Encode(), "")
			ks.keep("EncodeUncompressed", x.EncodeUncompressed(), "")
			ks.keep("XCoordinate", x.XCoordinate(), "")

			if b, err := x.MarshalBinary(); err == nil {
				ks.keep("MarshalBinary", b, "")
			}
		}

		c.Eval(15)

		if ks.l[0].want != mon.H(wantC) || ks.l[1].want != string(wantC) {
			c.Fail(fmt.Sprintf("Hex=%s Encode=%s want %s", ks.l[0].want, mon.H(ks.l[1].b), mon.H(wantC)), "encode-bytes", nil)
		}

		ks.check(c, "encode-output-changed-later")
	}

	if !(cs.E.P.Inf && cs.E.R.Kind == "id-canonical" && cs.Via == "") {
		c.Seen(cs.E, cs.Via)

		if c.WantSample() && cs.E.R.Kind == "scaled" {
			c.Sample(map[string]any{"case": cs, "encode": mon.H(enc), "encode_uncompressed": mon.H(encU), "raw": before.String()})
		}
	}
}

func c04RunConc(c *mon.Ctx, seed uint64) {
	r := concRng("C04", seed)

	var jobs []func() string

	var (
		p gen.PV
		e *secp256k1.Element
	)

	for i := 0; i < concJobs; i++ {
		// every second job serialises the SAME element object as the job before it (read-only methods only)
		if i%2 == 0 {
			p = gen.Fresh(r)
			e = mon.Elem(p.P, gen.DrawRepr(r, false))
		}

		p, e := p, e
		wc, wu := oracle.EncC(p.P), oracle.EncU(p.P)
		jobs = append(jobs, func() string {
			if got := e.Encode(); !bytes.Equal(got, wc) {
				return fmt.Sprintf("Encode=%s want %s", mon.H(got), mon.H(wc))
			}

			if got := e.EncodeUncompressed(); !bytes.Equal(got, wu) {
				return fmt.Sprintf("EncodeUncompressed=%s want %s", mon.H(got), mon.H(wu))
			}

			d := secp256k1.NewElement()
			if err := d.Decode(wc); err != nil || d.Equal(e) != 1 {
				return "Decode(Encode(P)) != P"
			}

			return ""
		})
	}

	if c.RunConcurrent("Encode / EncodeUncompressed / Decode round trip", "encode-concurrent", 800, jobs) {
		c.Seen("conc", seed)
	}
}
