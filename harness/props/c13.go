//go:build verif && (p_all || p_c13)

package props

import (
	"fmt"
	"math/big"

	"github.com/bytemare/secp256k1"
	"github.com/bytemare/secp256k1/zz_verif/gen"
	"github.com/bytemare/secp256k1/zz_verif/mon"
	"github.com/bytemare/secp256k1/zz_verif/oracle"
)

// C13 — scalar comparisons and conditional selection follow integer semantics.

type c13Case struct {
	// Conc != 0: a concurrent batch (8 goroutines on objects they own) derived from this seed; other fields unused.
	Conc uint64 `json:"concurrent_seed,omitempty"`
	Op    string `json:"op"` // cmp | cselect
	S     string `json:"s"`
	T     string `json:"t"`            // "nil" allowed for cselect / equal
	Cond  uint64 `json:"cond"`         // cselect
	Recv  string `json:"recv"`         // cselect: fresh | u | v   (receiver aliased with an operand)
	Same  bool   `json:"same,omitempty"` // cmp through the same pointer / cselect(c, s, s)
	Class string `json:"class"`
	// Move (Op == "cmp"): operand s is an object that held Move.From, was compared/encoded, and was driven to S.
	Move *mon.ScalarMove `json:"move,omitempty"`
}

func init() {
	register(&mon.Prop{
		ID:      "C13",
		Flavour: "plain",
		Rule: "cases: ordered pairs (s,t) for Equal/IsZero/IsOne/LessOrEqual from the structured list mod n (boundaries, 2^k, n-2^k, limb-perturbed n), Montgomery-structured values, " +
			"pairs differing in exactly one canonical limb and pairs differing in exactly one stored limb (each limb, both directions), s=t (same and distinct objects), s=t±1, (0,n-1), values whose stored form is adjacent to One() or to zero, PRNG pairs; " +
			"CSelect with condition words 0,1,2,every 2^k,2^64-1,alternating patterns, random, receiver fresh or aliased with either operand, nil operands. " +
			"Oracle: integer comparison of the canonical values in math/big; CSelect must yield the first operand for 0 and the second for every non-zero word, and on a nil operand return an error with the receiver bit-identical. " +
			"non-trivial = s != t or a cselect case; History cases (mon/move.go): operand s is an object built through SetUInt64 / Decode / an addition / scripted Random, compared and serialised, then driven through one of 40 mutators incl. itself as argument (Add, Subtract, Multiply, Pow, Set, CSelect), sums landing exactly on 0 and 1, recovered misuse (LessOrEqual(nil), a failing entropy source) and range-rejected decodes (value taken from Encode afterwards, every comparison must agree with it). In short: operand s is an object that held another value, was compared and serialised, and reached its value through each mutator of the API. distinct by the whole case. Plus concurrent batches: 8 goroutines run the operations simultaneously on objects they own, each result judged against the oracle.",
		NewCase:  func() any { return &c13Case{} },
		Generate: c13Generate,
		Run:      c13Run,
		Require: func(string) map[string]int64 {
			return map[string]int64{
				"cmp": 5000, "cmp:s<t": 1000, "cmp:s>t": 1000, "cmp:s=t": 200, "class:one-canonical-limb": 24, "class:one-stored-limb": 24,
				"cselect": 1000, "cselect:cond=0": 100, "cselect:cond=1": 50, "cselect:cond>1": 500, "cselect:nil": 6, "cselect:recv-aliased": 100, "isone:true": 3, "iszero:true": 3, "history-cases": 200,
			}
		},
	})

	Registry["C13"].ColdStart = func(c *mon.Ctx) { c13RunConc(c, c.Seed*7919+uint64(c.Shard)+1) }
}

func c13Generate(c *mon.Ctx) {
	concBatches(c, c.NConc(6, 300), func(seed uint64) any { return &c13Case{Conc: seed} })

	n := oracle.N
	st := gen.Structured(n)
	hx := func(v *big.Int) string { return fmt.Sprintf("%x", v) }

	cmp := func(a, b *big.Int, class string, same bool) {
		s, t := hx(a), hx(b)
		c.Structured(func() any { return &c13Case{Op: "cmp", S: s, T: t, Class: class, Same: same} })
	}

	for i, v := range st {
		cmp(v.X, v.X, "equal", false)
		cmp(v.X, v.X, "equal", true)

		if v.X.Sign() > 0 {
			cmp(v.X, new(big.Int).Sub(v.X, big.NewInt(1)), "t=s-1", false)
		}

		if new(big.Int).Add(v.X, big.NewInt(1)).Cmp(n) < 0 {
			cmp(v.X, new(big.Int).Add(v.X, big.NewInt(1)), "t=s+1", false)
		}

		for j := 0; j < 5; j++ {
			w := st[(i*13+j*97+1)%len(st)]
			cmp(v.X, w.X, v.Class, false)
			cmp(w.X, v.X, v.Class, false)
		}
	}

	cmp(big.NewInt(0), new(big.Int).Sub(n, big.NewInt(1)), "0-vs-n-1", false)
	cmp(new(big.Int).Sub(n, big.NewInt(1)), big.NewInt(0), "0-vs-n-1", false)
	c.Structured(func() any { return &c13Case{Op: "cmp", S: "5", T: "nil", Class: "equal-nil"} })

	// pairs differing in exactly one canonical limb / exactly one stored limb
	sr := c.SharedRng("limb-pairs")

	for rep := 0; rep < 40; rep++ {
		base := oracle.Limbs(gen.Draw(sr, n).X)
		for i := 0; i < 4; i++ {
			for _, d := range []uint64{1, ^uint64(0), 1 << 63, sr.U64()} {
				l := base
				l[i] += d
				a, b := oracle.FromLimbs(base), oracle.FromLimbs(l)

				if a.Cmp(n) < 0 && b.Cmp(n) < 0 {
					cmp(a, b, "one-canonical-limb", false)
					cmp(b, a, "one-canonical-limb", false)
					// the same limbs read as *stored* values
					cmp(oracle.FromMont(base, n), oracle.FromMont(l, n), "one-stored-limb", false)
					cmp(oracle.FromMont(l, n), oracle.FromMont(base, n), "one-stored-limb", false)
				}
			}
		}
	}

	// stored form adjacent to One() / zero
	oneM := oracle.ToMont(big.NewInt(1), n)
	for i := 0; i < 4; i++ {
		for _, d := range []uint64{1, ^uint64(0), 1 << 63, 1 << 32} {
			l := oneM
			l[i] ^= d

			if oracle.FromLimbs(l).Cmp(n) < 0 {
				cmp(oracle.FromMont(l, n), big.NewInt(1), "adjacent-to-one", false)
			}

			var z [4]uint64
			z[i] = d

			cmp(oracle.FromMont(z, n), big.NewInt(0), "adjacent-to-zero", false)
		}
	}

	// CSelect
	conds := []uint64{0, 1, 2, 3, ^uint64(0), 1 << 63, 0xaaaaaaaaaaaaaaaa, 0x5555555555555555, 0xffffffff00000000, 0x00000000ffffffff, 1 << 32, 0xfffffffffffffffe}
	for k := 0; k < 64; k++ {
		conds = append(conds, 1<<uint(k))
	}

	for i, cond := range conds {
		for _, recv := range []string{"fresh", "u", "v"} {
			u, v := st[(i*17+3)%len(st)].X, st[(i*29+11)%len(st)].X
			cond, recv, s, t := cond, recv, hx(u), hx(v)
			c.Structured(func() any { return &c13Case{Op: "cselect", S: s, T: t, Cond: cond, Recv: recv, Class: "cond"} })
		}

		cond := cond
		c.Structured(func() any { return &c13Case{Op: "cselect", S: "9", T: "9", Cond: cond, Recv: "fresh", Same: true, Class: "cond-same"} })
	}

	for _, cond := range []uint64{0, 1, 2} {
		cond := cond
		c.Structured(func() any { return &c13Case{Op: "cselect", S: "nil", T: "7", Cond: cond, Recv: "fresh", Class: "nil"} })
		c.Structured(func() any { return &c13Case{Op: "cselect", S: "7", T: "nil", Cond: cond, Recv: "fresh", Class: "nil"} })
		c.Structured(func() any { return &c13Case{Op: "cselect", S: "nil", T: "nil", Cond: cond, Recv: "fresh", Class: "nil"} })
	}

	mr := c.SharedRng("moves")

	// the object as its own argument, or meeting an equal / opposite value, from every Montgomery-structured start value
	for i, v := range gen.MontStructured(n) {
		via := mon.SelfVias[i%len(mon.SelfVias)]
		if via == "add-to-zero" && v.X.Sign() == 0 {
			via = "sub-self"
		}

		for _, vv := range []string{via, "add-self"} {
			mv := mon.PlanScalarMoveFrom(vv, mr, v.X)
			c.Structured(func() any { return &c13Case{Op: "cmp", S: mv.To, T: mv.To, Class: "history", Move: &mv} })
		}
	}

	// every Montgomery-structured value loaded through each of the library's own loaders (Decode, UnmarshalBinary, DecodeHex,
	// Set), compared with the same value written as limbs: a loader that leaves a thin set of values unreduced gives itself
	// away in Equal / IsZero / LessOrEqual, not in the encoding
	for i, v := range gen.MontStructured(n) {
		for j, via := range []string{"decode", "unmarshal", "decodehex", "set"} {
			if (i+j)%2 == 1 && via != "decode" {
				continue
			}

			mv := mon.ScalarMove{Via: via, From: hx(gen.Draw(mr, n).X), To: hx(v.X), Aux: "1"}
			c.Structured(func() any { return &c13Case{Op: "cmp", S: mv.To, T: mv.To, Class: "history", Move: &mv} })
		}
	}

	for rep := 0; rep < 12; rep++ {
		for _, via := range mon.ScalarVias {
			mv := mon.PlanScalarMove(via, mr)
			other := hx(gen.Draw(mr, n).X)

			if rep%3 == 0 {
				other = mv.To
			}

			c.Structured(func() any { return &c13Case{Op: "cmp", S: mv.To, T: other, Class: "history", Move: &mv} })
		}
	}

	// every pair of special factors (0, 1, 2, n-1, n-2, (n+1)/2) multiplied by the library; the product compared with the
	// same value written as limbs and with zero
	for k := 0; k < mon.NMulSpecial; k++ {
		mon.MulSpecialIndex = k
		mv := mon.PlanScalarMove("mul-special", mr)
		mon.MulSpecialIndex = -1

		for _, other := range []string{mv.To, "0"} {
			other := other
			c.Structured(func() any { return &c13Case{Op: "cmp", S: mv.To, T: other, Class: "history", Move: &mv} })
		}
	}

	c.Random(c.N(400000, 40000000), func(r *gen.Rng) any {
		if r.Intn(4) == 0 {
			cond := r.U64()

			switch r.Intn(4) {
			case 0:
				cond = 0
			case 1:
				cond = 1 << uint(r.Intn(64))
			}

			return &c13Case{Op: "cselect", S: hx(gen.Draw(r, n).X), T: hx(gen.Draw(r, n).X), Cond: cond, Recv: []string{"fresh", "u", "v"}[r.Intn(3)], Class: "random"}
		}

		a, b := gen.Draw(r, n), gen.Draw(r, n)
		if r.Intn(4) == 0 {
			a, b = gen.PairOnCarry(r, n)
		}

		return &c13Case{Op: "cmp", S: hx(a.X), T: hx(b.X), Class: a.Class}
	})

	// and again at the end of the shard, when the process has a history behind it
	concBatches(c, c.NConc(4, 200), func(seed uint64) any { return &c13Case{Conc: seed + 50000} })
}

func c13Run(c *mon.Ctx, csAny any) {
	cs := csAny.(*c13Case)

	if cs.Conc != 0 {
		c13RunConc(c, cs.Conc)
		return
	}
	c.Count("class:" + cs.Class)

	mk := func(h string) (*secp256k1.Scalar, *big.Int) {
		if h == "nil" {
			return nil, nil
		}

		if h == mon.Havoc {
			// decided by the move (see mon.Havoc); a placeholder until then
			return mon.Scal(big.NewInt(5)), big.NewInt(5)
		}

		v := mon.BigH(h)

		return mon.Scal(v), v
	}

	switch cs.Op {
	case "cmp":
		s, sv := mk(cs.S)
		t, tv := mk(cs.T)

		if cs.Move != nil && t != nil {
			c.Count("history-cases")

			var (
				pan bool
				pv  any
			)

			s, sv, pan, pv = mon.MoveScalar(*cs.Move, func(s *secp256k1.Scalar) {
				// the old value is compared and serialised, then the object moves
				_, _, _, _ = s.LessOrEqual(t), t.LessOrEqual(s), s.Equal(t), s.IsOne()
				_, _ = s.Encode(), s.Bits()
			})
			if pan {
				c.Fail(fmt.Sprintf("mutator %s panicked: %v", cs.Move.Via, pv), "cmp-history-panic", nil)

				return
			}

			if cs.T == mon.Havoc {
				t, tv = mon.Scal(sv), sv
			}
		}

		if cs.Same {
			t = s
		}

		c.Count("cmp")

		if t == nil {
			c.Eval(1)

			if s.Equal(nil) != 0 || s.Equal(mon.NilScal) != 0 {
				c.Fail("Equal(nil) != 0", "equal-nil", nil)
			}

			return
		}

		sb, tb := s.S, t.S

		var (
			eq1, eq2     int
			le1, le2     uint64
			z1, z2, o1, o2 bool
		)

		c.Eval(8)

		if pan, pv := mon.Call(func() {
			eq1, eq2 = s.Equal(t), t.Equal(s)
			le1, le2 = s.LessOrEqual(t), t.LessOrEqual(s)
			z1, z2, o1, o2 = s.IsZero(), t.IsZero(), s.IsOne(), t.IsOne()
		}); pan {
			c.Fail(fmt.Sprint("comparison panicked: ", pv), "cmp-panic", nil)
			return
		}

		cmpv := sv.Cmp(tv)

		switch {
		case cmpv < 0:
			c.Count("cmp:s<t")
		case cmpv > 0:
			c.Count("cmp:s>t")
		default:
			c.Count("cmp:s=t")
		}

		b2i := func(b bool) int {
			if b {
				return 1
			}

			return 0
		}

		if eq1 != b2i(cmpv == 0) || eq2 != b2i(cmpv == 0) {
			c.Fail(fmt.Sprintf("Equal(%s,%s)=%d/%d want %d", cs.S, cs.T, eq1, eq2, b2i(cmpv == 0)), "scalar-equal", nil)
		}

		if le1 != uint64(b2i(cmpv <= 0)) {
			c.Fail(fmt.Sprintf("LessOrEqual(%s,%s)=%d want %d", cs.S, cs.T, le1, b2i(cmpv <= 0)), "lessorequal", nil)
		}

		if le2 != uint64(b2i(cmpv >= 0)) {
			c.Fail(fmt.Sprintf("LessOrEqual(%s,%s)=%d want %d", cs.T, cs.S, le2, b2i(cmpv >= 0)), "lessorequal", nil)
		}

		if z1 != (sv.Sign() == 0) || z2 != (tv.Sign() == 0) {
			c.Fail(fmt.Sprintf("IsZero(%s)=%v IsZero(%s)=%v", cs.S, z1, cs.T, z2), "iszero", nil)
		}

		one := big.NewInt(1)
		if o1 != (sv.Cmp(one) == 0) || o2 != (tv.Cmp(one) == 0) {
			c.Fail(fmt.Sprintf("IsOne(%s)=%v IsOne(%s)=%v", cs.S, o1, cs.T, o2), "isone", nil)
		}

		if o1 || o2 {
			c.Count("isone:true")
		}

		if z1 || z2 {
			c.Count("iszero:true")
		}

		if s.S != sb || t.S != tb {
			c.Fail("a comparison modified an operand", "cmp-mutates", nil)
		}

		if cmpv != 0 {
			c.Seen("cmp", cs.S, cs.T)

			if c.WantSample() && cs.Class == "one-stored-limb" {
				c.Sample(map[string]any{"case": cs, "stored_s": mon.HexLimbs(s.S), "stored_t": mon.HexLimbs(t.S), "LessOrEqual(s,t)": le1, "expected": b2i(cmpv <= 0)})
			}
		}
	case "cselect":
		u, uv := mk(cs.S)
		v, vv := mk(cs.T)

		if cs.Same {
			v, vv = u, uv
		}

		c.Count("cselect")

		recvVal := big.NewInt(0x5eed)
		recv := mon.Scal(recvVal)

		switch cs.Recv {
		case "u":
			if u != nil {
				recv, recvVal = u, uv
				c.Count("cselect:recv-aliased")
			}
		case "v":
			if v != nil {
				recv, recvVal = v, vv
				c.Count("cselect:recv-aliased")
			}
		}

		before := recv.S

		var ub, vb [4]uint64
		if u != nil {
			ub = u.S
		}

		if v != nil {
			vb = v.S
		}

		var err error

		c.Eval(1)

		if pan, pv := mon.Call(func() { err = recv.CSelect(cs.Cond, u, v) }); pan {
			c.Fail(fmt.Sprint("CSelect panicked: ", pv), "cselect-panic", nil)
			return
		}

		if u == nil || v == nil {
			c.Count("cselect:nil")

			if err == nil {
				c.Fail("CSelect with a nil operand returned no error", "cselect-nil-noerror", nil)
			}

			if recv.S != before {
				c.Fail("CSelect with a nil operand changed the receiver", "cselect-nil-mutates", nil)
			}

			return
		}

		if err != nil {
			c.Fail("CSelect returned an error for non-nil operands: "+err.Error(), "cselect-error", nil)
			return
		}

		want := uv

		switch {
		case cs.Cond == 0:
			c.Count("cselect:cond=0")
		case cs.Cond == 1:
			want = vv

			c.Count("cselect:cond=1")
		default:
			want = vv

			c.Count("cselect:cond>1")
		}

		if got := mon.ScalVal(recv); got.Cmp(want) != 0 || !mon.ScalCanonical(recv) {
			c.Fail(fmt.Sprintf("CSelect(%#x, %s, %s) = %x (stored %s), want %x", cs.Cond, cs.S, cs.T, got, mon.HexLimbs(recv.S), want), "cselect-value", nil)
		}

		if u != recv && u.S != ub || v != recv && v.S != vb {
			c.Fail("CSelect modified an operand that is not the receiver", "cselect-arg-modified", nil)
		}

		c.Seen("cselect", cs.S, cs.T, cs.Cond, cs.Recv, cs.Same)

		if c.WantSample() && cs.Cond > 1 {
			c.Sample(map[string]any{"case": cs, "observed": fmt.Sprintf("%x", mon.ScalVal(recv)), "expected": fmt.Sprintf("%x", want)})
		}

		_ = recvVal
	default:
		panic("harness: unknown op " + cs.Op)
	}
}

func c13RunConc(c *mon.Ctx, seed uint64) {
	r := concRng("C13", seed)

	var jobs []func() string

	for i := 0; i < concJobs; i++ {
		a, b := gen.Draw(r, oracle.N).X, gen.Draw(r, oracle.N).X
		if i%3 == 0 {
			b = new(big.Int).Set(a)
		}

		s, t := mon.Scal(a), mon.Scal(b)
		le, eq := uint64(0), 0

		if a.Cmp(b) <= 0 {
			le = 1
		}

		if a.Cmp(b) == 0 {
			eq = 1
		}

		cond := r.U64() | 1
		self := i%4 == 1
		jobs = append(jobs, func() string {
			// every fourth job first compares an object with itself (one pointer on both sides)
			if self && (s.LessOrEqual(s) != 1 || s.Equal(s) != 1 || t.LessOrEqual(t) != 1) {
				return fmt.Sprintf("comparison of %x with itself (same object)", a)
			}

			if s.LessOrEqual(t) != le || s.Equal(t) != eq || s.IsZero() != (a.Sign() == 0) || s.IsOne() != (a.Cmp(big.NewInt(1)) == 0) {
				return fmt.Sprintf("comparison of %x and %x", a, b)
			}

			recv := secp256k1.NewScalar()
			if err := recv.CSelect(cond, s, t); err != nil || recv.S != t.S {
				return fmt.Sprintf("CSelect(%#x, %x, %x) = %x", cond, a, b, mon.ScalVal(recv))
			}

			return ""
		})
	}

	if c.RunConcurrent("scalar comparison / CSelect", "cmp-concurrent", 3000, jobs) {
		c.Seen("conc", seed)
	}
}
