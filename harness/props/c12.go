//go:build verif && (p_all || p_c12)

package props

import (
	"bytes"
	"fmt"
	"math/big"

	"github.com/bytemare/secp256k1/internal/field"
	"github.com/bytemare/secp256k1/zz_verif/gen"
	"github.com/bytemare/secp256k1/zz_verif/mon"
	"github.com/bytemare/secp256k1/zz_verif/oracle"
)

// C12 — the base-field layer computes exact, canonical arithmetic in F_p.

type c12Case struct {
	// Conc != 0: a concurrent batch (8 goroutines on objects they own) derived from this seed; other fields unused.
	Conc uint64 `json:"concurrent_seed,omitempty"`
	Op    string `json:"op"`
	A     string `json:"a,omitempty"`
	B     string `json:"b,omitempty"`
	Alias string `json:"alias,omitempty"` // none | out=a | out=b | a=b | all
	In    string `json:"in,omitempty"`    // raw bytes for the parsers
	Class string `json:"class"`
	// Via (Op == "move"): one field element object holds A, is observed (Bytes, Sgn0, IsZero, Equals), is driven to B
	// through this mutator, and is observed again.
	Via string `json:"via,omitempty"`
}

var c12Vias = []string{"add", "sub", "mul", "negate", "invert", "cmove0", "cmove1", "set", "one", "sqrtratio", "parse32", "parse24", "wide48", "square"}

func init() {
	register(&mon.Prop{
		ID:      "C12",
		Flavour: "plain",
		Rule: "cases = (op, operands, aliasing of output with inputs) for add, sub, mul, square, neg, invert, sqrt_ratio, sgn0, is_zero, equals, cmove(0/1), set, one, bytes, the 32-byte parser, the 24-byte parser, the 48-byte wide reduction: " +
			"operands from the structured list mod p in the canonical domain and Montgomery-domain structured values (stored limbs 0,1,p-1,2^k,2^k±1,2^256-p±1,p with one limb perturbed), " +
			"operand pairs whose stored forms sum/differ to p-1,p,p+1,2^256-1,2^256,2^256+1,0,1 (pre-reduction values in [p,2^256) that uniform sampling meets with probability 2^-223), limb-structured 4-tuples, PRNG; " +
			"parser inputs p-40..p+40, p with each limb perturbed, 2^256-1; 48-byte inputs k*p±d, halves structured. Oracle: math/big mod p on the stored limbs (value = limbs*2^-256 mod p); every stored result must be < p. " +
			"non-trivial = an operand not in {0,1}; History cases: one field element object holds a value, is read through Bytes/Sgn0/IsZero/Equals, is changed by each mutator (Add, Subtract, Multiply, Negate, Invert, CMove 0/1, Set, One, Square, SqrtRatio as receiver, the three parsers) and is read again. distinct by the whole case. Plus concurrent batches: 8 goroutines run the operations simultaneously on objects they own, each result judged against the oracle.",
		NewCase:  func() any { return &c12Case{} },
		Generate: c12Generate,
		Run:      c12Run,
		Require: func(string) map[string]int64 {
			return map[string]int64{
				"op:add": 2000, "op:sub": 2000, "op:mul": 2000, "op:square": 500, "op:neg": 500, "op:invert": 500, "op:sqrtratio": 500,
				"op:parse32": 1000, "op:parse24": 40, "op:wide48": 1000, "op:cmove": 500, "op:equals": 500, "op:bytes": 500,
				"sqrtratio:qr": 100, "sqrtratio:nqr": 100, "parse32:ge-p": 200, "parse32:lt-p": 200, "invert:0": 1, "class:carry-sum": 300, "class:carry-diff": 300, "alias:out=a": 300, "alias:out=b": 300, "op:move": 300, "via:cmove1": 10, "via:sqrtratio": 10,
			}
		},
	})

	Registry["C12"].ColdStart = func(c *mon.Ctx) { c12RunConc(c, c.Seed*7919+uint64(c.Shard)+1) }
}

func c12Generate(c *mon.Ctx) {
	concBatches(c, c.NConc(6, 300), func(seed uint64) any { return &c12Case{Conc: seed} })

	p := oracle.P
	st := gen.Structured(p)
	hx := func(v *big.Int) string { return fmt.Sprintf("%x", v) }
	aliases := []string{"none", "out=a", "out=b", "a=b", "all"}

	for i, v := range st {
		a, cl := hx(v.X), v.Class
		for _, op := range []string{"square", "neg", "invert", "sgn0", "iszero", "set", "bytes"} {
			for _, al := range []string{"none", "out=a"} {
				op, al := op, al
				c.Structured(func() any { return &c12Case{Op: op, A: a, Alias: al, Class: cl} })
			}
		}

		// x^((p-3)/4) is an unexported helper of sqrt_ratio (only ever called with a fresh output); it is exercised through
		// SqrtRatio, not directly, so that the harness refers to no unexported identifier of the module

		for j := 0; j < 5; j++ {
			w := st[(i*11+j*173+5)%len(st)]
			b := hx(w.X)

			for _, op := range []string{"add", "sub", "mul", "equals", "cmove0", "cmove1", "sqrtratio"} {
				op, al := op, aliases[(i+j)%len(aliases)]
				c.Structured(func() any { return &c12Case{Op: op, A: a, B: b, Alias: al, Class: cl} })
			}
		}

		for _, op := range []string{"add", "sub", "mul", "equals", "sqrtratio"} {
			op := op
			c.Structured(func() any { return &c12Case{Op: op, A: a, B: a, Alias: "all", Class: cl} })
		}
	}

	c.Structured(func() any { return &c12Case{Op: "one", Class: "const"} })

	// history: every mutator of a field element, on an object that already held and reported another value
	mr := c.SharedRng("moves")

	for rep := 0; rep < 30; rep++ {
		for _, via := range c12Vias {
			via, a, b := via, hx(gen.Draw(mr, p).X), hx(gen.Draw(mr, p).X)
			c.Structured(func() any { return &c12Case{Op: "move", Via: via, A: a, B: b, Class: "history"} })
		}
	}

	// parsers
	for _, v := range gen.Raw256(p) {
		in, cl := mon.H(oracle.Bytes32(v.X)), v.Class
		c.Structured(func() any { return &c12Case{Op: "parse32", In: in, Class: cl} })
	}

	// a limb whose product with a fold constant has an all-ones (or unit) low half, with and without a carry from below
	udt := gen.UnitDigitTuples(p)
	for _, v := range udt {
		in := mon.H(oracle.Bytes32(v.X))
		c.Structured(func() any { return &c12Case{Op: "parse32", In: in, Class: v.Class} })

		if v.X.BitLen() <= 192 {
			in24 := mon.H(oracle.Bytes32(v.X)[8:])
			c.Structured(func() any { return &c12Case{Op: "parse24", In: in24, Class: v.Class} })
		}
	}

	for i, v := range udt {
		// both 24-byte chunks of the wide reduction
		w := udt[(i*7+3)%len(udt)]
		b48 := append(append([]byte{}, oracle.Bytes32(v.X)[8:]...), oracle.Bytes32(w.X)[8:]...)
		in48 := mon.H(b48)
		c.Structured(func() any { return &c12Case{Op: "wide48", In: in48, Class: "unit-digit"} })
	}

	two192 := new(big.Int).Lsh(big.NewInt(1), 192)
	two384 := new(big.Int).Lsh(big.NewInt(1), 384)
	halves := []*big.Int{big.NewInt(0), big.NewInt(1), new(big.Int).Sub(two192, big.NewInt(1)), new(big.Int).Lsh(big.NewInt(1), 191), new(big.Int).Lsh(big.NewInt(1), 64), new(big.Int).Sub(new(big.Int).Lsh(big.NewInt(1), 128), big.NewInt(1))}

	for i := 0; i < 7*7*7; i += 9 {
		halves = append(halves, oracle.FromLimbs([4]uint64{gen.LimbAlphabet[i%7], gen.LimbAlphabet[(i/7)%7], gen.LimbAlphabet[(i/49)%7], 0}))
	}

	for _, h := range halves {
		b := make([]byte, 24)
		h.FillBytes(b)
		in := mon.H(b)
		c.Structured(func() any { return &c12Case{Op: "parse24", In: in, Class: "half"} })

		for _, h2 := range halves {
			v := new(big.Int).Add(h, new(big.Int).Mul(h2, two192))
			b48 := make([]byte, 48)
			v.FillBytes(b48)
			in48 := mon.H(b48)
			c.Structured(func() any { return &c12Case{Op: "wide48", In: in48, Class: "halves"} })
		}
	}

	for _, e := range []uint{0, 1, 31, 32, 33, 63, 64, 65, 100, 126, 127} {
		k := new(big.Int).Lsh(big.NewInt(1), e)
		for _, kk := range []*big.Int{k, new(big.Int).Sub(k, big.NewInt(1)), new(big.Int).Add(k, big.NewInt(1))} {
			kp := new(big.Int).Mul(kk, p)
			for d := int64(-2); d <= 2; d++ {
				v := new(big.Int).Add(kp, big.NewInt(d))
				if v.Sign() < 0 || v.Cmp(two384) >= 0 {
					continue
				}

				b48 := make([]byte, 48)
				v.FillBytes(b48)
				in48 := mon.H(b48)
				c.Structured(func() any { return &c12Case{Op: "wide48", In: in48, Class: "multiple-of-p"} })
			}
		}
	}

	for _, b48 := range gen.WideResonant(p) {
		in48 := mon.H(b48)
		c.Structured(func() any { return &c12Case{Op: "wide48", In: in48, Class: "fold-resonant"} })
	}

	for d := int64(1); d <= 3; d++ {
		b48 := make([]byte, 48)
		new(big.Int).Sub(two384, big.NewInt(d)).FillBytes(b48)
		in48 := mon.H(b48)
		c.Structured(func() any { return &c12Case{Op: "wide48", In: in48, Class: "max384"} })
	}

	// limb-structured 4-tuples as stored limbs, pairs
	stride := c.N(17, 1)
	for i := 0; i < gen.NLimbTuples; i += stride {
		a := oracle.Mod(gen.LimbTuple(i), p)
		b := oracle.Mod(gen.LimbTuple((i*37+11)%gen.NLimbTuples), p)
		sa, sb := hx(oracle.FromMont(oracle.Limbs(a), p)), hx(oracle.FromMont(oracle.Limbs(b), p))

		for _, op := range []string{"add", "sub", "mul"} {
			op := op
			c.Structured(func() any { return &c12Case{Op: op, A: sa, B: sb, Alias: "none", Class: "stored-limb-structured"} })
		}

		c.Structured(func() any { return &c12Case{Op: "square", A: sa, Alias: "none", Class: "stored-limb-structured"} })
		c.Structured(func() any { return &c12Case{Op: "neg", A: sa, Alias: "none", Class: "stored-limb-structured"} })
	}

	ops := []string{"add", "sub", "mul", "add", "sub", "mul", "square", "neg", "equals", "cmove0", "cmove1", "bytes", "sgn0", "set", "iszero"}

	c.Random(c.N(600000, 60000000), func(r *gen.Rng) any {
		switch r.Intn(20) {
		case 0:
			v := gen.Draw(r, p)
			return &c12Case{Op: "invert", A: hx(v.X), Alias: []string{"none", "out=a"}[r.Intn(2)], Class: v.Class}
		case 1:
			a, b := gen.Draw(r, p), gen.Draw(r, p)
			return &c12Case{Op: "sqrtratio", A: hx(a.X), B: hx(b.X), Alias: aliases[r.Intn(len(aliases))], Class: a.Class}
		case 2:
			v := gen.Draw256(r, p)
			return &c12Case{Op: "parse32", In: mon.H(oracle.Bytes32(v.X)), Class: v.Class}
		case 3:
			return &c12Case{Op: "wide48", In: mon.H(r.Bytes(48)), Class: "random"}
		case 4:
			a, b := gen.Draw(r, p), gen.Draw(r, p)
			return &c12Case{Op: "sqrtratio", A: hx(a.X), B: hx(b.X), Alias: "none", Class: a.Class}
		}

		var a, b gen.V
		if r.Intn(3) == 0 {
			a, b = gen.PairOnCarry(r, p)
		} else {
			a, b = gen.Draw(r, p), gen.Draw(r, p)
		}

		return &c12Case{Op: ops[r.Intn(len(ops))], A: hx(a.X), B: hx(b.X), Alias: aliases[r.Intn(len(aliases))], Class: a.Class}
	})

	// and again at the end of the shard, when the process has a history behind it
	concBatches(c, c.NConc(4, 200), func(seed uint64) any { return &c12Case{Conc: seed + 50000} })
}

func c12RunMove(c *mon.Ctx, cs *c12Case) {
	from, to := mon.BigH(cs.A), mon.BigH(cs.B)
	aux := oracle.FAdd(to, big.NewInt(12345))

	c.Count("op:move")
	c.Count("via:" + cs.Via)

	// choose From so that the mutator lands on To
	switch cs.Via {
	case "negate":
		from = oracle.FNeg(to)
	case "invert":
		if to.Sign() == 0 {
			to = big.NewInt(7)
		}

		from = oracle.FInv0(to)
	case "mul":
		if from.Sign() == 0 {
			from = big.NewInt(3)
		}
	case "one":
		to = big.NewInt(1)
	case "square":
		to = oracle.FSqr(from)
	case "parse24":
		to = new(big.Int).Rsh(to, 64)
	}

	e := mon.FE(from)
	observe := func(want *big.Int, when string) bool {
		if !mon.FECanonical(e) {
			c.Fail(fmt.Sprintf("field element stored non-canonically %s a %s", when, cs.Via), "field-move-noncanonical:"+cs.Via, nil)
			return false
		}

		held := mon.FEVal(e)
		if want != nil && held.Cmp(want) != 0 {
			c.Fail(fmt.Sprintf("field element holds %x %s %s, want %x", held, when, cs.Via, want), "field-move-value:"+cs.Via, nil)
			return false
		}

		z := uint64(0)
		if held.Sign() == 0 {
			z = 1
		}

		if b := e.Bytes(); !bytes.Equal(b, oracle.Bytes32(held)) || e.Sgn0() != uint64(held.Bit(0)) || e.IsZero() != z || e.Equals(mon.FE(held)) != 1 || e.Equals(mon.FE(oracle.FAdd(held, big.NewInt(1)))) != 0 {
			c.Fail(fmt.Sprintf("Bytes/Sgn0/IsZero/Equals disagree with the stored value %x %s the object was changed by %s (Bytes=%s Sgn0=%d IsZero=%d)", held, when, cs.Via, mon.H(b), e.Sgn0(), e.IsZero()), "field-move-observers:"+cs.Via, nil)
			return false
		}

		return true
	}

	c.Eval(2)

	if !observe(from, "before") {
		return
	}

	var want *big.Int = to

	pan, pv := mon.Call(func() {
		switch cs.Via {
		case "add":
			e.Add(e, mon.FE(oracle.FSub(to, from)))
		case "sub":
			e.Subtract(e, mon.FE(oracle.FSub(from, to)))
		case "mul":
			e.Multiply(e, mon.FE(oracle.FMul(to, oracle.FInv0(from))))
		case "negate":
			e.Negate(e)
		case "invert":
			e.Invert(*e)
		case "cmove0":
			e.CMove(0, mon.FE(to), mon.FE(aux))
		case "cmove1":
			e.CMove(1, mon.FE(aux), mon.FE(to))
		case "set":
			e.Set(mon.FE(to))
		case "one":
			e.One()
		case "square":
			e.Square(e)
		case "sqrtratio":
			// the receiver becomes a root of to^2: either sign is acceptable
			e.SqrtRatio(mon.FE(oracle.FSqr(to)), mon.FE(big.NewInt(1)))
			want = nil
		case "parse32":
			e.FromBytesWithReduce([32]byte(oracle.Bytes32(to)))
		case "parse24":
			e.FromBytesNoReduce(oracle.Bytes32(to)[8:])
		case "wide48":
			in := append(make([]byte, 16), oracle.Bytes32(to)...)
			e.HashToFieldElement([48]byte(in))
		default:
			panic("harness: unknown field move " + cs.Via)
		}
	})
	if pan {
		if m, ok := pv.(string); ok && len(m) > 8 && m[:8] == "harness:" {
			panic(m)
		}

		c.Fail(fmt.Sprintf("field mutator %s panicked: %v", cs.Via, pv), "field-move-panic", nil)

		return
	}

	if cs.Via == "sqrtratio" {
		if h := mon.FEVal(e); oracle.FSqr(h).Cmp(oracle.FSqr(to)) != 0 {
			c.Fail("SqrtRatio receiver is not a root", "field-move-value:sqrtratio", nil)
			return
		}
	}

	if observe(want, "after") {
		c.Seen("move", cs.Via, cs.A, cs.B)
	}
}

func c12Run(c *mon.Ctx, csAny any) {
	cs := csAny.(*c12Case)

	if cs.Conc != 0 {
		c12RunConc(c, cs.Conc)
		return
	}

	if cs.Op == "move" {
		c12RunMove(c, cs)
		return
	}
	p := oracle.P

	op := cs.Op
	if op == "cmove0" || op == "cmove1" {
		c.Count("op:cmove")
	} else {
		c.Count("op:" + op)
	}

	c.Count("class:" + cs.Class)

	if cs.Alias != "" {
		c.Count("alias:" + cs.Alias)
	}

	var av, bv *big.Int

	a, b := field.New(), field.New()

	if cs.A != "" {
		av = mon.BigH(cs.A)
		a = mon.FE(av)
	}

	if cs.B != "" {
		bv = mon.BigH(cs.B)
		b = mon.FE(bv)
	}

	out := mon.FE(big.NewInt(0xbad))

	switch cs.Alias {
	case "out=a":
		out = a
	case "out=b":
		if cs.B != "" {
			out = b
		}
	case "a=b":
		if cs.B != "" {
			b, bv = a, av
		}
	case "all":
		if cs.B != "" {
			b, bv = a, av
		}

		out = a
	}

	ab, bb := a.E, b.E

	checkOut := func(want *big.Int, what string) {
		if !mon.FECanonical(out) {
			c.Fail(fmt.Sprintf("%s left a non-canonical stored value %s (a=%s b=%s alias=%s)", what, mon.HexLimbs(out.E), cs.A, cs.B, cs.Alias), "field-noncanonical:"+op, nil)
			return
		}

		if got := mon.FEVal(out); got.Cmp(want) != 0 {
			c.Fail(fmt.Sprintf("%s(a=%s, b=%s, alias=%s) = %x, want %x", what, cs.A, cs.B, cs.Alias, got, want), "field-value:"+op, nil)
		}
	}

	inputsIntact := func() {
		if out != a && a.E != ab || out != b && b.E != bb {
			c.Fail(op+" modified an input operand", "field-input-modified:"+op, nil)
		}
	}

	c.Eval(1)

	pan, pv := mon.Call(func() {
		switch op {
		case "add":
			out.Add(a, b)
			checkOut(oracle.FAdd(av, bv), "Add")
		case "sub":
			out.Subtract(a, b)
			checkOut(oracle.FSub(av, bv), "Subtract")
		case "mul":
			out.Multiply(a, b)
			checkOut(oracle.FMul(av, bv), "Multiply")
		case "square":
			out.Square(a)
			checkOut(oracle.FSqr(av), "Square")
		case "neg":
			out.Negate(a)
			checkOut(oracle.FNeg(av), "Negate")
		case "invert":
			if av.Sign() == 0 {
				c.Count("invert:0")
			}

			out.Invert(*a)
			checkOut(oracle.FInv0(av), "Invert")

			// the caller goes on working with the result, then the same operation is asked for again into another receiver
			// (a "last result" memo that keeps a pointer to the caller's receiver hands back what the caller made of it)
			if cs.Alias == "" || cs.Alias == "none" {
				out.Add(out, field.New().One()).Square(out)

				again := field.New()
				again.Invert(*a)

				if mon.FEVal(again).Cmp(oracle.FInv0(av)) != 0 || !mon.FECanonical(again) {
					c.Fail(fmt.Sprintf("Invert(%s) asked for a second time, after the caller changed the first result, gives %x, want %x", cs.A, mon.FEVal(again), oracle.FInv0(av)), "field-invert-second-call", nil)
				}

				again.Square(a)

				sq2 := field.New().Square(a)
				if mon.FEVal(sq2).Cmp(oracle.FSqr(av)) != 0 {
					c.Fail(fmt.Sprintf("Square(%s) asked for a second time, after the caller changed the first result, is wrong", cs.A), "field-square-second-call", nil)
				}
			}
		case "set":
			out.Set(a)
			checkOut(av, "Set")
		case "one":
			out.One()
			checkOut(big.NewInt(1), "One")
		case "sgn0":
			if got := a.Sgn0(); got != uint64(av.Bit(0)) {
				c.Fail(fmt.Sprintf("Sgn0(%s) = %d", cs.A, got), "field-sgn0", nil)
			}
		case "iszero":
			want := uint64(0)
			if av.Sign() == 0 {
				want = 1
			}

			if got := a.IsZero(); got != want {
				c.Fail(fmt.Sprintf("IsZero(%s) = %d", cs.A, got), "field-iszero", nil)
			}
		case "equals":
			want := uint64(0)
			if av.Cmp(bv) == 0 {
				want = 1
			}

			if g1, g2 := a.Equals(b), b.Equals(a); g1 != want || g2 != want {
				c.Fail(fmt.Sprintf("Equals(%s,%s) = %d/%d want %d", cs.A, cs.B, g1, g2, want), "field-equals", nil)
			}
		case "cmove0":
			out.CMove(0, a, b)
			checkOut(av, "CMove(0)")
		case "cmove1":
			out.CMove(1, a, b)
			checkOut(bv, "CMove(1)")
		case "bytes":
			got := a.Bytes()
			if !bytes.Equal(got, oracle.Bytes32(av)) {
				c.Fail(fmt.Sprintf("Bytes(%s) = %s", cs.A, mon.H(got)), "field-bytes", nil)
			}

			// the serialisation belongs to the caller: it survives the serialisation of other elements, and writing to it
			// changes nothing
			ov := oracle.FAdd(av, big.NewInt(12345))
			other := mon.FE(ov).Bytes()
			_, _ = mon.FE(oracle.FNeg(av)).Bytes(), field.New().One().Bytes()

			if !bytes.Equal(got, oracle.Bytes32(av)) || !bytes.Equal(other, oracle.Bytes32(ov)) {
				c.Fail(fmt.Sprintf("the slice returned by Bytes(%s) changed when other elements were serialised afterwards", cs.A), "field-bytes-not-retained", nil)
			}

			for i := range got[:cap(got)] {
				got[:cap(got)][i] ^= 0x5a
			}

			if again := a.Bytes(); !bytes.Equal(again, oracle.Bytes32(av)) {
				c.Fail(fmt.Sprintf("Bytes(%s) is wrong after the caller wrote to the slice an earlier call returned", cs.A), "field-bytes-shared", nil)
			}
		case "sqrtratio":
			if bv.Sign() == 0 {
				// v = 0 is outside the statement
				c.Count("sqrtratio:v=0")
				return
			}

			ratio := oracle.FMul(av, oracle.FInv0(bv))
			wantQR := oracle.FIsSquare(ratio)

			var flag uint64

			_, flag = out.SqrtRatio(a, b)

			if !mon.FECanonical(out) {
				c.Fail("SqrtRatio left a non-canonical stored value", "field-noncanonical:sqrtratio", nil)
				return
			}

			r := mon.FEVal(out)
			lhs := oracle.FMul(oracle.FSqr(r), bv)

			if wantQR {
				c.Count("sqrtratio:qr")

				if flag != 1 || lhs.Cmp(oracle.Mod(av, p)) != 0 {
					c.Fail(fmt.Sprintf("SqrtRatio(u=%s, v=%s): u/v is a square but flag=%d, r^2*v==u is %v", cs.A, cs.B, flag, lhs.Cmp(av) == 0), "field-sqrtratio-qr", nil)
				}
			} else {
				c.Count("sqrtratio:nqr")

				if flag != 0 || lhs.Cmp(oracle.FMul(oracle.Z, av)) != 0 {
					c.Fail(fmt.Sprintf("SqrtRatio(u=%s, v=%s): u/v is not a square but flag=%d, r^2*v==Z*u is %v", cs.A, cs.B, flag, lhs.Cmp(oracle.FMul(oracle.Z, av)) == 0), "field-sqrtratio-nqr", nil)
				}
			}
		case "parse32":
			in := mon.UnH(cs.In)
			v := new(big.Int).SetBytes(in)
			_, flag := out.FromBytesWithReduce([32]byte(in))

			if v.Cmp(p) < 0 {
				c.Count("parse32:lt-p")

				if flag != 1 {
					c.Fail(fmt.Sprintf("32-byte parser flagged %s (< p) as out of range", cs.In), "field-parse32-flag", nil)
				}

				checkOut(v, "FromBytesWithReduce")
			} else {
				c.Count("parse32:ge-p")

				if flag != 0 {
					c.Fail(fmt.Sprintf("32-byte parser reported %s (>= p) as in range", cs.In), "field-parse32-flag", nil)
				}

				if !mon.FECanonical(out) {
					c.Fail("32-byte parser left a non-canonical stored value for an input >= p", "field-noncanonical:parse32", nil)
				}
			}
		case "parse24":
			in := mon.UnH(cs.In)
			out.FromBytesNoReduce(in)
			checkOut(new(big.Int).SetBytes(in), "FromBytesNoReduce")
		case "wide48":
			in := mon.UnH(cs.In)
			out.HashToFieldElement([48]byte(in))
			checkOut(oracle.Mod(new(big.Int).SetBytes(in), p), "HashToFieldElement")
		default:
			panic("harness: unknown op " + op)
		}
	})
	if pan {
		if s, ok := pv.(string); ok && len(s) > 8 && s[:8] == "harness:" {
			panic(s)
		}

		c.Fail(fmt.Sprintf("%s panicked: %v", op, pv), "field-panic:"+op, nil)

		return
	}

	switch op {
	case "parse32", "parse24", "wide48", "one":
	default:
		inputsIntact()
	}

	if cs.In != "" || (av != nil && av.BitLen() > 1) || (bv != nil && bv.BitLen() > 1) {
		c.Seen(cs.Op, cs.A, cs.B, cs.Alias, cs.In)

		if c.WantSample() && (cs.Class == "carry-sum" || cs.Class == "carry-diff") && (op == "add" || op == "sub") {
			c.Sample(map[string]any{"case": cs, "stored_a": mon.HexLimbs(ab), "stored_b": mon.HexLimbs(bb), "stored_result": mon.HexLimbs(out.E)})
		}
	}
}

func c12RunConc(c *mon.Ctx, seed uint64) {
	r := concRng("C12", seed)
	p := oracle.P

	var jobs []func() string

	for i := 0; i < concJobs; i++ {
		av, bv := gen.Draw(r, p).X, gen.Draw(r, p).X
		if bv.Sign() == 0 {
			bv = big.NewInt(2)
		}

		a, b := mon.FE(av), mon.FE(bv)
		wInv := oracle.FInv0(av)
		wMul := oracle.FMul(av, bv)
		ratio := oracle.FMul(av, oracle.FInv0(bv))
		qr := oracle.FIsSquare(ratio)
		wBytes := oracle.Bytes32(av)
		in48, in24 := r.Bytes(48), r.Bytes(24)
		w48, w24 := oracle.Mod(new(big.Int).SetBytes(in48), p), new(big.Int).SetBytes(in24)
		jobs = append(jobs, func() string {
			// the loaders: every job parses its own bytes
			for rep := 0; rep < 8; rep++ {
				if got := mon.FEVal(field.New().HashToFieldElement([48]byte(in48))); got.Cmp(w48) != 0 {
					return fmt.Sprintf("HashToFieldElement(%x) = %x", in48, got)
				}

				if got := mon.FEVal(field.New().FromBytesNoReduce(in24)); got.Cmp(w24) != 0 {
					return fmt.Sprintf("FromBytesNoReduce(%x) = %x", in24, got)
				}

				e, _ := field.New().FromBytesWithReduce([32]byte(wBytes))
				if got := mon.FEVal(e); got.Cmp(av) != 0 {
					return fmt.Sprintf("FromBytesWithReduce(%x) = %x", wBytes, got)
				}
			}

			if got := mon.FEVal(field.New().Invert(*a)); got.Cmp(wInv) != 0 {
				return fmt.Sprintf("Invert(%x) = %x", av, got)
			}

			if got := mon.FEVal(field.New().Multiply(a, b)); got.Cmp(wMul) != 0 {
				return fmt.Sprintf("Multiply(%x,%x) = %x", av, bv, got)
			}

			e, flag := field.New().SqrtRatio(a, b)
			lhs := oracle.FMul(oracle.FSqr(mon.FEVal(e)), bv)

			if (flag == 1) != qr || (qr && lhs.Cmp(av) != 0) || (!qr && lhs.Cmp(oracle.FMul(oracle.Z, av)) != 0) {
				return fmt.Sprintf("SqrtRatio(%x,%x) wrong", av, bv)
			}

			if !bytes.Equal(a.Bytes(), wBytes) || a.Sgn0() != uint64(av.Bit(0)) {
				return fmt.Sprintf("Bytes/Sgn0(%x) wrong", av)
			}

			return ""
		})
	}

	if c.RunConcurrent("field loaders (HashToFieldElement, FromBytesNoReduce, FromBytesWithReduce) / Invert / Multiply / SqrtRatio / Bytes / Sgn0", "field-concurrent", 300, jobs) {
		c.Seen("conc", seed)
	}
}
