//go:build verif && (p_all || p_c09)

package props

import (
	"bytes"
	"fmt"
	"math/big"

	"github.com/bytemare/secp256k1"
	"github.com/bytemare/secp256k1/internal/scalar"
	"github.com/bytemare/secp256k1/zz_verif/gen"
	"github.com/bytemare/secp256k1/zz_verif/mon"
	"github.com/bytemare/secp256k1/zz_verif/oracle"
)

// C09 — HashToScalar is RFC 9380 hash_to_field over the scalar field.

type c09Case struct {
	Kind string  `json:"kind"` // hash | reduce
	H    h2cCase `json:"h,omitempty"`
	B48  string  `json:"b48,omitempty"`
	Cls  string  `json:"class"`
}

func init() {
	register(&mon.Prop{
		ID:      "C09",
		Flavour: "plain",
		Rule: "hash cases = (message, DST, slice layout) as for C08 (lengths around SHA-256 block boundaries, DST lengths on both sides of 255 and at 65535..196863 bytes, nil/empty DST must panic, spare-capacity sub-slices, PRNG pairs), buffer-reuse sequences (successive DSTs written into the same buffer) and concurrent batches. " +
			"Message lengths 0..520 against 49/16/255/256-byte tags; call sequences on fresh buffers in which HashToScalar follows HashToGroup / EncodeToGroup calls under the same tag (96- then 48-byte expansion), colliding tag/message framings, 1-3 byte tags, repeats. " +
			"reduce cases = 48-byte strings fed to the wide-reduction step alone (the step a hash output cannot steer): low and high 24-byte halves independently from {0,1,2^192-1,2^191,limb patterns,random}, " +
			"k*n and k*n±1 for k up to 2^128 (results 0, 1, n-1 needing the final subtraction), all-ones, 2^384-1 neighbours, PRNG. " +
			"Oracle: OS2IP(expand_message_xmd(msg,DST,48)) mod n, resp. OS2IP(b) mod n, in math/big; the stored limbs must be < n. non-trivial = all non-panicking cases; distinct by input.",
		NewCase:  func() any { return &c09Case{} },
		Generate: c09Generate,
		Run:      c09Run,
		Require: func(string) map[string]int64 {
			return map[string]int64{"hash": 1000, "reduce": 5000, "reduce:multiple-of-n": 50, "reduce:result<3": 20, "dst:oversize": 50, "panic:empty-dst": 3, "reduce:top-bits-set": 500, "reuse-sequences": 100, "concurrent-batches": 4, "sequences": 100}
		},
	})

	Registry["C09"].ColdStart = func(c *mon.Ctx) {
		r := c.SharedRng(fmt.Sprintf("cold%d", c.Shard))
		cs := &h2cCase{Fn: []string{"H2S", "E2G", "H2S"}[c.Shard%3], Layout: "exact", Class: "concurrent-cold-start"}
		if "H2S" == "H2S" {
			cs.Fn = "H2S"
		}

		for g := 0; g < 16; g++ {
			cs.Conc = append(cs.Conc, h2cPair{Msg: mon.H(r.Bytes(4 + g)), Dst: mon.H(r.Bytes([]int{20, 300}[g%2]))})
		}

		h2cRunHistory(c, cs)
	}
}

func c09Generate(c *mon.Ctx) {
	// hash cases: reuse the C08 generator through a wrapper context trick — generate h2cCases and wrap them
	sub := &mon.Prop{ID: c.Prop.ID}
	_ = sub

	h2cGenerateWrapped(c, c.N(20000, 2000000))

	n := oracle.N
	two192 := new(big.Int).Lsh(big.NewInt(1), 192)
	two384 := new(big.Int).Lsh(big.NewInt(1), 384)

	emit := func(v *big.Int, cls string) {
		if v.Sign() < 0 || v.Cmp(two384) >= 0 {
			return
		}

		b := make([]byte, 48)
		v.FillBytes(b)
		h := mon.H(b)
		c.Structured(func() any { return &c09Case{Kind: "reduce", B48: h, Cls: cls} })
	}

	halves := []*big.Int{big.NewInt(0), big.NewInt(1), big.NewInt(2), new(big.Int).Sub(two192, big.NewInt(1)), new(big.Int).Sub(two192, big.NewInt(2)),
		new(big.Int).Lsh(big.NewInt(1), 191), new(big.Int).Lsh(big.NewInt(1), 128), new(big.Int).Lsh(big.NewInt(1), 64), new(big.Int).Sub(new(big.Int).Lsh(big.NewInt(1), 64), big.NewInt(1))}
	for i := 0; i < 7*7*7; i += 5 {
		l := [4]uint64{gen.LimbAlphabet[i%7], gen.LimbAlphabet[(i/7)%7], gen.LimbAlphabet[(i/49)%7], 0}
		halves = append(halves, oracle.FromLimbs(l))
	}

	for _, a := range halves {
		for _, b := range halves {
			emit(new(big.Int).Add(a, new(big.Int).Mul(b, two192)), "halves")
		}
	}

	ks := []*big.Int{big.NewInt(1), big.NewInt(2), big.NewInt(3)}
	for _, e := range []uint{8, 31, 32, 63, 64, 65, 96, 126, 127} {
		k := new(big.Int).Lsh(big.NewInt(1), e)
		ks = append(ks, k, new(big.Int).Sub(k, big.NewInt(1)), new(big.Int).Add(k, big.NewInt(1)))
	}

	ks = append(ks, new(big.Int).Sub(new(big.Int).Lsh(big.NewInt(1), 128), big.NewInt(1)))

	for _, k := range ks {
		kn := new(big.Int).Mul(k, n)
		for d := int64(-2); d <= 2; d++ {
			emit(new(big.Int).Add(kn, big.NewInt(d)), "multiple-of-n")
		}
	}

	for d := int64(1); d <= 4; d++ {
		emit(new(big.Int).Sub(two384, big.NewInt(d)), "max384")
	}

	for _, b := range gen.WideResonant(n) {
		emit(new(big.Int).SetBytes(b), "fold-resonant")
	}

	for _, v := range append(gen.Raw256(n), gen.UnitDigitTuples(n)...) {
		emit(v.X, "below-2^256:"+v.Class)
		emit(new(big.Int).Add(new(big.Int).Lsh(v.X, 128), v.X), "spread:"+v.Class)
	}

	c.Random(c.N(200000, 20000000), func(r *gen.Rng) any {
		var v *big.Int

		switch r.Intn(4) {
		case 0:
			k := new(big.Int).SetBytes(r.Bytes(16))
			k.Rsh(k, uint(r.Intn(128)))
			v = new(big.Int).Mul(k, n)
			v.Add(v, big.NewInt(int64(r.Intn(5))-2))

			if v.Sign() < 0 || v.Cmp(two384) >= 0 {
				v = new(big.Int).SetBytes(r.Bytes(48))
			}
		case 1:
			a, b := halves[r.Intn(len(halves))], halves[r.Intn(len(halves))]
			if r.Bool() {
				a = new(big.Int).SetBytes(r.Bytes(24))
			} else if r.Bool() {
				b = new(big.Int).SetBytes(r.Bytes(24))
			}

			v = new(big.Int).Add(a, new(big.Int).Mul(b, two192))
		default:
			v = new(big.Int).SetBytes(r.Bytes(48))
		}

		b := make([]byte, 48)
		v.FillBytes(b)

		return &c09Case{Kind: "reduce", B48: mon.H(b), Cls: "random"}
	})
}

// h2cGenerateWrapped emits C08-style (msg, DST, layout) cases wrapped as C09 hash cases.
func h2cGenerateWrapped(c *mon.Ctx, nRandom int) {
	pat := func(n int, seed byte) []byte {
		b := make([]byte, n)
		for i := range b {
			b[i] = byte(i*11+5) ^ seed
		}

		return b
	}

	k := 0

	for _, ml := range h2cMsgLens {
		for _, dl := range h2cDstLens {
			if !(ml == 0 || ml == 64 || dl == 16 || dl == 255 || dl == 256 || (ml+dl)%4 == 0) {
				continue
			}

			k++
			cs := &c09Case{Kind: "hash", H: h2cCase{Fn: "H2S", Msg: mon.H(pat(ml, 0x21)), Dst: mon.H(pat(dl, 0x6b)), Layout: h2cLayouts[k%len(h2cLayouts)]}, Cls: "lengths"}
			c.Structured(func() any { return cs })
		}
	}

	for i, dl := range h2cHugeDstLens {
		cs := &c09Case{Kind: "hash", H: h2cCase{Fn: "H2S", Msg: mon.H(pat(i, 0x29)), Dst: mon.H(pat(dl, byte(0x50+i))), Layout: "exact"}, Cls: "huge-dst"}
		c.Structured(func() any { return cs })
	}

	rr := c.SharedRng("reuse")

	for i := 0; i < 120; i++ {
		dl := []int{16, 49, 255, 256, 300, 1, 32, 600}[i%8]
		h := h2cCase{Fn: "H2S", Layout: h2cLayouts[i%len(h2cLayouts)], Class: "reuse"}

		for j := 0; j < 3+i%2; j++ {
			l := dl
			if i%5 == 4 && j == 1 {
				l = dl + 1
			}

			m := rr.Bytes(8)
			if j > 0 && i%3 == 0 {
				m = mon.UnH(h.Reuse[0].Msg)
			}

			h.Reuse = append(h.Reuse, h2cPair{Msg: mon.H(m), Dst: mon.H(rr.Bytes(l))})
		}

		if i%4 == 0 {
			h.Reuse = append(h.Reuse, h.Reuse[0])
		}

		cs := &c09Case{Kind: "hash", H: h, Cls: "reuse"}
		c.Structured(func() any { return cs })
	}

	for b := 0; b < 8; b++ {
		h := h2cCase{Fn: "H2S", Layout: "exact", Class: "concurrent"}
		for g := 0; g < 40; g++ {
			dl := []int{20, 300, 255, 256, 700, 16, 300, 49}[g%8]
			if b%2 == 1 {
				dl = []int{300, 300, 400, 400, 300, 256, 257, 1000}[g%8]
			}

			h.Conc = append(h.Conc, h2cPair{Msg: mon.H(rr.Bytes(5 + g)), Dst: mon.H(rr.Bytes(dl))})
		}

		cs := &c09Case{Kind: "hash", H: h, Cls: "concurrent"}
		c.Structured(func() any { return cs })
	}

	for _, h := range h2cExtraCases(c, []string{"H2S"}) {
		cs := &c09Case{Kind: "hash", H: *h, Cls: h.Class}
		c.Structured(func() any { return cs })
	}

	c.Structured(func() any { return &c09Case{Kind: "hash", H: h2cCase{Fn: "H2S", Msg: "616263", NilDst: true, Layout: "exact"}, Cls: "nil-dst"} })
	c.Structured(func() any { return &c09Case{Kind: "hash", H: h2cCase{Fn: "H2S", Msg: "616263", Dst: "", Layout: "exact"}, Cls: "empty-dst"} })
	c.Structured(func() any { return &c09Case{Kind: "hash", H: h2cCase{Fn: "H2S", Msg: "616263", Dst: "", Layout: "spare8"}, Cls: "empty-dst"} })
	c.Structured(func() any { return &c09Case{Kind: "hash", H: h2cCase{Fn: "H2S", NilMsg: true, Dst: mon.H([]byte("verif-c09-dst")), Layout: "exact"}, Cls: "nil-msg"} })

	c.Random(nRandom, func(r *gen.Rng) any {
		ml := r.Intn(200)
		dl := h2cDstLens[r.Intn(len(h2cDstLens))]

		if r.Intn(3) == 0 {
			dl = 1 + r.Intn(300)
		}

		return &c09Case{Kind: "hash", H: h2cCase{Fn: "H2S", Msg: mon.H(r.Bytes(ml)), Dst: mon.H(r.Bytes(dl)), Layout: h2cLayouts[r.Intn(len(h2cLayouts))]}, Cls: "random"}
	})
}

func c09Run(c *mon.Ctx, csAny any) {
	cs := csAny.(*c09Case)
	n := oracle.N

	switch cs.Kind {
	case "hash":
		if h2cRunHistory(c, &cs.H) {
			c.Count("hash")
			return
		}

		msg, dst, _, _ := h2cInputs(&cs.H, 0x3c)

		var s *secp256k1.Scalar

		msgWas, dstWas := append([]byte{}, msg...), append([]byte{}, dst...)

		c.Eval(1)
		pan, pv := mon.Call(func() { s = secp256k1.HashToScalar(msg, dst) })

		if !bytes.Equal(msg, msgWas) || !bytes.Equal(dst, dstWas) {
			c.Fail(fmt.Sprintf("HashToScalar changed the contents of its message/DST arguments (layout %s)", cs.H.Layout), "h2s-mutates-arguments", nil)
			return
		}

		if len(dst) == 0 {
			c.Count("panic:empty-dst")

			if !pan {
				c.Fail("HashToScalar with an empty/nil DST did not panic", "h2s-empty-dst-no-panic", nil)
			}

			return
		}

		if pan {
			c.Fail(fmt.Sprintf("HashToScalar panicked on msg[%d], dst[%d]: %v", len(msg), len(dst), pv), "h2s-panic", nil)
			return
		}

		c.Count("hash")

		if len(dst) > 255 {
			c.Count("dst:oversize")
		}

		want := oracle.HashToScalar(msg, dst)
		if got := mon.ScalVal(s); got.Cmp(want) != 0 || !mon.ScalCanonical(s) {
			c.Fail(fmt.Sprintf("HashToScalar(msg[%d], dst[%d]) = %x, want %x", len(msg), len(dst), got, want), "h2s-value", nil)

			return
		}

		s2 := secp256k1.HashToScalar(append([]byte{}, msg...), append([]byte{}, dst...))
		c.Eval(1)

		if s2.Equal(s) != 1 {
			c.Fail("HashToScalar is not deterministic in (msg, DST) contents", "h2s-nondeterministic", nil)
		}

		// the results belong to the caller: it changes both in place (a nonce derived from the hash), then asks again
		s2.Add(secp256k1.NewScalar().One())
		s.Multiply(s2)
		s2.Zero()

		s3 := secp256k1.HashToScalar(msg, dst)
		c.Eval(1)
		c.Count("asked-again-after-results-were-changed")

		if got := mon.ScalVal(s3); got.Cmp(want) != 0 || !mon.ScalCanonical(s3) {
			c.Fail(fmt.Sprintf("HashToScalar(msg[%d], dst[%d]) = %x, want %x, on the third identical call, after the caller changed the first two results in place", len(msg), len(dst), got, want), "h2s-value-after-results-changed", nil)
		}

		c.Seen("hash", cs.H.Msg, cs.H.Dst, cs.H.NilMsg)
	case "reduce":
		b := mon.UnH(cs.B48)
		v := new(big.Int).SetBytes(b)
		want := oracle.Mod(v, n)

		c.Count("reduce")

		if cs.Cls == "multiple-of-n" {
			c.Count("reduce:multiple-of-n")
		}

		if want.BitLen() <= 2 {
			c.Count("reduce:result<3")
		}

		if b[0]&0x80 != 0 {
			c.Count("reduce:top-bits-set")
		}

		s := secp256k1.NewScalar()
		s.S = oracle.ToMont(big.NewInt(0x77), n) // pre-load: the output must not depend on it

		c.Eval(1)

		if pan, pv := mon.Call(func() { scalar.HashToFieldElement(&s.S, [48]byte(b)) }); pan {
			c.Fail(fmt.Sprint("wide reduction panicked: ", pv), "reduce-panic", nil)
			return
		}

		if got := mon.ScalVal(s); got.Cmp(want) != 0 {
			c.Fail(fmt.Sprintf("wide reduction of %s = %x, want %x", cs.B48, got, want), "reduce-value", nil)
		} else if !mon.ScalCanonical(s) {
			c.Fail("wide reduction left a non-canonical stored value "+mon.HexLimbs(s.S), "reduce-noncanonical", nil)
		}

		c.Seen("reduce", cs.B48)

		if c.WantSample() && cs.Cls == "multiple-of-n" {
			c.Sample(map[string]any{"case": cs, "expected": fmt.Sprintf("%064x", want), "observed": fmt.Sprintf("%064x", mon.ScalVal(s))})
		}
	default:
		panic("harness: unknown kind " + cs.Kind)
	}
}
