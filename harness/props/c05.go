//go:build verif && (p_all || p_c05)

package props

import (
	"fmt"

	"math/big"

	"github.com/bytemare/secp256k1"
	"github.com/bytemare/secp256k1/zz_verif/gen"
	"github.com/bytemare/secp256k1/zz_verif/mon"
	"github.com/bytemare/secp256k1/zz_verif/oracle"
)

// C05 — Equal / IsIdentity are representation-independent.

type c05Case struct {
	// Conc != 0: a concurrent batch (8 goroutines on objects they own) derived from this seed; other fields unused.
	Conc uint64 `json:"concurrent_seed,omitempty"`
	A    mon.ElemCase `json:"a"`
	B    mon.ElemCase `json:"b"`
	Rel  string       `json:"rel"`
	Same bool         `json:"same_pointer,omitempty"`
	// Move: operand A is an object that first held Move.From, was compared, and was then driven to Move.To (A is ignored).
	Move *mon.ElemMove `json:"move,omitempty"`
	// NegFirst: operand A is negated through the library's own Negate before it is compared (its value is then -A.P).
	NegFirst bool `json:"negate_a_first,omitempty"`
	// DblFirst: operand A is doubled through the library's own Double before it is compared (its value is then 2*A.P); used
	// with representations of A that put an intermediate of the doubling formula on a structured stored value.
	DblFirst bool `json:"double_a_first,omitempty"`
}

func init() {
	register(&mon.Prop{
		ID:      "C05",
		Flavour: "plain",
		Rule: "cases = (P, Q, representation of each): Q in {O,P,-P (same x),2P,-2P,phiP,phi2P (same y),-phiP,-phi2P,unrelated} for every pool point, " +
			"each operand independently in affine / λ-scaled (structured and random λ) / identity (0:Y:0) forms; identity vs identity in all form pairs; self-comparison through one pointer. " +
			"Oracle: equality of the affine values held in math/big; both argument orders; results must be exactly 0 or 1; IsIdentity must equal (value == O). " +
			"" +
			"Further relation classes: distinct points on a common line of slope ±1, ±2, ±1/2 through P (equal x+y, x-y, ... : what a folded comparison cannot tell apart); both operands scaled by factors whose stored form equals the stored form of 1 in three limbs (what a limb-dropping 'z == 1' fast path confuses with affine). " +
			"History cases: operand A is an object that held another value, was compared, and was then driven to its value through each mutator of the API. " +
			"Operands are also made by the library itself: the constructors (NewElement, Identity, Base), [k]P and [k]O for every notable scalar, sums / differences / doubles / negations of operands in every structured representation, a raw X or Y steered onto structured stored values with the library's Negate applied first, a Z in a single stored limb with a cross product steered to a small stored value. non-trivial = operands in different representations or different values; distinct by the whole case. Plus concurrent batches: 8 goroutines run the operations simultaneously on objects they own, each result judged against the oracle.",
		NewCase:  func() any { return &c05Case{} },
		Generate: c05Generate,
		Run:      c05Run,
		Require: func(string) map[string]int64 {
			return map[string]int64{
				"rel:P": 200, "rel:-P": 200, "rel:phiP": 200, "rel:phi2P": 200, "rel:O": 200, "rel:unrelated": 200,
				"equal-expected": 200, "unequal-expected": 1000, "O-vs-O": 100, "same-pointer": 20, "scaled-vs-scaled-equal": 100, "rel:same-line": 100, "one-adjacent-pair": 200, "history-cases": 400, "serialised-before-compare": 300,
			}
		},
	})

	Registry["C05"].ColdStart = func(c *mon.Ctx) { c05RunConc(c, c.Seed*7919+uint64(c.Shard)+1) }
}

func c05Generate(c *mon.Ctx) {
	concBatches(c, c.NConc(6, 300), func(seed uint64) any { return &c05Case{Conc: seed} })

	pool := gen.NewPool(c.SharedRng("pool"), 8)
	sr := c.SharedRng("structured")

	for i, pv := range pool.NonInf {
		other := pool.NonInf[(i+11)%len(pool.NonInf)]
		ra := gen.StructuredReprs(false)

		for j, q := range gen.Related(pv.P, other.P) {
			rb := gen.StructuredReprs(q.P.IsInf())
			for k := 0; k < 6; k++ {
				r1 := ra[(i+k)%len(ra)]
				r2 := rb[(i+j+2*k)%len(rb)]

				if k == 0 {
					r1, r2 = ra[0], rb[0]
				}

				if k == 5 {
					r1, r2 = gen.DrawRepr(sr, false), gen.DrawRepr(sr, q.P.IsInf())
				}

				a, b, rel := mon.MkElemCase(pv, r1), mon.MkElemCase(q, r2), q.Tag
				c.Structured(func() any { return &c05Case{A: a, B: b, Rel: rel} })
			}
		}

		for _, rp := range ra {
			a := mon.MkElemCase(pv, rp)
			c.Structured(func() any { return &c05Case{A: a, B: a, Rel: "P", Same: true} })
		}
	}

	// an operand produced by the library's own Double from a representation that puts Y^2, Z^2, YZ or XY on a structured
	// stored value (all ones below bit 253, around multiples of 2^252..2^255, ...), compared with 2P and with P
	targets := gen.StoredTargets(oracle.P)
	for ti := 0; ti < len(targets); ti += c.Stride() {
		pv := pool.NonInf[ti%len(pool.NonInf)]

		for _, which := range []string{"Y2", "Z2", "YZ", "XY"} {
			if rp, ok := gen.ReprHitting(pv.P, which, targets[ti]); ok {
				a := mon.MkElemCase(pv, rp)
				b2 := mon.MkElemCase(gen.PV{P: oracle.Dbl(pv.P), Tag: "2P"}, gen.Repr{Kind: "affine", L: big.NewInt(1)})
				b1 := mon.MkElemCase(pv, gen.Repr{Kind: "affine", L: big.NewInt(1)})
				c.Structured(func() any { return &c05Case{A: a, B: b2, Rel: "P", DblFirst: true} })

				if ti%8 == 0 {
					c.Structured(func() any { return &c05Case{A: a, B: b1, Rel: "2P", DblFirst: true} })
				}
			}
		}
	}

	// points on a common line through P
	slopes := []*big.Int{big.NewInt(1), oracle.FNeg(big.NewInt(1)), big.NewInt(2), oracle.FNeg(big.NewInt(2)), oracle.FInv0(big.NewInt(2)), oracle.FNeg(oracle.FInv0(big.NewInt(2)))}

	for i := 0; i < c.N(300, 3000); i++ {
		pv := gen.Fresh(sr)
		for _, m := range slopes {
			if q, ok := gen.SameLine(pv.P, m); ok {
				ra, rb := gen.DrawRepr(sr, false), gen.DrawRepr(sr, false)
				if i%3 == 0 {
					ra, rb = gen.Repr{Kind: "affine", L: big.NewInt(1)}, gen.Repr{Kind: "affine", L: big.NewInt(1)}
				}

				a, b := mon.MkElemCase(pv, ra), mon.MkElemCase(gen.PV{P: q, Tag: "same-line"}, rb)
				c.Structured(func() any { return &c05Case{A: a, B: b, Rel: "same-line"} })
			}
		}
	}

	// both operands with z adjacent to the stored form of 1
	oa := gen.OneAdjacentLambdas()

	for i, pv := range pool.NonInf {
		for j := 0; j < 6; j++ {
			l1, l2 := oa[(i+j)%len(oa)], oa[(i*7+j*3+1)%len(oa)]
			r1, r2 := gen.Repr{Kind: "scaled", L: l1}, gen.Repr{Kind: "scaled", L: l2}
			a := mon.MkElemCase(pv, r1)
			b := mon.MkElemCase(pv, r2)
			nb := mon.MkElemCase(gen.PV{P: oracle.Neg(pv.P), Tag: "-P"}, r2)
			aff := mon.MkElemCase(pv, gen.Repr{Kind: "affine", L: big.NewInt(1)})
			c.Structured(func() any { return &c05Case{A: a, B: b, Rel: "P", Same: false} })
			c.Structured(func() any { return &c05Case{A: a, B: nb, Rel: "-P"} })
			c.Structured(func() any { return &c05Case{A: a, B: aff, Rel: "P"} })
			c.Structured(func() any { return &c05Case{A: aff, B: b, Rel: "P"} })
		}
	}

	// the identity as the package's constructors hand it out (NewElement, Identity) and the generator from Base(), against
	// every pool point in several representations and against each other
	for i, pv := range pool.All {
		reprs := gen.StructuredReprs(pv.P.IsInf())

		for k := 5; k <= 8; k++ {
			nat := mon.MkNatElemCase(pv, k)
			b := mon.MkElemCase(pv, reprs[(i+k)%len(reprs)])
			rel := "unrelated"

			switch {
			case (k <= 6 || k == 8) && pv.P.IsInf():
				rel = "P"
			case k == 7 && !pv.P.IsInf() && pv.P.Equal(oracle.G()):
				rel = "P"
			}

			c.Structured(func() any { return &c05Case{A: nat, B: b, Rel: rel} })
			c.Structured(func() any { return &c05Case{A: b, B: nat, Rel: rel} })
		}
	}

	// operands that are products [k]P computed by the library itself, for the notable scalars (0, 1, n-1, powers of two,
	// zero limbs, the endomorphism eigenvalues, ...): whatever form Multiply leaves them in, against the oracle's [k]P
	sp := gen.ScalarSpecials()
	for i := 0; i < len(sp); i++ {
		k := sp[i]
		pv := pool.NonInf[i%len(pool.NonInf)]

		if i%7 == 3 {
			pv = gen.PV{P: oracle.Inf(), Tag: "O"} // [k]O, from an identity the library itself produced
		}
		i, pv, k := i, pv, k

		// (built inside the closures: only the shard that runs the case pays for the oracle's multiplication)
		mk := func() (a, b, o mon.ElemCase) {
			a = mon.MkMulKElemCase(pv, k.X)
			want := gen.PV{P: a.P.Pt(), Tag: "kP"}
			rs := gen.StructuredReprs(want.P.IsInf())
			b = mon.MkElemCase(want, rs[i%len(rs)])
			o = mon.MkElemCase(gen.PV{P: oracle.Inf(), Tag: "O"}, gen.StructuredReprs(true)[0])

			return a, b, o
		}

		c.Structured(func() any { a, b, _ := mk(); return &c05Case{A: a, B: b, Rel: "P"} })
		c.Structured(func() any { a, _, o := mk(); return &c05Case{A: o, B: a, Rel: "unrelated"} })
	}

	// operands that are sums / differences / doubles / negations computed by the library from operands in every structured
	// representation (an operation that mistakes one representation for another gives a wrong element, which then compares
	// unequal to the same sum computed from other representations)
	srs := gen.StructuredReprs(false)
	for i, pv := range pool.NonInf {
		q := pool.NonInf[(i+9)%len(pool.NonInf)]

		for j, rq := range srs {
			rp := srs[(i+3*j)%len(srs)]
			op := []string{"add", "sub", "double", "negate"}[(i+j)%4]
			a := mon.MkOpElemCase(op, mon.MkElemCase(pv, rp), mon.MkElemCase(q, rq))
			b := mon.MkOpElemCase(op, mon.MkElemCase(pv, srs[0]), mon.MkElemCase(q, srs[0]))
			c.Structured(func() any { return &c05Case{A: a, B: b, Rel: "P"} })
		}
	}

	// ... and sums of the SAME element given in two different representations (P + P', P - P', P + (-P)'), every pair of
	// structured representations: a doubling test on coordinates instead of on the group element
	for i, pv := range pool.NonInf {
		if i%3 != 0 {
			continue
		}

		for j, rq := range srs {
			rp := srs[(i+5*j+1)%len(srs)]
			npv := gen.PV{P: oracle.Neg(pv.P), Tag: "-P"}
			a1 := mon.MkOpElemCase("add", mon.MkElemCase(pv, rp), mon.MkElemCase(pv, rq))
			a2 := mon.MkOpElemCase("sub", mon.MkElemCase(pv, rp), mon.MkElemCase(npv, rq))
			a3 := mon.MkOpElemCase("add", mon.MkElemCase(pv, rp), mon.MkElemCase(npv, rq))
			dbl := mon.MkElemCase(gen.PV{P: oracle.Dbl(pv.P), Tag: "2P"}, srs[j%len(srs)])
			o := mon.MkElemCase(gen.PV{P: oracle.Inf(), Tag: "O"}, gen.StructuredReprs(true)[j%len(gen.StructuredReprs(true))])
			c.Structured(func() any { return &c05Case{A: a1, B: dbl, Rel: "P"} })
			c.Structured(func() any { return &c05Case{A: a2, B: dbl, Rel: "P"} })
			c.Structured(func() any { return &c05Case{A: a3, B: o, Rel: "P"} })
			c.Structured(func() any { return &c05Case{A: a1, B: o, Rel: "unrelated"} })
		}
	}

	n5, n6 := mon.MkNatElemCase(pool.All[0], 5), mon.MkNatElemCase(pool.All[0], 6)
	c.Structured(func() any { return &c05Case{A: n5, B: n6, Rel: "P"} })
	c.Structured(func() any { return &c05Case{A: n5, B: n5, Rel: "P"} })

	// one operand's raw X resp. Y sits on a structured stored value (what Negate, and the cross products of the equality test,
	// start from)
	tg := gen.StoredTargets(oracle.P)
	for ti, t := range tg {
		pv := pool.NonInf[ti%len(pool.NonInf)]

		for wi, which := range []string{"Y", "X"} {
			rp, ok := gen.ReprHitting(pv.P, which, t)
			if !ok {
				continue
			}

			a := mon.MkElemCase(pv, rp)
			rb := gen.StructuredReprs(false)[(ti+wi)%len(gen.StructuredReprs(false))]
			b := mon.MkElemCase(pv, rb)
			nb := mon.MkElemCase(gen.PV{P: oracle.Neg(pv.P), Tag: "-P"}, rb)
			c.Structured(func() any { return &c05Case{A: a, B: b, Rel: "P"} })
			c.Structured(func() any { return &c05Case{A: a, B: nb, Rel: "P", NegFirst: true} })
			c.Structured(func() any { return &c05Case{A: a, B: b, Rel: "-P", NegFirst: true} })
		}
	}

	// one operand's Z occupies a single stored limb, the other operand is scaled so that a cross product of the equality test
	// (X2*Z1, Y2*Z1) has a small stored value: where a short-operand multiplication path must get its last carry right
	small := gen.SmallStoredTargets()

	for i, pv := range pool.NonInf {
		if i%2 != 0 {
			continue
		}

		for j, sl := range gen.SingleLimbStored() {
			l1 := oracle.FromMont(sl, oracle.P)
			r1 := gen.Repr{Kind: "scaled", L: l1}

			for k := 0; k < 6; k++ {
				t := small[(i+j*5+k*7)%len(small)]
				which := []string{"X2Z1", "Y2Z1"}[k%2]

				if r2, ok := gen.ReprPairHitting(pv.P, pv.P, l1, which, t); ok {
					a, b := mon.MkElemCase(pv, r1), mon.MkElemCase(pv, r2)
					nb := mon.MkElemCase(gen.PV{P: oracle.Neg(pv.P), Tag: "-P"}, r2)
					c.Structured(func() any { return &c05Case{A: a, B: b, Rel: "P"} })
					c.Structured(func() any { return &c05Case{A: b, B: a, Rel: "P"} })
					c.Structured(func() any { return &c05Case{A: a, B: nb, Rel: "-P"} })
				}
			}
		}
	}

	// history cases
	hr := c.SharedRng("moves")

	for rep := 0; rep < 20; rep++ {
		for _, via := range mon.ElemVias {
			mv := mon.PlanElemMove(via, hr)
			to := gen.PV{P: mv.To.Pt(), Tag: "moved"}

			// compared with the same value materialised directly, and with its negation
			same := mon.MkElemCase(to, gen.DrawRepr(hr, to.P.IsInf()))
			neg := mon.MkElemCase(gen.PV{P: oracle.Neg(to.P), Tag: "-P"}, gen.DrawRepr(hr, to.P.IsInf()))

			if rep%2 == 0 && !to.P.IsInf() {
				// the other operand straight out of the decoder
				same = mon.MkNatElemCase(to, 4)
				neg = mon.MkNatElemCase(gen.PV{P: oracle.Neg(to.P), Tag: "-P"}, 4)
			}
			c.Structured(func() any { return &c05Case{B: same, Rel: "P", Move: &mv} })
			c.Structured(func() any { return &c05Case{B: neg, Rel: "-P", Move: &mv} })

			// and with an unrelated finite point: a degenerate (0:0:0) left behind by a mutator "equals" everything
			un := mon.MkElemCase(gen.PV{P: gen.Fresh(hr).P, Tag: "unrelated"}, gen.DrawRepr(hr, false))
			c.Structured(func() any { return &c05Case{B: un, Rel: "unrelated", Move: &mv} })
		}
	}

	o := gen.PV{P: oracle.Inf(), Tag: "O"}
	ids := gen.StructuredReprs(true)

	for _, r1 := range ids {
		for _, r2 := range ids {
			a, b := mon.MkElemCase(o, r1), mon.MkElemCase(o, r2)
			c.Structured(func() any { return &c05Case{A: a, B: b, Rel: "O"} })
		}

		a := mon.MkElemCase(o, r1)
		c.Structured(func() any { return &c05Case{A: a, B: a, Rel: "O", Same: true} })
	}

	c.Random(c.N(100000, 10000000), func(r *gen.Rng) any {
		var pv gen.PV
		if r.Intn(3) == 0 {
			pv = pool.Draw(r)
		} else {
			pv = gen.Fresh(r)
		}

		var q gen.PV

		if pv.P.IsInf() {
			if r.Bool() {
				q = pv
			} else {
				q = gen.Fresh(r)
				q.Tag = "unrelated"
			}
		} else {
			rels := gen.Related(pv.P, gen.Fresh(r).P)
			q = rels[r.Intn(len(rels))]
		}

		a, b := mon.MkElemCase(pv, gen.DrawRepr(r, pv.P.IsInf())), mon.MkElemCase(q, gen.DrawRepr(r, q.P.IsInf()))

		if r.Intn(6) == 0 {
			// the same value reached through two different implementation operations (or one natural, one raw)
			src := gen.Fresh(r)
			a = mon.MkNatElemCase(src, r.Intn(8))
			b = mon.MkElemCase(gen.PV{P: a.P.Pt(), Tag: "same-value"}, gen.DrawRepr(r, a.P.Inf))

			return &c05Case{A: a, B: b, Rel: "P"}
		}

		return &c05Case{A: a, B: b, Rel: q.Tag}
	})

	// and again at the end of the shard, when the process has a history behind it
	concBatches(c, c.NConc(4, 200), func(seed uint64) any { return &c05Case{Conc: seed + 50000} })
}

func c05Run(c *mon.Ctx, csAny any) {
	cs := csAny.(*c05Case)

	if cs.Conc != 0 {
		c05RunConc(c, cs.Conc)
		return
	}
	if cs.Move != nil {
		cs.A = mon.ElemCase{P: cs.Move.To, R: mon.ReprCase{Kind: "moved:" + cs.Move.Via, L: "1"}}
	}

	pa, pb := cs.A.P.Pt(), cs.B.P.Pt()

	var a *secp256k1.Element

	if cs.Move != nil {
		c.Count("history-cases")

		a = cs.Move.Start()
		// compare the old value (fills whatever the comparison memoises), then move
		ref := cs.B.Build()
		_, _, _ = a.Equal(ref), ref.Equal(a), a.IsIdentity()

		if pan, pv := mon.Call(func() { mon.ApplyElemMove(a, *cs.Move) }); pan {
			if m, ok := pv.(string); ok && len(m) > 8 && m[:8] == "harness:" {
				panic(m)
			}

			c.Fail(fmt.Sprintf("mutator %s panicked: %v", cs.Move.Via, pv), "equal-history-panic", nil)

			return
		}
	} else {
		a = cs.A.Build()
	}

	if cs.NegFirst {
		c.Count("negated-first")

		if pan, pv := mon.Call(func() { a.Negate() }); pan {
			c.Fail(fmt.Sprint("Negate panicked: ", pv), "equal-negate-panic", nil)
			return
		}

		pa = oracle.Neg(pa)
	}

	if cs.DblFirst {
		c.Count("doubled-first")

		if pan, pv := mon.Call(func() { a.Double() }); pan {
			c.Fail(fmt.Sprint("Double panicked: ", pv), "equal-double-panic", nil)
			return
		}

		pa = oracle.Dbl(pa)
	}

	b := a

	if !cs.Same {
		b = cs.B.Build()
	} else {
		c.Count("same-pointer")
	}

	c.Count("rel:" + cs.Rel)

	if c05OneAdj(cs.A.R) && c05OneAdj(cs.B.R) {
		c.Count("one-adjacent-pair")
	}

	want := 0
	if pa.Equal(pb) {
		want = 1

		c.Count("equal-expected")

		if cs.A.R.Kind == "scaled" && cs.B.R.Kind == "scaled" && cs.A.R.L != cs.B.R.L {
			c.Count("scaled-vs-scaled-equal")
		}
	} else {
		c.Count("unequal-expected")
	}

	if pa.IsInf() && pb.IsInf() {
		c.Count("O-vs-O")
	}

	if cs.Move != nil || len(cs.A.R.L)%4 == 1 {
		// the operands are serialised before they are compared: reading an element must not change what it equals
		c.Count("serialised-before-compare")
		_, _, _ = a.Encode(), a.EncodeUncompressed(), a.Hex()
		_, _ = b.Encode(), b.EncodeUncompressed()
	}

	c.Eval(4)

	var ab, ba int

	var ia, ib bool

	if pan, pv := mon.Call(func() { ab, ba, ia, ib = a.Equal(b), b.Equal(a), a.IsIdentity(), b.IsIdentity() }); pan {
		c.Fail(fmt.Sprint("Equal/IsIdentity panicked: ", pv), "equal-panic", nil)
		return
	}

	if ab != want || ba != want {
		c.Fail(fmt.Sprintf("Equal(P,Q)=%d Equal(Q,P)=%d, want %d (rel %s, reprs %s/%s)", ab, ba, want, cs.Rel, cs.A.R.Kind, cs.B.R.Kind), "equal-value", nil)
	}

	if ia != pa.IsInf() || ib != pb.IsInf() {
		c.Fail(fmt.Sprintf("IsIdentity=%v/%v, want %v/%v", ia, ib, pa.IsInf(), pb.IsInf()), "isidentity-value", nil)
	}

	if !cs.Same && (cs.A.R != cs.B.R || want == 0) {
		c.Seen(cs.A, cs.B)

		if c.WantSample() && want == 1 {
			c.Sample(map[string]any{"case": cs, "expected_equal": want, "observed": []int{ab, ba}, "raw_a": mon.Snap(a).String(), "raw_b": mon.Snap(b).String()})
		}
	}
}

var c05OneAdjSet map[string]bool

func c05OneAdj(r mon.ReprCase) bool {
	if c05OneAdjSet == nil {
		c05OneAdjSet = map[string]bool{}
		for _, l := range gen.OneAdjacentLambdas() {
			c05OneAdjSet[fmt.Sprintf("%x", l)] = true
		}
	}

	return r.Kind == "scaled" && c05OneAdjSet[r.L]
}

func c05RunConc(c *mon.Ctx, seed uint64) {
	r := concRng("C05", seed)

	var (
		jobs         []func() string
		prevA, prevB *secp256k1.Element
		prevWant     int
	)

	for i := 0; i < concJobs; i++ {
		p := gen.Fresh(r)
		q := p

		if i%2 == 1 {
			q = gen.PV{P: oracle.Neg(p.P), Tag: "-P"}
		}

		want := 0
		if p.P.Equal(q.P) {
			want = 1
		}

		a, b := mon.Elem(p.P, gen.DrawRepr(r, false)), mon.Elem(q.P, gen.DrawRepr(r, false))
		if i >= 2 && i%4 >= 2 {
			// compare the very objects an earlier job is comparing at the same time (Equal only reads)
			a, b, want = prevA, prevB, prevWant
		}

		prevA, prevB, prevWant = a, b, want
		w := want
		jobs = append(jobs, func() string {
			if x, y := a.Equal(b), b.Equal(a); x != w || y != w {
				return fmt.Sprintf("Equal=%d/%d, want %d", x, y, w)
			}

			if a.IsIdentity() {
				return "IsIdentity true for a finite point"
			}

			return ""
		})
	}

	if c.RunConcurrent("Equal", "equal-concurrent", 5000, jobs) {
		c.Seen("conc", seed)
	}
}
