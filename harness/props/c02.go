//go:build verif && (p_all || p_c02)

package props

import (
	"bytes"
	"fmt"
	"math/big"

	"github.com/bytemare/secp256k1"
	"github.com/bytemare/secp256k1/zz_verif/gen"
	"github.com/bytemare/secp256k1/zz_verif/mon"
	"github.com/bytemare/secp256k1/zz_verif/oracle"
)

// C02 — Add, Double, Subtract, Negate implement the group law with no exceptional cases.

type c02Case struct {
	// Conc != 0: a concurrent batch (8 goroutines on objects they own) derived from this seed; other fields unused.
	Conc uint64 `json:"concurrent_seed,omitempty"`
	Op    string        `json:"op"` // add | sub | double | negate | add-nil | sub-nil | assoc | addsub
	A     mon.ElemCase  `json:"a"`
	B     *mon.ElemCase `json:"b,omitempty"`
	C     *mon.ElemCase `json:"c,omitempty"`
	Alias string        `json:"alias,omitempty"` // distinct | same (argument is the receiver) | copy
	Rel   string        `json:"rel,omitempty"`   // relation of B to A
	// Trap: the argument element lives in a page that is read-only for the duration of the call.
	Trap bool `json:"trap,omitempty"`
	// Move: the receiver is an object that first held Move.From, was used, and was driven to A's value (A is ignored).
	Move *mon.ElemMove `json:"move,omitempty"`
	// Observe: before the judged operation every operand is read through Encode / EncodeUncompressed / Equal /
	// IsIdentity (observers must not change what the operation then computes).
	Observe bool `json:"observe_first,omitempty"`
	// Steer names the formula intermediate that this case's representation puts on a structured stored value.
	Steer string `json:"steer,omitempty"`
}

func init() {
	register(&mon.Prop{
		ID:      "C02",
		Flavour: "plain",
		Rule: "cases = (op, P, Q, representations of both, aliasing): for every pool point P the relation classes Q in {O,P,-P,2P,-2P,phiP,phi2P,-phiP,-phi2P,unrelated} " +
			"crossed with representation pairs (affine, λ-scaled with structured/random λ, identity as (0:Y:0) with structured/random Y) and aliasing {distinct, argument is the receiver, argument is a Copy}; " +
			"Double/Negate on every pool point in every structured representation; nil arguments; chains (P+Q)+R and P+Q-Q; PRNG cases. " +
			"Oracle: textbook affine chord-and-tangent in math/big; the raw result must also be canonical and satisfy Y^2Z=X^3+7Z^3; the argument's stored limbs must be bit-identical afterwards. " +
			"Steered cases: λ is solved so that a first-level intermediate of the formulas (Y^2, Z^2, YZ, XY, X, Y for doubling; X1X2, Y1Y2, Z1Z2, X+Y, Y+Z, X+Z for addition) lands on a structured STORED value " +
			"(specials, ±3 around every multiple of 2^252..2^255, around j*p/2, j*p/4, j*p/8): the thin sets on which a hand-optimised small multiple or lazy reduction inside a formula errs. " +
			"Trap cases: the argument lives in an mmap'd page made read-only during the call (a write-then-restore of the argument is invisible to before/after comparison). History cases: the receiver reached its value through each mutator after holding, and operating with, another value. " +
			"Counters: one receiver updated in place (Add resp. Subtract of one argument) 2^8 times, observed, 2^16 times, observed (thorough: 2^20 more), against P ± kQ. non-trivial = at least one operand is not O, or an identity in non-canonical form; distinct by the whole case. Plus concurrent batches: 8 goroutines run the operations simultaneously on objects they own, each result judged against the oracle.",
		NewCase:  func() any { return &c02Case{} },
		Generate: c02Generate,
		Run:      c02Run,
		Require: func(string) map[string]int64 {
			return map[string]int64{
				"rel:O": 50, "rel:P": 50, "rel:-P": 50, "rel:phiP": 50, "rel:phi2P": 50, "rel:-phiP": 20, "rel:2P": 50, "rel:unrelated": 50,
				"alias:same": 50, "alias:copy": 50, "op:add-nil": 5, "op:sub-nil": 5, "op:double": 100, "op:negate": 100, "op:assoc": 50,
				"O+O": 20, "idrepr:id-y": 50, "steer:Y2": 50, "steer:Z2": 50, "steer:YZ": 20, "steer:XY": 20, "steer:X1X2": 50, "steer:Y1Y2": 50, "steer:Z1Z2": 50, "steer:X+Y": 50,
				"trap-cases": 300, "trap-liveness": 1, "history-cases": 100, "observed-first": 300, "counter-runs": 6,
			}
		},
	})

	Registry["C02"].ColdStart = func(c *mon.Ctx) { c02RunConc(c, c.Seed*7919+uint64(c.Shard)+1) }
}

func c02Generate(c *mon.Ctx) {
	concBatches(c, c.NConc(6, 300), func(seed uint64) any { return &c02Case{Conc: seed} })

	pool := gen.NewPool(c.SharedRng("pool"), 8)
	sr := c.SharedRng("structured")

	// 1. relation classes x representation pairs x {add, sub} x aliasing
	for i, pv := range pool.NonInf {
		other := pool.NonInf[(i+7)%len(pool.NonInf)]
		rels := gen.Related(pv.P, other.P)
		ra := gen.StructuredReprs(false)

		for j, q := range rels {
			rb := gen.StructuredReprs(q.P.IsInf())
			// a rotating selection of representation pairs so that, over the pool, every pair is met
			pairs := [][2]gen.Repr{
				{ra[0], rb[0]},
				{ra[(i+j)%len(ra)], rb[(i+2*j+1)%len(rb)]},
				{ra[0], rb[(i+j+3)%len(rb)]},
				{gen.DrawRepr(sr, false), gen.DrawRepr(sr, q.P.IsInf())},
			}

			for _, pr := range pairs {
				for _, op := range []string{"add", "sub"} {
					a, b := mon.MkElemCase(pv, pr[0]), mon.MkElemCase(q, pr[1])
					op, rel := op, q.Tag
					c.Structured(func() any { return &c02Case{Op: op, A: a, B: &b, Alias: "distinct", Rel: rel} })
					// the symmetric case: receiver is the related value
					c.Structured(func() any { return &c02Case{Op: op, A: b, B: &a, Alias: "distinct", Rel: rel + "-swapped"} })
				}
			}
		}

		// aliasing: argument is the receiver itself / a Copy of it, in each structured representation
		for _, rp := range ra {
			a := mon.MkElemCase(pv, rp)
			for _, op := range []string{"add", "sub"} {
				for _, al := range []string{"same", "copy"} {
					op, al := op, al
					c.Structured(func() any { return &c02Case{Op: op, A: a, Alias: al, Rel: "P"} })
				}
			}

			c.Structured(func() any { return &c02Case{Op: "double", A: a} })
			c.Structured(func() any { return &c02Case{Op: "negate", A: a} })
		}

		a := mon.MkElemCase(pv, ra[i%len(ra)])
		c.Structured(func() any { return &c02Case{Op: "add-nil", A: a} })
		c.Structured(func() any { return &c02Case{Op: "sub-nil", A: a} })
	}

	// 2. identity in every form against identity in every form, and alone
	o := gen.PV{P: oracle.Inf(), Tag: "O"}
	ids := gen.StructuredReprs(true)

	for _, r1 := range ids {
		a := mon.MkElemCase(o, r1)
		for _, op := range []string{"double", "negate", "add-nil", "sub-nil"} {
			op := op
			c.Structured(func() any { return &c02Case{Op: op, A: a} })
		}

		for _, al := range []string{"same", "copy"} {
			for _, op := range []string{"add", "sub"} {
				op, al := op, al
				c.Structured(func() any { return &c02Case{Op: op, A: a, Alias: al, Rel: "O"} })
			}
		}

		for _, r2 := range ids {
			b := mon.MkElemCase(o, r2)
			for _, op := range []string{"add", "sub"} {
				op := op
				c.Structured(func() any { return &c02Case{Op: op, A: a, B: &b, Alias: "distinct", Rel: "O"} })
			}
		}

		// an identity that has been serialised, then used on either side of an operation with a finite point
		for i := 0; i < 4; i++ {
			pv := pool.NonInf[(i*9+len(r1.L.Bits()))%len(pool.NonInf)]
			pe := mon.MkElemCase(pv, gen.DrawRepr(sr, false))

			for _, op := range []string{"add", "sub"} {
				op := op
				c.Structured(func() any { return &c02Case{Op: op, A: a, B: &pe, Alias: "distinct", Rel: "unrelated", Observe: true} })
				c.Structured(func() any { return &c02Case{Op: op, A: pe, B: &a, Alias: "distinct", Rel: "O", Observe: true} })
			}
		}
	}

	// 3. steered intermediates
	targets := gen.StoredTargets(oracle.P)
	stride := c.N(1, 1)

	for ti := int(c.Seed % uint64(stride)); ti < len(targets); ti += stride {
		t := targets[ti]
		pv := pool.NonInf[ti%len(pool.NonInf)]
		qv := pool.NonInf[(ti*7+3)%len(pool.NonInf)]

		for _, which := range []string{"Y2", "Z2", "YZ", "XY", "X", "Y"} {
			if rp, ok := gen.ReprHitting(pv.P, which, t); ok {
				a, w := mon.MkElemCase(pv, rp), which
				c.Structured(func() any { return &c02Case{Op: "double", A: a, Steer: w} })
				c.Structured(func() any { return &c02Case{Op: "add", A: a, Alias: "same", Rel: "P", Steer: w} })
			}
		}

		for _, which := range []string{"X+Y", "Y+Z", "X+Z"} {
			if rp, ok := gen.ReprHitting(pv.P, which, t); ok {
				a, b, w := mon.MkElemCase(pv, rp), mon.MkElemCase(qv, gen.DrawRepr(sr, false)), which
				c.Structured(func() any { return &c02Case{Op: "add", A: a, B: &b, Alias: "distinct", Rel: "unrelated", Steer: w} })
				c.Structured(func() any { return &c02Case{Op: "sub", A: b, B: &a, Alias: "distinct", Rel: "unrelated", Steer: w} })
			}
		}

		l1 := gen.DrawRepr(sr, false)
		for _, which := range []string{"X1X2", "Y1Y2", "Z1Z2"} {
			for _, rel := range []gen.PV{qv, {P: pv.P, Tag: "P"}, {P: oracle.Neg(pv.P), Tag: "-P"}} {
				if rp, ok := gen.ReprPairHitting(pv.P, rel.P, l1.L, which, t); ok {
					tag := rel.Tag
					if tag != "P" && tag != "-P" {
						tag = "unrelated"
					}

					a, b, w := mon.MkElemCase(pv, l1), mon.MkElemCase(gen.PV{P: rel.P, Tag: tag}, rp), which
					c.Structured(func() any { return &c02Case{Op: "add", A: a, B: &b, Alias: "distinct", Rel: tag, Steer: w} })
				}
			}
		}
	}

	// 4. history cases: the receiver reached its value through each mutator
	hr := c.SharedRng("moves")

	for rep := 0; rep < c.N(60, 2000); rep++ {
		mv := mon.PlanElemMove("decode-rejected", hr)
		q := gen.Fresh(hr)
		b := mon.MkElemCase(q, gen.DrawRepr(hr, false))
		op := []string{"add", "sub", "double", "negate", "arg-add", "arg-sub"}[rep%6]
		c.Structured(func() any { return &c02Case{Op: op, B: &b, Alias: "distinct", Rel: "unrelated", Move: &mv, Observe: rep%2 == 0} })
	}

	// every mutator x every operation x the ways an object comes into being (raw limbs, the decoder, Base(), a Double): not
	// left to the draw
	for vi, via := range mon.ElemVias {
		for oi, op := range []string{"add", "sub", "double", "negate", "arg-add", "arg-sub"} {
			for ni, nat := range []int{4, 7, 0, -1} {
				mv := mon.PlanElemMoveFrom(via, hr, nat)
				q := gen.Fresh(hr)
				b := mon.MkElemCase(q, gen.DrawRepr(hr, false))
				obs := (vi+oi+ni)%2 == 0
				c.Structured(func() any { return &c02Case{Op: op, B: &b, Alias: "distinct", Rel: "unrelated", Move: &mv, Observe: obs} })
			}
		}
	}

	for rep := 0; rep < 6; rep++ {
		for _, via := range mon.ElemVias {
			mv := mon.PlanElemMove(via, hr)
			q := gen.Fresh(hr)
			b := mon.MkElemCase(q, gen.DrawRepr(hr, false))
			op := []string{"add", "sub", "double", "negate"}[rep%4]
			obs := rep%2 == 0
			c.Structured(func() any { return &c02Case{Op: op, B: &b, Alias: "distinct", Rel: "unrelated", Move: &mv, Observe: obs} })
			// the moved object as the ARGUMENT of an operation on another receiver
			c.Structured(func() any { return &c02Case{Op: "arg-" + op, B: &b, Alias: "distinct", Rel: "unrelated", Move: &mv, Observe: obs} })
		}
	}

	// 4b. counters: one receiver updated in place 2^8, then 2^16 (thorough: then 2^20) times, observed in between
	for i := 0; i < 3; i++ {
		pv, q := gen.Fresh(hr), gen.Fresh(hr)
		if i == 0 {
			q = gen.PV{P: oracle.G(), Tag: "G"}
		}

		a, b := mon.MkElemCase(pv, gen.DrawRepr(hr, false)), mon.MkElemCase(q, gen.DrawRepr(hr, false))
		op := []string{"counter-add", "counter-sub", "counter-add"}[i]
		c.Structured(func() any { return &c02Case{Op: op, A: a, B: &b, Alias: "distinct", Rel: "unrelated"} })
	}

	// 5. PRNG cases
	c.Random(c.N(40000, 4000000), func(r *gen.Rng) any {
		var pv gen.PV

		switch r.Intn(4) {
		case 0:
			pv = pool.Draw(r)
		default:
			pv = gen.Fresh(r)
		}

		a := mon.MkElemCase(pv, gen.DrawRepr(r, pv.P.IsInf()))

		switch r.Intn(12) {
		case 0:
			return &c02Case{Op: "double", A: a}
		case 1:
			return &c02Case{Op: "negate", A: a}
		case 2:
			op := []string{"add", "sub"}[r.Intn(2)]
			return &c02Case{Op: op, A: a, Alias: []string{"same", "copy"}[r.Intn(2)], Rel: "P"}
		case 3, 4:
			q, s := gen.Fresh(r), gen.Fresh(r)
			b := mon.MkElemCase(q, gen.DrawRepr(r, false))
			cc := mon.MkElemCase(s, gen.DrawRepr(r, false))

			if r.Bool() {
				return &c02Case{Op: "assoc", A: a, B: &b, C: &cc}
			}

			return &c02Case{Op: "addsub", A: a, B: &b}
		default:
			var q gen.PV

			if pv.P.IsInf() || r.Intn(3) == 0 {
				q = gen.Fresh(r)
				q.Tag = "unrelated"
			} else {
				rels := gen.Related(pv.P, gen.Fresh(r).P)
				q = rels[r.Intn(len(rels))]
			}

			b := mon.MkElemCase(q, gen.DrawRepr(r, q.P.IsInf()))
			if r.Intn(5) == 0 {
				// both operands reached through implementation operations: P natural, Q = related value of that P
				a = mon.MkNatElemCase(gen.Fresh(r), r.Intn(8))
				rels := gen.Related(a.P.Pt(), gen.Fresh(r).P)
				q = rels[r.Intn(len(rels))]
				b = mon.MkElemCase(q, gen.DrawRepr(r, q.P.IsInf()))

				if r.Bool() {
					b = mon.MkNatElemCase(gen.Fresh(r), r.Intn(8))
					q.Tag = "unrelated"
				}
			}

			op := []string{"add", "sub"}[r.Intn(2)]

			return &c02Case{Op: op, A: a, B: &b, Alias: "distinct", Rel: q.Tag, Trap: r.Intn(4) == 0, Observe: r.Intn(4) == 0}
		}
	})

	// and again at the end of the shard, when the process has a history behind it
	concBatches(c, c.NConc(4, 200), func(seed uint64) any { return &c02Case{Conc: seed + 50000} })
}

func c02Guard(c *mon.Ctx) *mon.Guard {
	if g, ok := c.Scratch["guard"].(*mon.Guard); ok {
		return g
	}

	g, err := mon.NewGuard()
	if err != nil {
		panic("harness: cannot map guard pages: " + err.Error())
	}

	c.Scratch["guard"] = g

	// liveness: a protected object used as a receiver must trap
	ep := (*secp256k1.Element)(g.Ptr(512))
	ep.Base()
	g.Protect()

	if f, _, _ := mon.Trap(func() { ep.Double() }); f != nil {
		c.Count("trap-liveness")
	} else {
		c.Inconclusive("page-protection trap did not fire on a deliberate store")
	}

	g.Unprotect()

	return g
}

func c02Run(c *mon.Ctx, csAny any) {
	cs := csAny.(*c02Case)

	if cs.Conc != 0 {
		c02RunConc(c, cs.Conc)
		return
	}

	if cs.Move != nil {
		cs.A = mon.ElemCase{P: cs.Move.To, R: mon.ReprCase{Kind: "moved:" + cs.Move.Via, L: "1"}}
	}

	pa := cs.A.P.Pt()

	var a *secp256k1.Element

	if cs.Move != nil {
		c.Count("history-cases")

		a = cs.Move.Start()
		a.Copy().Add(a).Subtract(secp256k1.Base()) // the old value takes part in arithmetic
		_ = a.Encode()

		if pan, pv := mon.Call(func() { mon.ApplyElemMove(a, *cs.Move) }); pan {
			if m, ok := pv.(string); ok && len(m) > 8 && m[:8] == "harness:" {
				panic(m)
			}

			c.Fail(fmt.Sprintf("mutator %s panicked: %v", cs.Move.Via, pv), "grouplaw-history-panic", nil)

			return
		}
	} else {
		a = cs.A.Build()
	}

	if cs.Steer != "" {
		c.Count("steer:" + cs.Steer)
	}

	if len(cs.Op) > 4 && cs.Op[:4] == "arg-" {
		// the (moved) object is the argument; the receiver is B
		c02RunAsArgument(c, cs, a, pa)
		return
	}

	if cs.Observe {
		c.Count("observed-first")
		_, _, _ = a.Encode(), a.EncodeUncompressed(), a.IsIdentity()
		_ = a.Equal(a)
	}

	c.Count("op:" + cs.Op)

	if cs.A.P.Inf {
		c.Count("idrepr:" + cs.A.R.Kind)
	}

	nontrivial := !cs.A.P.Inf || cs.A.R.Kind == "id-y"

	var (
		want oracle.Pt
		b    *secp256k1.Element
		pb   oracle.Pt
	)

	checkResult := func(e *secp256k1.Element, want oracle.Pt, key string) bool {
		if ok, why := mon.RawValid(e); !ok {
			c.Fail(fmt.Sprintf("%s: result is not a valid projective point: %s", cs.Op, why), key+"-invalid", nil)
			return false
		}

		if ok, why := mon.ElemIs(e, want); !ok {
			c.Fail(fmt.Sprintf("%s (rel %s, alias %s, reprs %s/%s): %s", cs.Op, cs.Rel, cs.Alias, cs.A.R.Kind, reprKind(cs.B), why), key+"-value", nil)
			return false
		}

		return true
	}

	// "sets the receiver ... and returns it": a caller may chain on the returned pointer, and what it then does lands in the
	// receiver (and nowhere else: a fresh element is still the identity afterwards)
	chain := func(ret *secp256k1.Element, val oracle.Pt, what string) {
		if ret == nil {
			c.Fail(what+" returned nil", what+"-returns-nil", nil)
			return
		}

		c.Count("chained-on-return")

		if pan, pv := mon.Call(func() { ret.Add(secp256k1.Base()) }); pan {
			c.Fail(fmt.Sprint(what, ": a chained Add on the returned element panicked: ", pv), what+"-chained-panic", nil)
			return
		}

		if ok, why := mon.ElemIs(a, oracle.Add(val, oracle.G())); !ok {
			c.Fail(fmt.Sprintf("%s: x.%s().Add(G) does not leave x = %s(x) + G (the returned element is not the receiver): %s", what, what, what, why), what+"-chained-value", nil)
			return
		}

		if n := secp256k1.NewElement(); !n.IsIdentity() || len(n.Encode()) != 1 {
			c.Fail(what+": after a chained call on the returned element a fresh NewElement() is no longer the identity", "package-identity-corrupted", nil)
		}
	}

	switch cs.Op {
	case "double":
		c.Eval(1)

		var ret *secp256k1.Element
		if pan, pv := mon.Call(func() { ret = a.Double() }); pan {
			c.Fail(fmt.Sprint("Double panicked: ", pv), "double-panic", nil)
			return
		}

		if checkResult(a, oracle.Dbl(pa), "double") {
			if ret != a {
				checkResult(ret, oracle.Dbl(pa), "double-return")
			}

			chain(ret, oracle.Dbl(pa), "Double")
		}
	case "negate":
		c.Eval(1)

		var ret *secp256k1.Element
		if pan, pv := mon.Call(func() { ret = a.Negate() }); pan {
			c.Fail(fmt.Sprint("Negate panicked: ", pv), "negate-panic", nil)
			return
		}

		if checkResult(a, oracle.Neg(pa), "negate") {
			if ret != a {
				checkResult(ret, oracle.Neg(pa), "negate-return")
			}

			chain(ret, oracle.Neg(pa), "Negate")
		}
	case "add-nil", "sub-nil":
		c.Eval(1)

		pan, pv := mon.Call(func() {
			if cs.Op == "add-nil" {
				a.Add(nil)
				a.Add(mon.NilElem)
			} else {
				a.Subtract(nil)
				a.Subtract(mon.NilElem)
			}
		})
		if pan {
			c.Fail(fmt.Sprint(cs.Op, " panicked: ", pv), cs.Op+"-panic", nil)
			return
		}

		checkResult(a, pa, cs.Op)
	case "add", "sub":
		c.Count("alias:" + cs.Alias)
		c.Count("rel:" + cs.Rel)

		switch cs.Alias {
		case "same":
			b, pb = a, pa
		case "copy":
			b, pb = a.Copy(), pa
		default:
			b, pb = cs.B.Build(), cs.B.P.Pt()
			if !cs.B.P.Inf || cs.B.R.Kind == "id-y" {
				nontrivial = true
			}

			if cs.Observe {
				_, _, _ = b.Encode(), b.EncodeUncompressed(), b.IsIdentity()
				_, _ = b.Equal(a), a.Equal(b)
			}

			if cs.Trap {
				// move the argument into the guard page; it is made read-only around the call below
				g := c02Guard(c)
				bp := (*secp256k1.Element)(g.Ptr(1024))
				x, y, z := secp256k1.VRaw(b)
				secp256k1.VSetRaw(bp, x, y, z)
				b = bp
			}

			if cs.B.P.Inf {
				c.Count("idrepr:" + cs.B.R.Kind)
			}
		}

		if pa.IsInf() && pb.IsInf() {
			c.Count("O+O")
		}

		before := mon.Snap(b)

		if cs.Op == "add" {
			want = oracle.Add(pa, pb)
		} else {
			want = oracle.Sub(pa, pb)
		}

		c.Eval(1)

		var ret *secp256k1.Element

		doCall := func() {
			if cs.Op == "add" {
				ret = a.Add(b)
			} else {
				ret = a.Subtract(b)
			}
		}

		var (
			pan bool
			pv  any
		)

		if cs.Trap && cs.Alias == "distinct" {
			c.Count("trap-cases")

			g := c02Guard(c)
			g.Protect()

			var f *mon.Fault

			f, pan, pv = mon.Trap(doCall)

			g.Unprotect()

			if f != nil {
				c.Fail(fmt.Sprintf("%s stored into its (read-only) argument: %s", cs.Op, f), cs.Op+"-writes-argument", map[string]any{"stack": f.Stack})
				return
			}
		} else {
			pan, pv = mon.Call(doCall)
		}

		if pan {
			c.Fail(fmt.Sprint(cs.Op, " panicked: ", pv), cs.Op+"-panic", nil)
			return
		}

		if checkResult(a, want, cs.Op) {
			if ret != a {
				checkResult(ret, want, cs.Op+"-return")
			}

			if cs.Alias == "distinct" {
				chain(ret, want, map[string]string{"add": "Add", "sub": "Subtract"}[cs.Op])
			}
		}

		if cs.Alias != "same" {
			if after := mon.Snap(b); after != before {
				c.Fail(fmt.Sprintf("%s modified its argument: %s -> %s", cs.Op, before, after), cs.Op+"-arg-modified", nil)
			}
		}
	case "assoc":
		b, pb = cs.B.Build(), cs.B.P.Pt()
		cc, pc := cs.C.Build(), cs.C.P.Pt()
		nontrivial = true
		want = oracle.Add(oracle.Add(pa, pb), pc)

		c.Eval(4)

		l := a.Copy().Add(b).Add(cc)
		r := b.Copy().Add(cc)
		r2 := a.Copy().Add(r)

		checkResult(l, want, "assoc-left")
		checkResult(r2, want, "assoc-right")
	case "counter-add", "counter-sub":
		b, pb = cs.B.Build(), cs.B.P.Pt()
		nontrivial = true
		total := int64(0)
		want = pa

		dists := []int64{1 << 8, 1 << 16}
		if c.Thorough() && c.Stride() == 1 {
			dists = append(dists, 1<<20)
		}

		_, _ = a.Encode(), a.IsIdentity()

		for _, d := range dists {
			if pan, pv := mon.Call(func() {
				for i := int64(0); i < d; i++ {
					if cs.Op == "counter-add" {
						a.Add(b)
					} else {
						a.Subtract(b)
					}
				}
			}); pan {
				c.Fail(fmt.Sprintf("%s: panic in a run of %d in-place updates of one receiver: %v", cs.Op, d, pv), "counter-panic", nil)
				return
			}

			total += d
			c.Eval(int(d))

			k := big.NewInt(total)
			if cs.Op == "counter-sub" {
				k.Neg(k)
			}

			want = oracle.Add(pa, oracle.Mul(oracle.Mod(k, oracle.N), pb))
			if !checkResult(a, want, fmt.Sprintf("counter-%d", total)) {
				return
			}

			c.Count("counter-runs")
		}
	case "addsub":
		b, pb = cs.B.Build(), cs.B.P.Pt()
		nontrivial = true

		c.Eval(2)
		a.Add(b)
		checkResult(a, oracle.Add(pa, pb), "addsub-add")
		a.Subtract(b)
		checkResult(a, pa, "addsub-sub")
	default:
		panic("harness: unknown op " + cs.Op)
	}

	if nontrivial {
		c.Seen(cs.Op, cs.A, cs.B, cs.C, cs.Alias, cs.Trap, cs.Move)

		if c.WantSample() && cs.B != nil {
			c.Sample(map[string]any{"case": cs, "expected_encode": mon.H(oracle.EncC(want)), "observed_encode": mon.H(a.Encode()), "raw_result": mon.Snap(a).String()})
		}
	}
}

func reprKind(e *mon.ElemCase) string {
	if e == nil {
		return "-"
	}

	return e.R.Kind
}

var _ = big.NewInt

// c02RunAsArgument uses the moved object a (value pa) as the argument of Add/Subtract on the receiver built from B.
func c02RunAsArgument(c *mon.Ctx, cs *c02Case, a *secp256k1.Element, pa oracle.Pt) {
	recv, pr := cs.B.Build(), cs.B.P.Pt()

	if cs.Observe {
		c.Count("observed-first")
		_, _, _ = a.Encode(), a.EncodeUncompressed(), a.IsIdentity()
	}

	var want oracle.Pt

	c.Eval(1)

	switch cs.Op {
	case "arg-sub":
		recv.Subtract(a)
		want = oracle.Sub(pr, pa)
	default:
		recv.Add(a)
		want = oracle.Add(pr, pa)
	}

	if ok, why := mon.RawValid(recv); !ok {
		c.Fail(fmt.Sprintf("%s with an argument that reached its value via %s: result invalid: %s", cs.Op, cs.Move.Via, why), "add-invalid", nil)
		return
	}

	if ok, why := mon.ElemIs(recv, want); !ok {
		c.Fail(fmt.Sprintf("%s with an argument that reached its value via %s: %s", cs.Op, cs.Move.Via, why), "arg-history-value", nil)
		return
	}

	c.Seen(cs.Op, cs.B, cs.Move, cs.Observe)
}

func c02RunConc(c *mon.Ctx, seed uint64) {
	r := concRng("C02", seed)

	var jobs []func() string

	var (
		proto  *secp256k1.Element // an element with a past (it has been the receiver of operations), shared by pairs of jobs
		protoP gen.PV
	)

	for i := 0; i < concJobs; i++ {
		p, q := gen.Fresh(r), gen.Fresh(r)
		a, b := mon.Elem(p.P, gen.DrawRepr(r, false)), mon.Elem(q.P, gen.DrawRepr(r, false))

		switch i % 4 {
		case 2:
			// this job and the next work on COPIES of one element that has already been a receiver: whatever an element
			// accumulates in use must not be shared between it and its copies
			proto = mon.Elem(p.P, gen.DrawRepr(r, false)).Double().Add(secp256k1.Base()).Subtract(secp256k1.Base())
			_ = proto.Encode()
			protoP = gen.PV{P: oracle.Dbl(p.P), Tag: "2P"}
			p, a = protoP, proto.Copy()
		case 3:
			p, a = protoP, secp256k1.NewElement().Set(proto)
			if i%8 == 7 {
				a = proto // ... and the original itself
			}
		}
		wAdd, wSub, wDbl, wNeg := oracle.EncC(oracle.Add(p.P, q.P)), oracle.EncC(oracle.Sub(p.P, q.P)), oracle.EncC(oracle.Dbl(p.P)), oracle.EncC(oracle.Neg(p.P))
		id := secp256k1.NewElement()
		jobs = append(jobs, func() string {
			// operations with an identity operand first (they take their own paths), then the judged ones
			if !bytes.Equal(a.Copy().Subtract(id).Add(id).Encode(), oracle.EncC(p.P)) || !id.Copy().Add(a).Subtract(a).IsIdentity() {
				return "P - O + O != P or O + P - P != O"
			}

			if !bytes.Equal(a.Copy().Add(b).Encode(), wAdd) || !bytes.Equal(a.Copy().Subtract(b).Encode(), wSub) ||
				!bytes.Equal(a.Copy().Double().Encode(), wDbl) || !bytes.Equal(a.Copy().Negate().Encode(), wNeg) {
				return "Add/Subtract/Double/Negate result differs from the group law"
			}

			return ""
		})
	}

	if c.RunConcurrent("Add / Subtract / Double / Negate", "grouplaw-concurrent", 500, jobs) {
		c.Seen("conc", seed)
	}
}
