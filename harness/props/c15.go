//go:build verif && (p_all || p_c15)

package props

import (
	"bytes"
	"fmt"
	"math/big"
	"runtime"
	"strings"
	"unsafe"

	"github.com/bytemare/secp256k1"
	"github.com/bytemare/secp256k1/internal/field"
	"github.com/bytemare/secp256k1/zz_verif/gen"
	"github.com/bytemare/secp256k1/zz_verif/mon"
	"github.com/bytemare/secp256k1/zz_verif/oracle"
)

// C15 — API calls never write caller-owned memory; returned slices are fresh.

type c15Case struct {
	// Batch (Kind == "parallel"): "fresh" cases run simultaneously, one goroutine each, on objects of their own; every
	// returned slice must still be private to its caller.
	Batch  []*c15Case    `json:"batch,omitempty"`
	Kind   string        `json:"kind"` // bytes | ptr | fresh | retain | parallel
	Fn     string        `json:"fn"`
	Mode   string        `json:"mode,omitempty"`   // trap (read-only pages) | canary (ordinary memory, whole backing array compared)
	Layout string        `json:"layout,omitempty"` // exact spare1 spare8 spare64 interior page-end zero-len
	Msg    string        `json:"msg,omitempty"`
	Dst    string        `json:"dst,omitempty"`
	Data   string        `json:"data,omitempty"`
	E      *mon.ElemCase `json:"elem,omitempty"`  // receiver
	EA     *mon.ElemCase `json:"arg_elem,omitempty"`
	S      string        `json:"scalar,omitempty"` // receiver scalar
	SA     string        `json:"arg_scalar,omitempty"`
	SB     string        `json:"arg_scalar2,omitempty"`
	U      uint64        `json:"u,omitempty"`
	// ZeroArg: the *Element argument is a zero-value Element (all limbs zero, never initialised).
	ZeroArg bool `json:"zero_value_element_arg,omitempty"`
	// NonCanon: the *Scalar arguments carry non-reduced limbs (n + k, written through the exported field S): still
	// caller-owned memory that must not be written.
	NonCanon bool `json:"non_canonical_scalar_args,omitempty"`
}

var (
	c15Layouts   = []string{"exact", "spare1", "spare8", "spare64", "interior", "page-end", "zero-len"}
	c15HashFns   = []string{"HashToGroup", "EncodeToGroup", "HashToScalar"}
	c15DataFns   = []string{"Element.Decode", "Element.DecodeCompressed", "Element.DecodeUncompressed", "Element.UnmarshalBinary", "Scalar.Decode", "Scalar.UnmarshalBinary"}
	c15PtrFns    = []string{"Element.Add", "Element.Subtract", "Element.Equal", "Element.Set", "Element.Multiply", "Scalar.Add", "Scalar.Subtract", "Scalar.Multiply", "Scalar.Set", "Scalar.Pow", "Scalar.Equal", "Scalar.LessOrEqual", "Scalar.CSelect", "SSWU"}
	c15RetainFns = []string{"Element.Decode", "Element.DecodeCompressed", "Element.DecodeUncompressed", "Element.UnmarshalBinary", "Element.DecodeHex", "Scalar.Decode", "Scalar.UnmarshalBinary"}
	c15FreshFns  = []string{"Element.Encode", "Element.EncodeUncompressed", "Element.XCoordinate", "Element.MarshalBinary", "Scalar.Encode", "Scalar.MarshalBinary", "Order", "constructors", "Element.Copy", "Scalar.Copy", "Scalar.Bits"}
)

func init() {
	register(&mon.Prop{
		ID:      "C15",
		Flavour: "plain",
		Rule: "cases = (API function, argument placement): byte-slice arguments (msg, DST, encodings) of HashToGroup/EncodeToGroup/HashToScalar and of every element/scalar decoder, laid out as len=cap, len<cap by 1/8/64, interior sub-slice, " +
			"slice ending exactly at the end of the mapping before a PROT_NONE page, zero-length slice of a non-empty array; DST lengths on both sides of 255/256; valid, rejected and panicking (empty DST) calls; " +
			"pointer arguments of Add/Subtract/Equal/Set/Multiply and of the scalar binary operations, Pow, LessOrEqual, CSelect. Monitors: (trap) the arguments live in mmap'd pages made PROT_READ for the duration of the call, any store raises a fault whose address is mapped back to (object, offset, writer frame); " +
			"(canary) the same call on ordinary memory with the whole backing array (prefix gap, payload, spare capacity, suffix gap) compared byte for byte afterwards; (fresh) every slice-returning function called twice: address ranges over full capacity must not overlap each other nor the receiver, " +
			"and scribbling over b[:cap(b)] must change neither the source value nor the next result; (retain) an object decoded from a caller buffer must not keep that buffer: later encodings may not overlap it, overwriting the buffer must not change the object, and writing to an encoding must not change the buffer. Decoder inputs include every length 0..140 (ASCII digits and bytes) and the textual (ASCII hex, quoted, 0x-prefixed) forms of valid encodings. Scalar arguments are also passed with non-reduced limbs (n+k written through the exported field S). After each call the receiver is worked on and every argument must still encode as before; fresh-result cases and loops over all serialisers also run as 16 simultaneous instances. non-trivial = all; distinct by the whole case.",
		NewCase:  func() any { return &c15Case{} },
		Generate: c15Generate,
		Run:      c15Run,
		Require: func(string) map[string]int64 {
			return map[string]int64{
				"mode:trap": 2000, "mode:canary": 2000, "layout:spare1": 100, "layout:spare8": 100, "layout:spare64": 100, "layout:interior": 100, "layout:page-end": 100, "layout:zero-len": 20,
				"kind:ptr": 1000, "kind:fresh": 500, "kind:retain": 100, "ptr:non-canonical-scalar-args": 100, "ptr:zero-value-element-arg": 50, "trap-liveness-probe-fired": 1, "dst:oversize": 100, "dst<=255": 300, "call:rejected": 100, "call:panicked": 6,
			}
		},
	})
}

func c15Generate(c *mon.Ctx) {
	pool := gen.NewPool(c.SharedRng("pool"), 6)
	pat := func(n int, seed byte) string {
		b := make([]byte, n)
		for i := range b {
			b[i] = byte(i*13+1) ^ seed
		}

		return mon.H(b)
	}

	k := 0

	// hashing functions: DST lengths x layouts x modes
	for _, fn := range c15HashFns {
		for _, dl := range []int{1, 16, 49, 254, 255, 256, 257, 600} {
			for _, lay := range c15Layouts {
				if lay == "zero-len" {
					continue
				}

				for _, mode := range []string{"trap", "canary"} {
					k++
					cs := &c15Case{Kind: "bytes", Fn: fn, Mode: mode, Layout: lay, Msg: pat([]int{0, 3, 64, 200}[k%4], 0x33), Dst: pat(dl, 0x44)}
					c.Structured(func() any { return cs })
				}
			}
		}

		// empty DST (panics): zero-length slice of a non-empty array must not be written either
		for _, mode := range []string{"trap", "canary"} {
			fn, mode := fn, mode
			c.Structured(func() any { return &c15Case{Kind: "bytes", Fn: fn, Mode: mode, Layout: "zero-len", Msg: "616263", Dst: ""} })
			c.Structured(func() any { return &c15Case{Kind: "bytes", Fn: fn, Mode: mode, Layout: "spare8", Msg: "", Dst: pat(20, 1)} })
		}
	}

	// long messages (beyond any stack buffer a hashing function may use for short ones)
	for _, fn := range c15HashFns {
		for i, ml := range []int{600, 900, 1024, 1025, 2000, 5000, 70000} {
			for _, mode := range []string{"trap", "canary"} {
				fn, mode, lay := fn, mode, []string{"exact", "spare8", "interior", "spare64"}[i%4]
				msg, dst := pat(ml, byte(i)), pat([]int{20, 300}[i%2], 3)
				c.Structured(func() any { return &c15Case{Kind: "bytes", Fn: fn, Mode: mode, Layout: lay, Msg: msg, Dst: dst} })
			}
		}
	}

	// decoders: valid and invalid inputs
	g := oracle.G()
	inputs := []string{
		mon.H(oracle.EncC(g)), mon.H(oracle.EncU(g)), "00", "", mon.H(append([]byte{2}, oracle.Bytes32(oracle.P)...)), mon.H(append([]byte{3}, oracle.Bytes32(big.NewInt(5))...)),
		// SEC1 hybrid forms of a valid point (prefix 06/07 by the parity of y): if accepted at all they must not be rewritten in place
		mon.H(append([]byte{6 + byte(g.Y.Bit(0))}, oracle.EncU(g)[1:]...)), mon.H(append([]byte{7 - byte(g.Y.Bit(0))}, oracle.EncU(g)[1:]...)),
		mon.H(oracle.Bytes32(big.NewInt(12345))), mon.H(oracle.Bytes32(oracle.N)), mon.H(oracle.Bytes32(new(big.Int).Sub(oracle.N, big.NewInt(1)))), pat(31, 9), pat(64, 7),
	}

	// the textual forms of the same encodings handed to the byte decoders (what DecodeHex / a JSON or config layer would
	// hold): ASCII hex in both cases, quoted, 0x-prefixed
	for _, raw := range [][]byte{oracle.EncC(g), oracle.EncU(g), {0}, oracle.Bytes32(big.NewInt(12345)), oracle.EncC(oracle.Dbl(g))} {
		hx := mon.H(raw)
		for _, txt := range []string{hx, strings.ToUpper(hx), "\"" + hx + "\"", "0x" + hx, hx + "\n", hx[:len(hx)-1] + "g"} {
			inputs = append(inputs, mon.H([]byte(txt)))
		}
	}

	// every input length around the accepted ones, as ASCII digits and as bytes
	for l := 0; l <= 140; l++ {
		for _, fill := range []byte{'0', 0x02, 'f'} {
			in := mon.H(bytes.Repeat([]byte{fill}, l))

			for fi, fn := range c15DataFns {
				cs := &c15Case{Kind: "bytes", Fn: fn, Mode: []string{"trap", "canary"}[(l+fi)%2], Layout: c15Layouts[(l+fi)%len(c15Layouts)], Data: in}
				c.Structured(func() any { return cs })
			}
		}
	}

	for _, fn := range c15DataFns {
		for _, in := range inputs {
			for _, lay := range c15Layouts {
				for _, mode := range []string{"trap", "canary"} {
					cs := &c15Case{Kind: "bytes", Fn: fn, Mode: mode, Layout: lay, Data: in}
					c.Structured(func() any { return cs })
				}
			}
		}
	}

	// the "fresh" cases again, 16 at a time
	pb := c.SharedRng("parallel")

	for b := 0; b < c.N(40, 1000); b++ {
		batch := &c15Case{Kind: "parallel", Fn: "parallel-fresh"}

		for g := 0; g < 16; g++ {
			pv := pool.All[pb.Intn(len(pool.All))]
			reprs := gen.StructuredReprs(pv.P.IsInf())
			e := mon.MkElemCase(pv, reprs[pb.Intn(len(reprs))])
			fn := []string{"Element.Encode", "Element.EncodeUncompressed", "Element.XCoordinate", "Element.MarshalBinary", "Scalar.Encode", "Scalar.MarshalBinary", "Element.Encode", "Scalar.Bits"}[(g+b)%8]
			kind := "fresh"
			if b%2 == 1 {
				kind = "fresh-loop"
			}

			batch.Batch = append(batch.Batch, &c15Case{Kind: kind, Fn: fn, E: &e, S: fmt.Sprintf("%x", gen.Draw(pb, oracle.N).X)})
		}

		c.Structured(func() any { return batch })
	}

	// pointer arguments
	svals := []string{"0", "1", "2", fmt.Sprintf("%x", new(big.Int).Sub(oracle.N, big.NewInt(1))), "deadbeefcafebabe0123456789abcdef"}

	for i, pv := range pool.All {
		reprs := gen.StructuredReprs(pv.P.IsInf())
		other := pool.All[(i+5)%len(pool.All)]
		oreprs := gen.StructuredReprs(other.P.IsInf())

		for j, fn := range c15PtrFns {
			for _, mode := range []string{"trap", "canary"} {
				e, ea := mon.MkElemCase(pv, reprs[(i+j)%len(reprs)]), mon.MkElemCase(other, oreprs[(i+2*j)%len(oreprs)])
				cs := &c15Case{Kind: "ptr", Fn: fn, Mode: mode, E: &e, EA: &ea, S: svals[(i+j)%len(svals)], SA: svals[(i+2*j+1)%len(svals)], SB: svals[(i+3*j+2)%len(svals)], U: uint64(i + j)}
				c.Structured(func() any { return cs })
			}
		}

		for _, fn := range c15FreshFns {
			e := mon.MkElemCase(pv, reprs[i%len(reprs)])
			cs := &c15Case{Kind: "fresh", Fn: fn, E: &e, S: svals[i%len(svals)]}
			c.Structured(func() any { return cs })
		}

		for j, fn := range []string{"Element.Add", "Element.Subtract", "Element.Equal", "Element.Set"} {
			e := mon.MkElemCase(pv, reprs[0])
			ea := mon.MkElemCase(other, oreprs[0])
			cs := &c15Case{Kind: "ptr", Fn: fn, Mode: []string{"trap", "canary"}[(i+j)%2], E: &e, EA: &ea, S: "1", SA: "2", SB: "3", ZeroArg: true}
			c.Structured(func() any { return cs })
		}

		for _, fn := range c15RetainFns {
			e := mon.MkElemCase(pv, reprs[0])
			cs := &c15Case{Kind: "retain", Fn: fn, E: &e, S: svals[i%len(svals)]}
			c.Structured(func() any { return cs })
		}

		for j, fn := range c15PtrFns {
			if len(fn) > 7 && fn[:7] == "Scalar." || fn == "Element.Multiply" || fn == "SSWU" {
				e, ea := mon.MkElemCase(pv, reprs[0]), mon.MkElemCase(other, oreprs[0])
				mode := []string{"trap", "canary"}[(i+j)%2]
				cs := &c15Case{Kind: "ptr", Fn: fn, Mode: mode, E: &e, EA: &ea, S: svals[(i+j)%len(svals)], SA: fmt.Sprintf("%x", i*7+j), SB: fmt.Sprintf("%x", j+1), U: uint64(j), NonCanon: true}
				c.Structured(func() any { return cs })
			}
		}
	}

	c.Random(c.N(12000, 1200000), func(r *gen.Rng) any {
		mode := []string{"trap", "canary"}[r.Intn(2)]

		switch r.Intn(4) {
		case 0:
			dl := []int{1, 5, 16, 32, 100, 254, 255, 256, 257, 300}[r.Intn(10)]
			return &c15Case{Kind: "bytes", Fn: c15HashFns[r.Intn(3)], Mode: mode, Layout: c15Layouts[r.Intn(6)], Msg: mon.H(r.Bytes(r.Intn(150))), Dst: mon.H(r.Bytes(dl))}
		case 1:
			var in []byte

			switch r.Intn(4) {
			case 0:
				in = oracle.EncC(gen.Fresh(r).P)
			case 1:
				in = oracle.EncU(gen.Fresh(r).P)
			case 2:
				in = oracle.Bytes32(gen.Draw256(r, oracle.N).X)
			default:
				in = r.Bytes([]int{0, 1, 32, 33, 65, 40}[r.Intn(6)])
			}

			return &c15Case{Kind: "bytes", Fn: c15DataFns[r.Intn(len(c15DataFns))], Mode: mode, Layout: c15Layouts[r.Intn(len(c15Layouts))], Data: mon.H(in)}
		case 2:
			pv, ov := gen.Fresh(r), pool.Draw(r)
			e, ea := mon.MkElemCase(pv, gen.DrawRepr(r, false)), mon.MkElemCase(ov, gen.DrawRepr(r, ov.P.IsInf()))
			hx := func() string { return fmt.Sprintf("%x", gen.Draw(r, oracle.N).X) }

			return &c15Case{Kind: "ptr", Fn: c15PtrFns[r.Intn(len(c15PtrFns))], Mode: mode, E: &e, EA: &ea, S: hx(), SA: hx(), SB: hx(), U: r.U64() >> uint(r.Intn(64))}
		default:
			pv := pool.Draw(r)
			e := mon.MkElemCase(pv, gen.DrawRepr(r, pv.P.IsInf()))

			return &c15Case{Kind: "fresh", Fn: c15FreshFns[r.Intn(len(c15FreshFns))], E: &e, S: fmt.Sprintf("%x", gen.Draw(r, oracle.N).X)}
		}
	})
}

// ---------------------------------------------------------------------------------------------------------------------

type c15State struct {
	g *mon.Guard
}

func c15Guard(c *mon.Ctx) *mon.Guard {
	if st, ok := c.Scratch["guard"].(*c15State); ok {
		return st.g
	}

	g, err := mon.NewGuard()
	if err != nil {
		panic("harness: cannot map guard pages: " + err.Error())
	}

	c.Scratch["guard"] = &c15State{g}

	// liveness probe: a protected object used as a RECEIVER must trap, otherwise the monitor is blind
	g.Unprotect()
	ep := (*secp256k1.Element)(g.Ptr(64))
	ep.Base()
	g.Protect()

	f, _, _ := mon.Trap(func() { ep.Double() })
	if f == nil {
		c.Inconclusive("page-protection trap did not fire on a deliberate store (monitor not live)")
	} else if off, ok := g.Offset(f.Addr); ok && off >= 64 && off < 64+int(unsafe.Sizeof(*ep)) {
		c.Count("trap-liveness-probe-fired")
	} else {
		c.Inconclusive("page-protection trap fired at an unexpected address")
	}

	g.Unprotect()

	return g
}

// place lays content out inside region [lo, hi) of buf per the layout; returns the slice and its offset in buf.
func c15Place(buf []byte, lo, hi int, content []byte, layout string) (s []byte, off int) {
	n := len(content)

	switch layout {
	case "exact":
		off = lo + 64
		s = buf[off : off+n : off+n]
	case "spare1":
		off = lo + 64
		s = buf[off : off+n : off+n+1]
	case "spare8":
		off = lo + 72
		s = buf[off : off+n : off+n+8]
	case "spare64":
		off = lo + 64
		s = buf[off : off+n : off+n+64]
	case "interior":
		off = lo + 1000
		s = buf[off : off+n : off+n+29]
	case "page-end":
		off = hi - n
		s = buf[off:hi:hi]
	case "zero-len":
		off = lo + 128
		s = buf[off : off : off+16]
		n = 0
	default:
		panic("harness: unknown layout " + layout)
	}

	copy(buf[off:off+n], content)

	return s, off
}

func c15Run(c *mon.Ctx, csAny any) {
	cs := csAny.(*c15Case)
	c.Count("kind:" + cs.Kind)
	c.Count("fn:" + cs.Fn)

	switch cs.Kind {
	case "parallel":
		var cases []any
		for _, b := range cs.Batch {
			cases = append(cases, b)
		}

		// something the library may park in a process-wide slot first (Hex, Bits and Pow use temporaries of their own)
		_ = secp256k1.Base().Double().Hex()
		_ = secp256k1.NewScalar().SetUInt64(77).Hex()

		c.RunParallel(cases)
	case "fresh-loop":
		c15RunFreshLoop(c, cs)
	case "bytes":
		c15RunBytes(c, cs)
	case "ptr":
		c15RunPtr(c, cs)
	case "fresh":
		c15RunFresh(c, cs)
	case "retain":
		c15RunRetain(c, cs)
	default:
		panic("harness: unknown kind " + cs.Kind)
	}

	c.Seen(cs)
}

type c15Obj struct {
	name     string
	off, len int
	cap      int
}

func c15Describe(objs []c15Obj, off int) string {
	for _, o := range objs {
		if off >= o.off && off < o.off+o.cap {
			rel := off - o.off
			if rel < o.len {
				return fmt.Sprintf("%s[%d] (inside the slice, len %d)", o.name, rel, o.len)
			}

			return fmt.Sprintf("%s[len+%d] (spare capacity beyond len %d)", o.name, rel-o.len, o.len)
		}
	}

	return fmt.Sprintf("payload offset %d (outside every argument: gap bytes of the caller's array)", off)
}

func c15RunBytes(c *mon.Ctx, cs *c15Case) {
	c.Count("mode:" + cs.Mode)
	c.Count("layout:" + cs.Layout)

	var buf []byte

	g := c15Guard(c)

	if cs.Mode == "trap" {
		g.Unprotect()
		buf = g.Payload
	} else {
		buf = make([]byte, len(g.Payload))
	}

	// fill with a pattern so that a same-looking write is unlikely and the canary comparison is meaningful
	for i := range buf {
		buf[i] = byte(i*31+7) ^ 0x5c
	}

	half := len(buf) / 2

	var (
		msg, dst, data []byte
		objs           []c15Obj
	)

	isHash := cs.Data == "" && (cs.Fn == "HashToGroup" || cs.Fn == "EncodeToGroup" || cs.Fn == "HashToScalar")

	if isHash {
		var mo, do int

		mlay := cs.Layout
		if mlay == "page-end" || mlay == "zero-len" {
			mlay = "spare8"
		}

		msg, mo = c15Place(buf, 0, half, mon.UnH(cs.Msg), mlay)
		dst, do = c15Place(buf, half, len(buf), mon.UnH(cs.Dst), cs.Layout)
		objs = []c15Obj{{"msg", mo, len(msg), cap(msg)}, {"dst", do, len(dst), cap(dst)}}

		switch {
		case len(dst) > 255:
			c.Count("dst:oversize")
		case len(dst) > 0:
			c.Count("dst<=255")
		}
	} else {
		var o int

		data, o = c15Place(buf, half, len(buf), mon.UnH(cs.Data), cs.Layout)
		objs = []c15Obj{{"data", o, len(data), cap(data)}}
	}

	before := append([]byte{}, buf...)

	var err error

	call := func() {
		switch cs.Fn {
		case "HashToGroup":
			secp256k1.HashToGroup(msg, dst)
		case "EncodeToGroup":
			secp256k1.EncodeToGroup(msg, dst)
		case "HashToScalar":
			secp256k1.HashToScalar(msg, dst)
		case "Element.Decode":
			err = secp256k1.Base().Decode(data)
		case "Element.DecodeCompressed":
			err = secp256k1.Base().DecodeCompressed(data)
		case "Element.DecodeUncompressed":
			err = secp256k1.Base().DecodeUncompressed(data)
		case "Element.UnmarshalBinary":
			err = secp256k1.Base().UnmarshalBinary(data)
		case "Scalar.Decode":
			err = secp256k1.NewScalar().Decode(data)
		case "Scalar.UnmarshalBinary":
			err = secp256k1.NewScalar().UnmarshalBinary(data)
		default:
			panic("harness: unknown fn " + cs.Fn)
		}
	}

	c.Eval(1)

	if cs.Mode == "trap" {
		g.Protect()
		f, pan, pv := mon.Trap(call)
		g.Unprotect()

		if pan {
			if s, ok := pv.(string); ok && len(s) > 8 && s[:8] == "harness:" {
				panic(s)
			}

			c.Count("call:panicked")
		}

		if f != nil {
			off, ok := g.Offset(f.Addr)
			where := fmt.Sprintf("address %#x outside the guarded mapping", f.Addr)

			if ok {
				where = c15Describe(objs, off)
			}

			c.Fail(fmt.Sprintf("%s stored into caller-owned memory: %s; writer: %s", cs.Fn, where, f.Writer), "write-to-caller-memory:"+cs.Fn, map[string]any{"stack": f.Stack})

			return
		}
	} else {
		if pan, pv := mon.Call(call); pan {
			if s, ok := pv.(string); ok && len(s) > 8 && s[:8] == "harness:" {
				panic(s)
			}

			c.Count("call:panicked")
		}

		if !bytes.Equal(buf, before) {
			for i := range buf {
				if buf[i] != before[i] {
					c.Fail(fmt.Sprintf("%s changed caller-owned memory: %s: %#02x -> %#02x", cs.Fn, c15Describe(objs, i), before[i], buf[i]), "write-to-caller-memory:"+cs.Fn, nil)
					break
				}
			}

			return
		}
	}

	if err != nil {
		c.Count("call:rejected")
	}

	if c.WantSample() && cs.Mode == "trap" && cs.Layout != "exact" && isHash {
		c.Sample(map[string]any{"case": cs, "objects": fmt.Sprint(objs), "trapped_stores": 0})
	}
}

func c15RunPtr(c *mon.Ctx, cs *c15Case) {
	c.Count("mode:" + cs.Mode)

	g := c15Guard(c)
	n := oracle.N

	// argument objects: in the protected payload (trap) or on the heap (canary)
	var (
		ea     *secp256k1.Element
		sa, sb *secp256k1.Scalar
	)

	var fu *field.Element // the field-element argument of the exported map function

	if cs.Mode == "trap" {
		g.Unprotect()
		ea = (*secp256k1.Element)(g.Ptr(256))
		sa = (*secp256k1.Scalar)(g.Ptr(1024))
		sb = (*secp256k1.Scalar)(g.Ptr(2048))
		fu = (*field.Element)(g.Ptr(3072))
	} else {
		ea, sa, sb, fu = secp256k1.NewElement(), secp256k1.NewScalar(), secp256k1.NewScalar(), field.New()
	}

	// u: the scalar argument's value read as a field element; 0 and the two other exceptional inputs every few cases
	uv := oracle.Mod(mon.BigH(cs.SA), oracle.P)
	if cs.U%5 == 3 {
		uv = new(big.Int)
	}

	fu.E = oracle.ToMont(uv, oracle.P)
	fub := fu.E

	x, y, z := cs.EA.R.Repr().Coords(cs.EA.P.Pt())
	secp256k1.VSetRaw(ea, oracle.ToMont(x, oracle.P), oracle.ToMont(y, oracle.P), oracle.ToMont(z, oracle.P))

	if cs.ZeroArg {
		c.Count("ptr:zero-value-element-arg")
		secp256k1.VSetRaw(ea, [4]uint64{}, [4]uint64{}, [4]uint64{})
	}
	sa.S = oracle.ToMont(mon.BigH(cs.SA), n)
	sb.S = oracle.ToMont(mon.BigH(cs.SB), n)

	if cs.NonCanon {
		c.Count("ptr:non-canonical-scalar-args")
		// limbs n + k (k < 2^256 - n), i.e. >= n: what a caller can write through the exported field
		k := oracle.Mod(mon.BigH(cs.SA), new(big.Int).Sub(oracle.R, n))
		sa.S = oracle.Limbs(new(big.Int).Add(n, k))
		sb.S = oracle.Limbs(new(big.Int).Sub(oracle.R, big.NewInt(1+int64(cs.U%1000))))
	}

	// the arguments as the API shows them, read before the call (whatever the library memoises in them is then filled)
	encEA, encSA, encSB := ea.Encode(), sa.Encode(), sb.Encode()

	eb, sab, sbb := mon.Snap(ea), sa.S, sb.S
	e := cs.E.Build()
	s := mon.Scal(mon.BigH(cs.S))

	call := func() {
		switch cs.Fn {
		case "Element.Add":
			e.Add(ea)
		case "Element.Subtract":
			e.Subtract(ea)
		case "Element.Equal":
			e.Equal(ea)
		case "Element.Set":
			e.Set(ea)
		case "Element.Multiply":
			e.Multiply(sa)
		case "Scalar.Add":
			s.Add(sa)
		case "Scalar.Subtract":
			s.Subtract(sa)
		case "Scalar.Multiply":
			s.Multiply(sa)
		case "Scalar.Set":
			s.Set(sa)
		case "Scalar.Pow":
			s.Pow(sa)
		case "Scalar.Equal":
			s.Equal(sa)
		case "Scalar.LessOrEqual":
			s.LessOrEqual(sa)
		case "Scalar.CSelect":
			_ = s.CSelect(cs.U, sa, sb)
		case "SSWU":
			q := secp256k1.SSWU(fu)
			secp256k1.IsogenySecp256k13iso(q).Add(secp256k1.Base())
		default:
			panic("harness: unknown fn " + cs.Fn)
		}
	}

	c.Eval(1)

	var f *mon.Fault

	if cs.Mode == "trap" {
		g.Protect()

		var (
			pan bool
			pv  any
		)

		f, pan, pv = mon.Trap(call)

		g.Unprotect()

		if pan {
			c.Fail(fmt.Sprintf("%s panicked: %v", cs.Fn, pv), "ptr-arg-panic:"+cs.Fn, nil)
			return
		}
	} else if pan, pv := mon.Call(call); pan {
		c.Fail(fmt.Sprintf("%s panicked: %v", cs.Fn, pv), "ptr-arg-panic:"+cs.Fn, nil)
		return
	}

	if f != nil {
		off, _ := g.Offset(f.Addr)
		obj := "?"

		switch {
		case off >= 256 && off < 256+96:
			obj = fmt.Sprintf("the *Element argument, byte %d", off-256)
		case off >= 1024 && off < 1024+32:
			obj = fmt.Sprintf("the first *Scalar argument, byte %d", off-1024)
		case off >= 2048 && off < 2048+32:
			obj = fmt.Sprintf("the second *Scalar argument, byte %d", off-2048)
		case off >= 3072 && off < 3072+32:
			obj = fmt.Sprintf("the *field.Element argument, byte %d", off-3072)
		}

		c.Fail(fmt.Sprintf("%s stored into %s; writer: %s", cs.Fn, obj, f.Writer), "write-to-argument:"+cs.Fn, map[string]any{"stack": f.Stack})

		return
	}

	if fu.E != fub {
		c.Fail(fmt.Sprintf("%s changed the stored limbs of its field-element argument u = %x: now %x", cs.Fn, uv, oracle.FromMont(fu.E, oracle.P)), "write-to-argument:"+cs.Fn, nil)
		return
	}

	if mon.Snap(ea) != eb || sa.S != sab || sb.S != sbb {
		c.Fail(fmt.Sprintf("%s changed the stored limbs of an argument", cs.Fn), "write-to-argument:"+cs.Fn, nil)
		return
	}

	// "keep their value" also afterwards: the receiver is now worked on, and the arguments must still read the same through
	// the API (a receiver that shares anything with its argument gives itself away here)
	if pan, pv := mon.Call(func() {
		e.Negate()
		_ = e.Encode()
		e.Double().Add(secp256k1.Base())
		_, _ = e.Encode(), e.EncodeUncompressed()
		s.Add(secp256k1.NewScalar().One()).Square()
		_, _ = s.Encode(), s.Bits()
	}); pan {
		c.Fail(fmt.Sprintf("working on the receiver after %s panicked: %v", cs.Fn, pv), "ptr-arg-panic:"+cs.Fn, nil)
		return
	}

	if !bytes.Equal(ea.Encode(), encEA) || !bytes.Equal(sa.Encode(), encSA) || !bytes.Equal(sb.Encode(), encSB) || mon.Snap(ea) != eb || sa.S != sab || sb.S != sbb {
		c.Fail(fmt.Sprintf("after %s, changing the RECEIVER changed what an argument encodes to: the receiver shares state with its argument", cs.Fn), "argument-shares-state:"+cs.Fn, nil)
	}
}

// c15RunFreshLoop: every serialiser of one element and one scalar, again and again, all results of an iteration held until
// its end and then compared with the oracle's bytes (run 16 at a time: a buffer that two callers were handed at once is
// overwritten by one of them while the other still holds it).
func c15RunFreshLoop(c *mon.Ctx, cs *c15Case) {
	e, p := cs.E.Build(), cs.E.P.Pt()
	sv := mon.BigH(cs.S)
	s := mon.Scal(sv)
	wantC, wantU, wantS := oracle.EncC(p), oracle.EncU(p), oracle.Bytes32(sv)

	for i := 0; i < 400; i++ {
		hx := e.Hex()
		enc := e.Encode()
		unc := e.EncodeUncompressed()
		shx := s.Hex()
		senc := s.Encode()
		mb, _ := e.MarshalBinary()
		xc := e.XCoordinate()

		c.Eval(7)

		if i%16 == 0 {
			runtime.Gosched()
		}

		if hx != mon.H(wantC) || !bytes.Equal(enc, wantC) || !bytes.Equal(unc, wantU) || shx != mon.H(wantS) || !bytes.Equal(senc, wantS) || !bytes.Equal(mb, wantC) ||
			(!p.IsInf() && !bytes.Equal(xc, wantC[1:])) {
			c.Fail(fmt.Sprintf("iteration %d: a serialisation of an element / scalar owned by this goroutine changed while it was being held (or came back wrong): Encode=%s want %s", i, mon.H(enc), mon.H(wantC)), "result-not-private", nil)
			return
		}
	}
}

func rangesOverlap(a, b []byte) bool {
	if cap(a) == 0 || cap(b) == 0 {
		return false
	}

	a0 := uintptr(unsafe.Pointer(unsafe.SliceData(a)))
	b0 := uintptr(unsafe.Pointer(unsafe.SliceData(b)))

	return a0 < b0+uintptr(cap(b)) && b0 < a0+uintptr(cap(a))
}

func c15RunFresh(c *mon.Ctx, cs *c15Case) {
	e := cs.E.Build()
	p := cs.E.P.Pt()
	sv := mon.BigH(cs.S)
	s := mon.Scal(sv)

	scribble := func(b []byte) {
		full := b[:cap(b)]
		for i := range full {
			full[i] ^= 0xff
		}
	}

	objBytes := func(ptr unsafe.Pointer, size uintptr) []byte { return unsafe.Slice((*byte)(ptr), size) }

	type slicer struct {
		get  func() []byte
		want []byte
		recv []byte
	}

	var sl *slicer

	switch cs.Fn {
	case "Element.Encode":
		sl = &slicer{func() []byte { return e.Encode() }, oracle.EncC(p), objBytes(unsafe.Pointer(e), unsafe.Sizeof(*e))}
	case "Element.EncodeUncompressed":
		sl = &slicer{func() []byte { return e.EncodeUncompressed() }, oracle.EncU(p), objBytes(unsafe.Pointer(e), unsafe.Sizeof(*e))}
	case "Element.XCoordinate":
		sl = &slicer{func() []byte { return e.XCoordinate() }, oracle.EncC(p)[1:], objBytes(unsafe.Pointer(e), unsafe.Sizeof(*e))}
	case "Element.MarshalBinary":
		sl = &slicer{func() []byte { b, _ := e.MarshalBinary(); return b }, oracle.EncC(p), objBytes(unsafe.Pointer(e), unsafe.Sizeof(*e))}
	case "Scalar.Encode":
		sl = &slicer{func() []byte { return s.Encode() }, oracle.Bytes32(sv), objBytes(unsafe.Pointer(s), unsafe.Sizeof(*s))}
	case "Scalar.MarshalBinary":
		sl = &slicer{func() []byte { b, _ := s.MarshalBinary(); return b }, oracle.Bytes32(sv), objBytes(unsafe.Pointer(s), unsafe.Sizeof(*s))}
	case "Order":
		sl = &slicer{secp256k1.Order, oracle.Bytes32(oracle.N), nil}
	}

	if sl != nil {
		c.Eval(3)

		eSnap, sSnap := mon.Snap(e), s.S
		b1 := sl.get()
		b2 := sl.get()

		if !bytes.Equal(b1, sl.want) || !bytes.Equal(b2, sl.want) {
			c.Fail(fmt.Sprintf("%s returned %s, want %s", cs.Fn, mon.H(b1), mon.H(sl.want)), "fresh-wrong-bytes:"+cs.Fn, nil)
			return
		}

		if rangesOverlap(b1, b2) {
			c.Fail(cs.Fn+": two successive results share a backing array", "result-not-fresh:"+cs.Fn, nil)
			return
		}

		if sl.recv != nil && (rangesOverlap(b1, sl.recv) || rangesOverlap(b2, sl.recv)) {
			c.Fail(cs.Fn+": the returned slice aliases the receiver's storage", "result-aliases-receiver:"+cs.Fn, nil)
			return
		}

		scribble(b1)

		if !bytes.Equal(b2[:cap(b2)][:len(sl.want)], sl.want) {
			c.Fail(cs.Fn+": writing to one result changed another result", "result-not-fresh:"+cs.Fn, nil)
		}

		if mon.Snap(e) != eSnap || s.S != sSnap {
			c.Fail(cs.Fn+": writing to the returned slice changed the value it came from", "result-aliases-receiver:"+cs.Fn, nil)
		}

		scribble(b2)

		if b3 := sl.get(); !bytes.Equal(b3, sl.want) {
			c.Fail(fmt.Sprintf("%s: after writing to earlier results, a later call returns %s, want %s", cs.Fn, mon.H(b3), mon.H(sl.want)), "result-not-fresh:"+cs.Fn, nil)
		}

		if c.WantSample() && cs.Fn != "Order" {
			c.Sample(map[string]any{"fn": cs.Fn, "result_addr_1": fmt.Sprintf("%p", unsafe.SliceData(b1)), "result_addr_2": fmt.Sprintf("%p", unsafe.SliceData(b2)), "cap": cap(b1), "len": len(b1)})
		}

		return
	}

	switch cs.Fn {
	case "constructors":
		c.Eval(6)

		a, b := secp256k1.NewElement(), secp256k1.NewElement()
		a.Base().Double()

		if !b.IsIdentity() || !secp256k1.NewElement().IsIdentity() {
			c.Fail("mutating one NewElement() result changed another (shared storage)", "constructor-shared:NewElement", nil)
		}

		g1, g2 := secp256k1.Base(), secp256k1.Base()
		g1.Double()

		if ok, _ := mon.ElemIs(g2, oracle.G()); !ok {
			c.Fail("mutating one Base() result changed another", "constructor-shared:Base", nil)
		}

		if ok, _ := mon.ElemIs(secp256k1.Base(), oracle.G()); !ok {
			c.Fail("Base() no longer returns G after a previous result was mutated", "constructor-shared:Base", nil)
		}

		id := e.Copy().Identity()
		id.Base()

		if !secp256k1.NewElement().IsIdentity() || !e.Copy().Identity().IsIdentity() {
			c.Fail("mutating an element after Identity() changed the package's identity", "constructor-shared:Identity", nil)
		}

		s1, s2 := secp256k1.NewScalar(), secp256k1.NewScalar()
		s1.One()

		if !s2.IsZero() || !secp256k1.NewScalar().IsZero() {
			c.Fail("mutating one NewScalar() result changed another", "constructor-shared:NewScalar", nil)
		}
	case "Element.Copy":
		c.Eval(2)

		snap := mon.Snap(e)
		cp := e.Copy()
		cp.Add(secp256k1.Base()).Double()

		if mon.Snap(e) != snap {
			c.Fail("mutating an Element.Copy() changed its source", "copy-shared:Element", nil)
		}

		cp2 := e.Copy()
		e.Double().Add(secp256k1.Base())

		if ok, _ := mon.ElemIs(cp2, p); !ok {
			c.Fail("mutating the source changed an earlier Element.Copy()", "copy-shared:Element", nil)
		}
	case "Scalar.Copy":
		c.Eval(2)

		cp := s.Copy()
		cp.Add(mon.Scal(big.NewInt(1)))

		if mon.ScalVal(s).Cmp(sv) != 0 {
			c.Fail("mutating a Scalar.Copy() changed its source", "copy-shared:Scalar", nil)
		}

		cp2 := s.Copy()
		s.Add(mon.Scal(big.NewInt(1)))

		if mon.ScalVal(cp2).Cmp(sv) != 0 {
			c.Fail("mutating the source changed an earlier Scalar.Copy()", "copy-shared:Scalar", nil)
		}
	case "Scalar.Bits":
		c.Eval(2)

		b1 := s.Bits()
		for i := range b1 {
			b1[i] ^= 1
		}

		b2 := s.Bits()
		for i := 0; i < 256; i++ {
			if uint(b2[i]) != sv.Bit(i) {
				c.Fail("writing to a Bits() result changed a later result", "result-not-fresh:Scalar.Bits", nil)
				break
			}
		}
	default:
		panic("harness: unknown fn " + cs.Fn)
	}
}

// c15RunRetain: an object decoded from a caller-owned buffer must not retain that buffer.
func c15RunRetain(c *mon.Ctx, cs *c15Case) {
	p := cs.E.P.Pt()
	sv := mon.BigH(cs.S)

	var (
		in   []byte
		want []byte
		enc  func() [][]byte
		dec  func() error
	)

	e := secp256k1.Base().Double()
	s := mon.Scal(big.NewInt(99))

	switch cs.Fn {
	case "Element.Decode", "Element.DecodeCompressed", "Element.UnmarshalBinary", "Element.DecodeHex":
		want = oracle.EncC(p)
	case "Element.DecodeUncompressed":
		want = oracle.EncU(p)
	default:
		want = oracle.Bytes32(sv)
	}

	if p.IsInf() && (cs.Fn == "Element.DecodeCompressed" || cs.Fn == "Element.DecodeUncompressed") {
		return // the identity has no compressed/uncompressed form of that length
	}

	in = append(make([]byte, 0, len(want)+16), want...) // caller buffer with spare capacity

	isScalar := len(cs.Fn) > 7 && cs.Fn[:7] == "Scalar."
	if isScalar {
		enc = func() [][]byte { b, _ := s.MarshalBinary(); return [][]byte{s.Encode(), b} }
	} else {
		enc = func() [][]byte {
			b, _ := e.MarshalBinary()
			return [][]byte{e.Encode(), e.EncodeUncompressed(), e.XCoordinate(), b}
		}
	}

	switch cs.Fn {
	case "Element.Decode":
		dec = func() error { return e.Decode(in) }
	case "Element.DecodeCompressed":
		dec = func() error { return e.DecodeCompressed(in) }
	case "Element.DecodeUncompressed":
		dec = func() error { return e.DecodeUncompressed(in) }
	case "Element.UnmarshalBinary":
		dec = func() error { return e.UnmarshalBinary(in) }
	case "Element.DecodeHex":
		dec = func() error { return e.DecodeHex(mon.H(in)) }
	case "Scalar.Decode":
		dec = func() error { return s.Decode(in) }
	case "Scalar.UnmarshalBinary":
		dec = func() error { return s.UnmarshalBinary(in) }
	default:
		panic("harness: unknown fn " + cs.Fn)
	}

	c.Eval(4)

	if err := dec(); err != nil {
		c.Fail(cs.Fn+" rejected a valid encoding: "+err.Error(), "retain-rejected:"+cs.Fn, nil)
		return
	}

	first := enc()
	for _, b := range first {
		if rangesOverlap(b, in[:cap(in)]) {
			c.Fail(cs.Fn+": an encoding returned after decoding aliases the caller's input buffer", "decode-retains-input:"+cs.Fn, nil)
			return
		}
	}

	// the caller reuses its buffer
	for i := range in[:cap(in)] {
		in[:cap(in)][i] ^= 0xff
	}

	snapshot := append([]byte{}, in[:cap(in)]...)
	second := enc()

	ref := want
	if !isScalar {
		ref = oracle.EncC(p)
	}

	if !bytes.Equal(second[0], ref) {
		c.Fail(fmt.Sprintf("%s: after the caller overwrote its input buffer the decoded object encodes as %s, want %s (the object kept the buffer)", cs.Fn, mon.H(second[0]), mon.H(ref)), "decode-retains-input:"+cs.Fn, nil)
		return
	}

	// writing to the encodings must not reach the buffer either
	for _, b := range append(first, second...) {
		full := b[:cap(b)]
		for i := range full {
			full[i] ^= 0x55
		}
	}

	if !bytes.Equal(in[:cap(in)], snapshot) {
		c.Fail(cs.Fn+": writing to an encoding changed the caller's input buffer", "decode-retains-input:"+cs.Fn, nil)
		return
	}

	if third := enc(); !bytes.Equal(third[0], ref) {
		c.Fail(cs.Fn+": writing to earlier encodings changed a later encoding of the decoded object", "result-not-fresh:"+cs.Fn, nil)
		return
	}

	// the life of the decoded object after the call: whatever it is then asked to do (be wiped, overwritten, negated, used
	// as an argument), the buffer it was decoded from stays the caller's. Decode again from a fresh copy, keep the buffer
	// intact this time, and run the object through its mutators.
	copy(in, want)

	if err := dec(); err != nil {
		c.Fail(cs.Fn+" rejected a valid encoding the second time: "+err.Error(), "retain-rejected:"+cs.Fn, nil)
		return
	}

	snapshot = append([]byte{}, in[:cap(in)]...)
	c.Count("decoded-object-mutated-while-buffer-watched")

	var steps []func()

	if isScalar {
		o := mon.Scal(big.NewInt(5))
		steps = []func(){
			func() { s.Zero() }, func() { _ = dec() }, func() { s.Set(nil) }, func() { _ = dec() }, func() { s.Multiply(nil) }, func() { _ = dec() },
			func() { s.One() }, func() { _ = dec() }, func() { s.MinusOne() }, func() { _ = dec() }, func() { s.SetUInt64(7) }, func() { _ = dec() },
			func() { s.Add(o); s.Subtract(o); s.Multiply(o); s.Square(); s.Invert(); s.Pow(o) }, func() { _ = dec() },
			func() { _ = s.CSelect(1, o, s) }, func() { _ = dec() }, func() { o.Add(s); o.Set(s); s.Set(o) },
		}
	} else {
		o := secp256k1.Base().Double()
		k := mon.Scal(big.NewInt(3))
		steps = []func(){
			func() { e.Identity() }, func() { _ = dec() }, func() { e.Base() }, func() { _ = dec() },
			func() { e.Negate() }, func() { _ = dec() }, func() { e.Double() }, func() { _ = dec() }, func() { e.Add(o); e.Subtract(o); e.Multiply(k) }, func() { _ = dec() },
			func() { e.Multiply(nil) }, func() { _ = dec() }, func() { o.Add(e); o.Set(e); e.Set(o) },
		}
	}

	for i, st := range steps {
		if pan, pv := mon.Call(st); pan {
			c.Fail(fmt.Sprintf("%s: step %d of the decoded object's later life panicked: %v", cs.Fn, i, pv), "retain-later-panic:"+cs.Fn, nil)
			return
		}

		if !bytes.Equal(in[:cap(in)], snapshot) {
			c.Fail(fmt.Sprintf("%s: the caller's input buffer was written to AFTER the call returned, by step %d of the decoded object's later life (wipe / overwrite / arithmetic): %s -> %s", cs.Fn, i, mon.H(snapshot), mon.H(in[:cap(in)])), "decode-retains-input-written-later:"+cs.Fn, nil)
			return
		}
	}
}
