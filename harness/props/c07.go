//go:build verif && (p_all || p_c07)

package props

import (
	"bytes"
	"fmt"
	"math/big"
	"strings"

	"github.com/bytemare/secp256k1"
	"github.com/bytemare/secp256k1/zz_verif/gen"
	"github.com/bytemare/secp256k1/zz_verif/mon"
	"github.com/bytemare/secp256k1/zz_verif/oracle"
)

// C07 — scalar encodings are canonical 32-byte big-endian; decoding rejects everything else.

type c07Case struct {
	// Conc != 0: a concurrent batch (8 goroutines on objects they own) derived from this seed; other fields unused.
	Conc uint64 `json:"concurrent_seed,omitempty"`
	Kind  string `json:"kind"` // decode | encode | hex
	In    string `json:"in"`   // decode: input bytes (hex); encode: canonical value (hex); hex: literal string
	Nil   bool   `json:"nil,omitempty"`
	Class string `json:"class"`
	// Move (encode cases): the scalar object first holds Move.From and is encoded, is then driven to In's value through one
	// mutator of the public API, and only then goes through the encode checks.
	Move *mon.ScalarMove `json:"move,omitempty"`
}

func init() {
	register(&mon.Prop{
		ID:      "C07",
		Flavour: "plain",
		Rule: "cases: decode inputs of every length 0..100 (nil and empty), 32-byte integers from the structured 256-bit list around n (n-40..n+40, n with each limb replaced by 0/limb±1/2^64-1, " +
			"values equal to n in three limbs, 2^k, 2^k±1, n±2^k, 2^256-1) and PRNG values biased to [n, 2^256); each through Decode, UnmarshalBinary and DecodeHex; encode cases on structured + Montgomery-structured + PRNG scalars, and on scalar objects that first held another value, were encoded, and were then driven to the value through each mutator of the API (Set, the decoders, CSelect, arithmetic, SetUInt64, Invert, Pow, Random on scripted entropy including draws in [n, 2^256) and draws of 0 and n that must be retried). " +
			"Oracle: accept iff len==32 and OS2IP<n (math/big); accepted value and Encode(Decode(b))==b; the three rejection causes (empty, wrong length, >=n) must map to three pairwise-distinct, stable error values; " +
			"Encode/Hex/MarshalBinary compared with the big-endian bytes of the value. non-trivial = 32-byte decode input or any encode case with value>1; distinct by (kind, input).",
		NewCase:  func() any { return &c07Case{} },
		Generate: c07Generate,
		Run:      c07Run,
		Finish:   c07Finish,
		Require: func(string) map[string]int64 {
			return map[string]int64{"decode:accept": 1000, "decode:reject:>=n": 500, "decode:reject:length": 200, "decode:reject:empty": 6, "encode": 1000, "encode:moved": 200, "hex:invalid": 3}
		},
	})

	Registry["C07"].ColdStart = func(c *mon.Ctx) { c07RunConc(c, c.Seed*7919+uint64(c.Shard)+1) }
}

func c07Generate(c *mon.Ctx) {
	concBatches(c, c.NConc(6, 300), func(seed uint64) any { return &c07Case{Conc: seed} })

	n := oracle.N

	for l := 0; l <= 100; l++ {
		for _, fill := range []byte{0, 1, 0xff} {
			in := mon.H(bytes.Repeat([]byte{fill}, l))
			c.Structured(func() any { return &c07Case{Kind: "decode", In: in, Class: "len"} })
		}
	}

	c.Structured(func() any { return &c07Case{Kind: "decode", Nil: true, Class: "nil"} })

	// lengths that equal 32 modulo 256 / 65536, starting with a canonical scalar
	for _, extra := range []int{256, 512, 768, 1024, 65536} {
		for _, fill := range []byte{0, 0xff} {
			in := mon.H(append(oracle.Bytes32(big.NewInt(0xabcdef)), bytes.Repeat([]byte{fill}, extra)...))
			c.Structured(func() any { return &c07Case{Kind: "decode", In: in, Class: "len-wrap"} })
		}
	}

	// a valid encoding with one byte too many or too few: every value of the extra byte, in front and behind (sign octets,
	// length prefixes, terminators of other serialisation formats), for a value with the top bit set and one without
	for _, v := range []*big.Int{new(big.Int).Sub(n, big.NewInt(12345)), big.NewInt(0xabcdef), new(big.Int).Lsh(big.NewInt(0x81), 248), new(big.Int).Lsh(big.NewInt(0x7f), 248)} {
		enc := oracle.Bytes32(v)

		for b := 0; b < 256; b++ {
			front := mon.H(append([]byte{byte(b)}, enc...))
			back := mon.H(append(append([]byte{}, enc...), byte(b)))
			c.Structured(func() any { return &c07Case{Kind: "decode", In: front, Class: "one-byte-extra"} })
			c.Structured(func() any { return &c07Case{Kind: "decode", In: back, Class: "one-byte-extra"} })
		}

		short1, short2 := mon.H(enc[1:]), mon.H(enc[:31])
		c.Structured(func() any { return &c07Case{Kind: "decode", In: short1, Class: "one-byte-short"} })
		c.Structured(func() any { return &c07Case{Kind: "decode", In: short2, Class: "one-byte-short"} })

		// DER INTEGER / OCTET STRING wrappings of the same value
		for _, pre := range [][]byte{{0x02, 0x20}, {0x02, 0x21, 0x00}, {0x04, 0x20}, {0x00, 0x00}, {0x20}} {
			in := mon.H(append(append([]byte{}, pre...), enc...))
			c.Structured(func() any { return &c07Case{Kind: "decode", In: in, Class: "wrapped"} })
		}
	}

	// every byte value at a few positions of a valid 64-digit hex string
	hbase := mon.H(oracle.Bytes32(big.NewInt(0x123456789abcdef)))
	for _, pos := range []int{0, 1, 31, 62, 63} {
		for b := 0; b < 256; b++ {
			bs := []byte(hbase)
			bs[pos] = byte(b)
			hs := string(bs)
			c.Structured(func() any { return &c07Case{Kind: "hex", In: hs, Class: "hex-byte-sweep"} })
		}
	}

	for _, v := range gen.Raw256(n) {
		in, cl := mon.H(oracle.Bytes32(v.X)), v.Class
		c.Structured(func() any { return &c07Case{Kind: "decode", In: in, Class: cl} })
	}

	for _, v := range gen.UnitDigitTuples(n) {
		in, cl := mon.H(oracle.Bytes32(v.X)), v.Class
		c.Structured(func() any { return &c07Case{Kind: "decode", In: in, Class: cl} })
	}

	for d := int64(-4096); d <= 4096; d += int64(c.N(7, 1)) {
		in := mon.H(oracle.Bytes32(new(big.Int).Add(n, big.NewInt(d))))
		c.Structured(func() any { return &c07Case{Kind: "decode", In: in, Class: "window"} })
	}

	for _, v := range gen.Structured(n) {
		in, cl := fmt.Sprintf("%x", v.X), v.Class
		c.Structured(func() any { return &c07Case{Kind: "encode", In: in, Class: cl} })
	}

	// scalars that reached their value through each mutator of the API (not by writing limbs)
	hr := c.SharedRng("moves")
	for rep := 0; rep < c.N(12, 400); rep++ {
		for _, via := range mon.ScalarVias {
			mv := mon.PlanScalarMove(via, hr)
			c.Structured(func() any { return &c07Case{Kind: "encode", In: mv.To, Class: "moved:" + mv.Via, Move: &mv} })
		}
	}

	// the object as its own argument, or meeting an equal / opposite value, from every Montgomery-structured start value
	// (a doubling or a sum that lands in [n, 2^256) without wrapping)
	for i, v := range gen.MontStructured(n) {
		via := mon.SelfVias[i%len(mon.SelfVias)]
		if via == "add-to-zero" && v.X.Sign() == 0 {
			via = "add-self"
		}

		mv := mon.PlanScalarMoveFrom(via, hr, v.X)
		mv2 := mon.PlanScalarMoveFrom("add-self", hr, v.X)
		c.Structured(func() any { return &c07Case{Kind: "encode", In: mv.To, Class: "moved:" + mv.Via, Move: &mv} })
		c.Structured(func() any { return &c07Case{Kind: "encode", In: mv2.To, Class: "moved:" + mv2.Via, Move: &mv2} })
	}

	g := mon.H(oracle.Bytes32(big.NewInt(0xabcdef)))
	for _, s := range []string{g + "0", g + "f", g + "00", "0" + g, "00" + g, g[:len(g)-2], g, strings.ToUpper(g), g[:len(g)-1], "0x" + g, g + " ", "zz" + g[2:], "", g + g, mon.H(oracle.Bytes32(n)), mon.H(oracle.Bytes32(new(big.Int).Sub(n, big.NewInt(1))))} {
		s := s
		c.Structured(func() any { return &c07Case{Kind: "hex", In: s, Class: "hex"} })
	}

	c.Random(c.N(100000, 10000000), func(r *gen.Rng) any {
		switch r.Intn(3) {
		case 0:
			v := gen.Draw(r, n)
			return &c07Case{Kind: "encode", In: fmt.Sprintf("%x", v.X), Class: v.Class}
		default:
			v := gen.Draw256(r, n)
			return &c07Case{Kind: "decode", In: mon.H(oracle.Bytes32(v.X)), Class: v.Class}
		}
	})

	// and again at the end of the shard, when the process has a history behind it
	concBatches(c, c.NConc(4, 200), func(seed uint64) any { return &c07Case{Conc: seed + 50000} })
}

// error identities observed per rejection cause, to check distinctness / stability across the shard
type c07Errs struct{ byCause map[string]map[string]int }

func c07State(c *mon.Ctx) *c07Errs {
	if st, ok := c.Scratch["errs"].(*c07Errs); ok {
		return st
	}

	st := &c07Errs{byCause: map[string]map[string]int{}}
	c.Scratch["errs"] = st

	return st
}

func c07Run(c *mon.Ctx, csAny any) {
	cs := csAny.(*c07Case)

	if cs.Conc != 0 {
		c07RunConc(c, cs.Conc)
		return
	}
	n := oracle.N

	switch cs.Kind {
	case "encode":
		var (
			v *big.Int
			s *secp256k1.Scalar
		)

		if cs.Move == nil {
			v = mon.BigH(cs.In)
			s = mon.Scal(v)
		} else {
			var (
				pan bool
				pv  any
			)

			s, v, pan, pv = mon.MoveScalar(*cs.Move, func(s *secp256k1.Scalar) { _, _ = s.Encode(), s.Hex() })
			if pan {
				c.Fail(fmt.Sprintf("scalar mutator %s panicked: %v", cs.Move.Via, pv), "scalar-move-panic", nil)
				return
			}

			c.Count("encode:moved")

			if cs.Move.To == mon.Havoc {
				c.Count("encode:moved-havoc")
			}
		}

		want := oracle.Bytes32(v)

		c.Eval(3)
		c.Count("encode")

		var (
			enc, mb []byte
			hx      string
			merr    error
		)

		if pan, pv := mon.Call(func() { enc, hx = s.Encode(), s.Hex(); mb, merr = s.MarshalBinary() }); pan {
			c.Fail(fmt.Sprint("scalar encoder panicked: ", pv), "scalar-encode-panic", nil)
			return
		}

		if !bytes.Equal(enc, want) {
			c.Fail(fmt.Sprintf("Encode=%s want %s", mon.H(enc), mon.H(want)), "scalar-encode-bytes", nil)
		}

		if hx != mon.H(want) {
			c.Fail(fmt.Sprintf("Hex=%s want %s", hx, mon.H(want)), "scalar-hex", nil)
		}

		if merr != nil || !bytes.Equal(mb, want) {
			c.Fail(fmt.Sprintf("MarshalBinary=%s,%v want %s", mon.H(mb), merr, mon.H(want)), "scalar-marshal", nil)
		}

		// round trip through every decoder
		for name, f := range map[string]func(d *secp256k1.Scalar) error{
			"Decode":          func(d *secp256k1.Scalar) error { return d.Decode(enc) },
			"UnmarshalBinary": func(d *secp256k1.Scalar) error { return d.UnmarshalBinary(mb) },
			"DecodeHex":       func(d *secp256k1.Scalar) error { return d.DecodeHex(hx) },
		} {
			d := mon.Scal(big.NewInt(99))
			c.Eval(1)

			if err := f(d); err != nil {
				c.Fail(fmt.Sprintf("%s rejected the implementation's own encoding of %x: %v", name, v, err), "scalar-roundtrip-rejected", nil)
			} else if mon.ScalVal(d).Cmp(v) != 0 || d.S != s.S {
				c.Fail(fmt.Sprintf("%s(Encode(s)) = %x, want %x", name, mon.ScalVal(d), v), "scalar-roundtrip-value", nil)
			}
		}

		// a retained encoding must survive later changes of the scalar (snapshot / restore)
		keep := append([]byte{}, enc...)
		s.Add(mon.Scal(big.NewInt(1)))
		_, _ = s.Encode(), s.Hex()
		_, _ = s.MarshalBinary()

		if !bytes.Equal(enc, keep) || !bytes.Equal(mb, keep) {
			c.Fail(fmt.Sprintf("an encoding of %x returned earlier changed after the scalar was modified and encoded again", v), "scalar-encode-not-retained", nil)
		}

		// what was handed out stays what it was while other scalars are serialised and while the caller appends to the slices
		// it holds (s now holds v+1)
		{
			var ks keptSet

			for _, x := range []*secp256k1.Scalar{s, mon.Scal(v), s} {
				ks.keep("Scalar.Encode", x.Encode(), "")
				ks.keep("Scalar.Hex", nil, x.Hex())

				if b, err := x.MarshalBinary(); err == nil {
					ks.keep("Scalar.MarshalBinary", b, "")
				}
			}

			c.Eval(9)

			if ks.l[3].want != string(want) || ks.l[4].want != mon.H(want) {
				c.Fail(fmt.Sprintf("Encode=%s Hex=%s want %s", mon.H(ks.l[3].b), ks.l[4].want, mon.H(want)), "scalar-encode-bytes", nil)
			}

			ks.check(c, "scalar-encode-output-changed-later")
		}

		if v.BitLen() > 1 {
			c.Seen("encode", cs.In)
		}
	case "decode":
		var in []byte
		if !cs.Nil {
			in = mon.UnH(cs.In)
		}

		cause := ""

		switch {
		case len(in) == 0:
			cause = "empty"
		case len(in) != 32:
			cause = "length"
		case new(big.Int).SetBytes(in).Cmp(n) >= 0:
			cause = ">=n"
		}

		for _, dec := range []string{"Decode", "UnmarshalBinary", "DecodeHex"} {
			s := mon.Scal(big.NewInt(1234))

			var err error

			c.Eval(1)

			pan, pv := mon.Call(func() {
				switch dec {
				case "Decode":
					err = s.Decode(in)
				case "UnmarshalBinary":
					err = s.UnmarshalBinary(in)
				default:
					err = s.DecodeHex(mon.H(in))
				}
			})
			if pan {
				c.Fail(fmt.Sprintf("%s panicked on a %d-byte input: %v", dec, len(in), pv), "scalar-decode-panic", nil)
				continue
			}

			if cause == "" {
				c.Count("decode:accept")

				if err != nil {
					c.Fail(fmt.Sprintf("%s rejected a canonical 32-byte scalar %s: %v", dec, cs.In, err), "scalar-decode-rejects-valid", nil)
					continue
				}

				if !mon.ScalCanonical(s) || mon.ScalVal(s).Cmp(new(big.Int).SetBytes(in)) != 0 {
					c.Fail(fmt.Sprintf("%s(%s) = %x", dec, cs.In, mon.ScalVal(s)), "scalar-decode-value", nil)
				}

				if !bytes.Equal(s.Encode(), in) {
					c.Fail("Encode(Decode(b)) != b", "scalar-decode-reencode", nil)
				}

				continue
			}

			c.Count("decode:reject:" + cause)

			if err == nil {
				c.Fail(fmt.Sprintf("%s accepted an invalid input (%s, class %s): %s", dec, cause, cs.Class, cs.In), "scalar-decode-accepts-invalid:"+cause, nil)
				continue
			}

			// remember which error value each cause produces (by message; the values are package-level variables)
			st := c07State(c)
			if st.byCause[cause] == nil {
				st.byCause[cause] = map[string]int{}
			}

			st.byCause[cause][err.Error()]++
		}

		if len(in) == 32 {
			c.Seen("decode", cs.In)

			if c.WantSample() && cause == ">=n" {
				c.Sample(map[string]any{"case": cs, "oracle": "reject: value >= n"})
			}
		}
	case "hex":
		s := mon.Scal(big.NewInt(7))

		var err error

		c.Eval(1)

		if pan, pv := mon.Call(func() { err = s.DecodeHex(cs.In) }); pan {
			c.Fail(fmt.Sprint("DecodeHex panicked: ", pv), "scalar-decodehex-panic", nil)
			return
		}

		b, ok, upper := strictHex(cs.In)
		accept := ok && len(b) == 32 && new(big.Int).SetBytes(b).Cmp(n) < 0

		if !ok {
			c.Count("hex:invalid")
		}

		switch {
		case accept && err != nil && !upper:
			c.Fail("DecodeHex rejected a valid lower-case hex scalar: "+err.Error(), "scalar-decodehex-rejects-valid", nil)
		case !accept && err == nil:
			c.Fail(fmt.Sprintf("DecodeHex accepted %q", cs.In), "scalar-decodehex-accepts-invalid", nil)
		case accept && err == nil && mon.ScalVal(s).Cmp(new(big.Int).SetBytes(b)) != 0:
			c.Fail("DecodeHex decoded a wrong value", "scalar-decodehex-value", nil)
		}

		c.Seen("hex", cs.In)
	default:
		panic("harness: unknown kind " + cs.Kind)
	}
}

// c07Finish checks, per shard, that each rejection cause maps to one stable error and that the three are distinct.
func c07Finish(c *mon.Ctx) {
	st := c07State(c)
	seen := map[string]string{}

	for cause, msgs := range st.byCause {
		if len(msgs) != 1 {
			c.Fail(fmt.Sprintf("rejection cause %q produced %d different errors: %v", cause, len(msgs), msgs), "scalar-error-unstable:"+cause, nil)
		}

		for m := range msgs {
			if other, dup := seen[m]; dup {
				c.Fail(fmt.Sprintf("rejection causes %q and %q are reported with the same error %q", cause, other, m), "scalar-error-not-distinct", nil)
			}

			seen[m] = cause
			c.Count("error-class:" + cause + ":" + m)
		}
	}
}

func c07RunConc(c *mon.Ctx, seed uint64) {
	r := concRng("C07", seed)

	var (
		jobs       []func() string
		prevShared *secp256k1.Scalar
		prevEnc    []byte
	)

	for i := 0; i < concJobs; i++ {
		v := gen.Draw256(r, oracle.N).X
		in := oracle.Bytes32(v)
		accept := v.Cmp(oracle.N) < 0
		dec := i % 3
		shared := mon.Scal(oracle.Mod(v, oracle.N))
		sharedEnc := oracle.Bytes32(oracle.Mod(v, oracle.N))

		if i%2 == 1 {
			shared, sharedEnc = prevShared, prevEnc // the same object another job is encoding at the same time
		}

		prevShared, prevEnc = shared, sharedEnc
		hexIn := mon.H(in)
		jobs = append(jobs, func() string {
			// the decode comes first: in a cold process it is the first use of the library, made by all goroutines within
			// a fraction of a microsecond of each other
			s := mon.Scal(big.NewInt(77))

			var err error

			switch dec {
			case 0:
				err = s.Decode(in)
			case 1:
				err = s.UnmarshalBinary(in)
			default:
				err = s.DecodeHex(hexIn)
			}

			if (err == nil) != accept {
				return fmt.Sprintf("decode of %x: accepted=%v, want %v", v, err == nil, accept)
			}

			if !bytes.Equal(shared.Encode(), sharedEnc) || shared.Hex() != mon.H(sharedEnc) {
				return "Encode/Hex of a scalar that another goroutine is also encoding"
			}

			if accept && (mon.ScalVal(s).Cmp(v) != 0 || !bytes.Equal(s.Encode(), in) || s.Hex() != mon.H(in)) {
				return fmt.Sprintf("decode/encode of %x gives %x", v, mon.ScalVal(s))
			}

			return ""
		})
	}

	if c.RunConcurrent("scalar Decode/Encode", "scalar-codec-concurrent", 3000, jobs) {
		c.Seen("conc", seed)
	}
}
