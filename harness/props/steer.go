//go:build verif && (p_all || p_c08 || p_c11)

package props

import (
	"math/big"

	"github.com/bytemare/secp256k1/zz_verif/gen"
	"github.com/bytemare/secp256k1/zz_verif/mon"
	"github.com/bytemare/secp256k1/zz_verif/oracle"
)

// Steering of map-to-curve inputs, shared by C11 (which feeds them to SSWU / the isogeny directly) and C08 (which feeds
// them through the library's own hash_to_field reduction as chosen expander output).

type steeredInput struct {
	V     *big.Int
	Class string
}

func gIsoRef(x *big.Int) *big.Int {
	return oracle.FAdd(oracle.FAdd(oracle.FMul(oracle.FSqr(x), x), oracle.FMul(oracle.IsoA, x)), oracle.IsoB)
}

// steerMapInput solves for an input whose named intermediate has the stored value t.
func steerMapInput(which string, t *big.Int) (*big.Int, bool) {
	v := oracle.FromMont(oracle.Limbs(t), oracle.P) // canonical value with stored form t
	if v.Sign() == 0 {
		return nil, false
	}

	fromTv2 := func(tv2 *big.Int) (*big.Int, bool) {
		// tv2 = w^2 + w with w = Z u^2
		disc := oracle.FAdd(big.NewInt(1), oracle.FMul(big.NewInt(4), tv2))

		rt, ok := oracle.FSqrt(disc)
		if !ok {
			return nil, false
		}

		for _, sgn := range []*big.Int{rt, oracle.FNeg(rt)} {
			w := oracle.FMul(oracle.FSub(sgn, big.NewInt(1)), oracle.FInv0(big.NewInt(2)))
			if u, ok := oracle.FSqrt(oracle.FMul(w, oracle.FInv0(oracle.Z))); ok && u.Sign() != 0 {
				return u, true
			}
		}

		return nil, false
	}

	switch which {
	case "u2":
		return oracle.FSqrt(v)
	case "tv1":
		return oracle.FSqrt(oracle.FMul(v, oracle.FInv0(oracle.Z)))
	case "tv2":
		return fromTv2(v)
	case "tv3":
		return fromTv2(oracle.FSub(v, big.NewInt(1)))
	case "tv6":
		// tv6 = tv4^3, tv4 = A * (-tv2)
		tv4, ok := oracle.FCubeRoot(v)
		if !ok {
			return nil, false
		}

		return fromTv2(oracle.FNeg(oracle.FMul(tv4, oracle.FInv0(oracle.IsoA))))
	case "x1":
		// SSWU output x1 = (-B/A) (1 + 1/tv2) = v  <=>  tv2 = 1 / (v (-A/B) - 1)
		den := oracle.FSub(oracle.FMul(v, oracle.FMul(oracle.FNeg(oracle.IsoA), oracle.FInv0(oracle.IsoB))), big.NewInt(1))
		if den.Sign() == 0 {
			return nil, false
		}

		return fromTv2(oracle.FInv0(den))
	case "x2out":
		// SSWU output x2 = Z u^2 x1 = tv1 x1 = v, with x1 = (-B/A)(tv2+1)/tv2 and tv2 = tv1^2 + tv1 = tv1 (tv1 + 1):
		// v = (-B/A) (tv1^2 + tv1 + 1) / (tv1 + 1)  <=>  (-B/A) tv1^2 + ((-B/A) - v) tv1 + ((-B/A) - v) = 0
		k := oracle.FMul(oracle.FNeg(oracle.IsoB), oracle.FInv0(oracle.IsoA))
		bq := oracle.FSub(k, v)
		disc := oracle.FSub(oracle.FSqr(bq), oracle.FMul(big.NewInt(4), oracle.FMul(k, bq)))

		rt, ok := oracle.FSqrt(disc)
		if !ok {
			return nil, false
		}

		for _, sgn := range []*big.Int{rt, oracle.FNeg(rt)} {
			tv1 := oracle.FMul(oracle.FSub(sgn, bq), oracle.FInv0(oracle.FMul(big.NewInt(2), k)))
			if u, ok := oracle.FSqrt(oracle.FMul(tv1, oracle.FInv0(oracle.Z))); ok && u.Sign() != 0 {
				return u, true
			}
		}

		return nil, false
	case "gx1num":
		// the numerator SqrtRatio is called with (step 18): N = (tv3^2 + A tv4^2) tv3 + B tv4^3 with tv3 = B (w + 1),
		// tv4 = -A w, w = tv2 of step 4:  N(w) = B^3 (w+1)^3 + A^3 B w^2 (w+1) - A^3 B w^3 = B^3 (w+1)^3 + A^3 B w^2
		a3b := oracle.FMul(oracle.FMul(oracle.FSqr(oracle.IsoA), oracle.IsoA), oracle.IsoB)
		b3 := oracle.FMul(oracle.FSqr(oracle.IsoB), oracle.IsoB)
		three := big.NewInt(3)

		for _, w := range oracle.PolyRoots(oracle.FSub(b3, v), oracle.FMul(three, b3), oracle.FAdd(oracle.FMul(three, b3), a3b), b3) {
			if u, ok := fromTv2(w); ok {
				return u, true
			}
		}

		return nil, false
	case "gx1den":
		// the denominator of that call: tv6 = tv4^3 (same as "tv6")
		return steerMapInput("tv6", t)
	case "yden":
		// y_den = x'^3 + k42 x'^2 + k41 x' + k40 = v
		for _, x := range oracle.PolyRoots(oracle.FSub(oracle.K[3][0], v), oracle.K[3][1], oracle.K[3][2], big.NewInt(1)) {
			if _, on := oracle.FSqrt(gIsoRef(x)); on {
				return x, true
			}
		}

		return nil, false
	case "tv4":
		// tv4 = A * (-tv2) is what step 25 inverts
		return fromTv2(oracle.FNeg(oracle.FMul(v, oracle.FInv0(oracle.IsoA))))
	case "xden":
		// x_den = x'^2 + k21 x' + k20 = v
		k21, k20 := oracle.K[1][1], oracle.K[1][0]
		disc := oracle.FSub(oracle.FSqr(k21), oracle.FMul(big.NewInt(4), oracle.FSub(k20, v)))

		rt, ok := oracle.FSqrt(disc)
		if !ok {
			return nil, false
		}

		for _, sgn := range []*big.Int{rt, oracle.FNeg(rt)} {
			x := oracle.FMul(oracle.FSub(sgn, k21), oracle.FInv0(big.NewInt(2)))
			if _, on := oracle.FSqrt(gIsoRef(x)); on {
				return x, true
			}
		}

		return nil, false
	case "x2":
		x, ok := oracle.FSqrt(v)
		if !ok {
			return nil, false
		}

		_, on := oracle.FSqrt(gIsoRef(x))

		return x, on
	case "x3":
		x, ok := oracle.FCubeRoot(v)
		if !ok {
			return nil, false
		}

		_, on := oracle.FSqrt(gIsoRef(x))

		return x, on
	}

	return nil, false
}

// steeredMapInputs lists u (for SSWU) and x' (for the isogeny) solved so that
//   - an intermediate of the straight-line SSWU (u^2, tv1 = Z u^2, tv2, tv3 = tv2 + 1, which is multiplied by B' = 1771,
//     tv6 = tv4^3) or of the isogeny (x'^2, x'^3) has a structured STORED value (gen.StoredTargets, half-zero limbs);
//   - the value that is INVERTED (tv4 in SSWU step 25, x_den in the isogeny) is a hard input of a divstep inversion, or a
//     value whose inverse is structured (small, zero top limbs);
//   - the OUTPUT x of SSWU is a chosen abscissa: the points the isogenous curve E' shares with secp256k1 itself
//     (x* = (7 - B')/A', where x^3 + A'x + B' = x^3 + 7), the roots of the isogeny's x denominator, small x.
func steeredMapInputs(c *mon.Ctx) (us, xs []steeredInput) {
	p := oracle.P
	// (a child running a much slower build of the monitors solves for every Stride-th target only)
	nth, stride := 0, c.Stride()
	skip := func() bool {
		nth++
		return stride > 1 && nth%stride != 0
	}

	addU := func(which string, t *big.Int) {
		if skip() {
			return
		}

		if u, ok := steerMapInput(which, t); ok {
			us = append(us, steeredInput{u, "steered:" + which})
		}
	}
	addX := func(which string, t *big.Int) {
		if skip() {
			return
		}

		if x, ok := steerMapInput(which, t); ok {
			xs = append(xs, steeredInput{x, "steered:" + which})
		}
	}

	targets := gen.StoredTargets(p)
	strideT := 1

	for ti := int(c.Seed % uint64(strideT)); ti < len(targets); ti += strideT {
		for _, which := range []string{"u2", "tv1", "tv2", "tv3", "tv6"} {
			addU(which, targets[ti])
		}

		for _, which := range []string{"x2", "x3"} {
			addX(which, targets[ti])
		}
	}

	var inverted []*big.Int

	for _, h := range gen.HardInversion(p) {
		// once as the stored limbs, once as the canonical value (an inversion may run on either)
		inverted = append(inverted, h, oracle.FromLimbs(oracle.ToMont(h, p)))
	}

	for _, v := range gen.InverseStructured(p) {
		inverted = append(inverted, oracle.FromLimbs(oracle.ToMont(v, p)))
	}

	for _, t := range inverted {
		addU("tv4", t)
		addX("xden", t)
	}

	// the numerator of the square-root call (cubic in tv2) and the isogeny's y denominator (cubic in x'): on the values whose
	// negation differs from them in the low limb only, on small stored values, on limb-boundary values
	var cubicTargets []*big.Int

	half := new(big.Int).Rsh(p, 1)
	for _, d := range []int64{0, 1, 2, 1 << 20, 1<<32 + 489, -(1 << 20), -(1<<32 + 489)} {
		t := new(big.Int).Add(half, big.NewInt(d))
		cubicTargets = append(cubicTargets, t, new(big.Int).Sub(p, t))
	}

	for i, t := range targets {
		if i%c.N(3, 3) == int(c.Seed%uint64(c.N(3, 3))) {
			cubicTargets = append(cubicTargets, t)
		}
	}

	for _, t := range cubicTargets {
		addU("gx1num", t)
		addX("yden", t)
	}

	for _, t := range gen.HalfZeroTargets(p) {
		for _, which := range []string{"tv2", "tv1", "u2"} {
			addU(which, t)
		}

		for _, which := range []string{"x2", "x3"} {
			addX(which, t)
		}
	}

	// chosen OUTPUT abscissae of SSWU / chosen inputs of the isogeny
	shared := oracle.FMul(oracle.FSub(oracle.B7, oracle.IsoB), oracle.FInv0(oracle.IsoA)) // x* with g'(x*) = x*^3 + 7

	outs := []*big.Int{shared, big.NewInt(0), big.NewInt(1), big.NewInt(2), oracle.FNeg(big.NewInt(1)), oracle.G().X, oracle.FMul(oracle.G().X, oracle.Beta)}

	// roots of x_den = x'^2 + k21 x' + k20
	k21, k20 := oracle.K[1][1], oracle.K[1][0]
	if rt, ok := oracle.FSqrt(oracle.FSub(oracle.FSqr(k21), oracle.FMul(big.NewInt(4), k20))); ok {
		half := oracle.FInv0(big.NewInt(2))
		outs = append(outs, oracle.FMul(oracle.FSub(rt, k21), half), oracle.FMul(oracle.FSub(oracle.FNeg(rt), k21), half))
	}

	for _, x := range outs {
		if _, on := oracle.FSqrt(gIsoRef(x)); on {
			xs = append(xs, steeredInput{x, "steered:chosen-x"})
		}

		t := oracle.FromLimbs(oracle.ToMont(x, p))
		addU("x1", t)
		addU("x2out", t)
	}

	return us, xs
}
