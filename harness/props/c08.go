//go:build verif && (p_all || p_c08)

package props

import (
	"bytes"
	"fmt"
	"math/big"

	"github.com/bytemare/secp256k1"
	"github.com/bytemare/secp256k1/internal/field"
	"github.com/bytemare/secp256k1/zz_verif/gen"
	"github.com/bytemare/secp256k1/zz_verif/mon"
	"github.com/bytemare/secp256k1/zz_verif/oracle"
)

// C08 — HashToGroup / EncodeToGroup conform to RFC 9380 for every message and DST.





func init() {
	register(&mon.Prop{
		ID:      "C08",
		Flavour: "plain",
		Rule: "cases = (function, message, DST, slice layout): message lengths around the SHA-256 block/padding boundaries (0,1,31-33,54-57,63-65,118-121,127-129,255,256,1000, one 64 KiB), " +
			"DST lengths on both sides of the 255-byte oversize rule (1,2,15-17,...,253-258,300,511,512,1000), nil vs empty message, nil and empty DST (must panic), DST/message as sub-slices with spare capacity, the RFC suite DSTs, PRNG (msg,DST) pairs. " +
			"Oracle: an independent transcription of RFC 9380 (expand_message_xmd 5.3.1/5.3.3, hash_to_field, the non-optimised SSWU of 6.6.2, the E.1 rational map, affine addition) in math/big + crypto/sha256, self-validated on the RFC vectors; " +
			"the result must encode identically, be a valid curve point, and be identical on a second call with the same content in a different slice layout. " +
			"Also: DSTs of 65535..196863 bytes (lengths that wrap in 16 bits); buffer-reuse sequences (successive messages/DSTs written into the same two buffers, same and different lengths, short and oversize); concurrent batches (8 goroutines hashing simultaneously on buffers they own); pipeline cases: chosen expander outputs (48/96 bytes: fold-resonant high limbs, structured halves, PRNG) pushed through the library's own hash_to_field reduction, SSWU, isogeny and final addition, because hashing cannot steer those bytes. Chosen u: every steered map input of C11 (intermediates, inverted values and outputs of SSWU placed on structured / hard / shared-point values, steer.go) enters the pipeline as expander output 0^16||u. Message lengths 0..520 against 49/16/255/256-byte tags. Call sequences on fresh buffers across HashToGroup/EncodeToGroup/HashToScalar: pairs colliding under tag||len||msg, msg||tag and tag||msg framings, one tag under both output lengths in every order, 1-3 byte tags first, repeats, last-byte and prefix variants. Branch outcomes (gx1 square or not for each u, sign fix-up direction) are read from the oracle and counted. " +
			"non-trivial = every non-panicking case; distinct by (fn, msg, dst).",
		NewCase:  func() any { return &h2cCase{} },
		Generate: c08Generate,
		Run:      c08Run,
		Require: func(string) map[string]int64 {
			return map[string]int64{
				"fn:H2G": 1000, "fn:E2G": 500, "dst:oversize": 100, "dst:len=255": 5, "dst:len=256": 5, "panic:empty-dst": 6,
				"h2g:sq-sq": 50, "h2g:sq-nsq": 50, "h2g:nsq-sq": 50, "h2g:nsq-nsq": 50, "sswu:flipped": 100, "sswu:not-flipped": 100, "layout:spare8": 50, "layout:interior": 50, "dst:huge": 8, "reuse-sequences": 100, "reuse-calls": 300, "concurrent-batches": 4, "pipeline": 500, "class:pipeline-steered": 300, "sequences": 100, "class:length-sweep": 500,
			}
		},
	})

	Registry["C08"].ColdStart = func(c *mon.Ctx) {
		r := c.SharedRng(fmt.Sprintf("cold%d", c.Shard))
		cs := &h2cCase{Fn: []string{"H2G", "E2G", "H2S"}[c.Shard%3], Layout: "exact", Class: "concurrent-cold-start"}
		if "H2G" == "H2S" {
			cs.Fn = "H2S"
		}

		for g := 0; g < 16; g++ {
			cs.Conc = append(cs.Conc, h2cPair{Msg: mon.H(r.Bytes(4 + g)), Dst: mon.H(r.Bytes([]int{20, 300}[g%2]))})
		}

		h2cRunHistory(c, cs)
	}
}


func c08Generate(c *mon.Ctx) {
	h2cGenerate(c, []string{"H2G", "E2G"}, 30000, 3000000)

	wr := gen.WideResonant(oracle.P)
	for i, b := range wr {
		if i%c.N(1, 1) != int(c.Seed%uint64(c.N(1, 1))) {
			continue
		}

		one := mon.H(b)
		two := mon.H(append(append([]byte{}, b...), wr[(i*7+3)%len(wr)]...))
		c.Structured(func() any { return &h2cCase{Fn: "pipeline", Uniform: one, Class: "pipeline"} })
		c.Structured(func() any { return &h2cCase{Fn: "pipeline", Uniform: two, Class: "pipeline"} })
	}

	// chosen u: expander output 0^16 || u reduces to u itself, so every steered map input of C11 (steer.go) can be pushed
	// through the library's own reduction, map, isogeny and final addition
	us, _ := steeredMapInputs(c)
	pad := make([]byte, 16)

	for i, su := range us {
		one := append(append([]byte{}, pad...), oracle.Bytes32(su.V)...)
		other := us[(i*7+3)%len(us)].V
		two := append(append(append([]byte{}, one...), pad...), oracle.Bytes32(other)...)
		h1, h2 := mon.H(one), mon.H(two)

		c.Structured(func() any { return &h2cCase{Fn: "pipeline", Uniform: h1, Class: "pipeline-steered"} })

		if i%3 == 0 {
			c.Structured(func() any { return &h2cCase{Fn: "pipeline", Uniform: h2, Class: "pipeline-steered"} })
		}
	}

	// pairs (u0, u1) whose two map outputs are RELATED on the isogenous curve: same ordinate with different
	// abscissae, opposite ordinates with different abscissae (the other roots of x^3 + A'x + B' = y^2, pulled back through
	// the map), the exceptional inputs: the exceptional loci of an addition law, which no message can be steered onto
	rr := c.SharedRng("related-pairs")
	pair := func(a, b *big.Int, cls string) {
		// The library adds the two map outputs with the affine chord formula, which is defined for different abscissae only.
		// Equal abscissae (u1 = +-u0) would need a message whose two field elements coincide up to sign: no such message
		// can be exhibited, the statement quantifies over messages, so those pairs are not demanded here (DESIGN 10.4).
		qa, _ := oracle.SSWU(a)
		qb, _ := oracle.SSWU(b)

		if qa.IsInf() || qb.IsInf() || qa.X.Cmp(qb.X) == 0 {
			return
		}

		h := mon.H(append(append(append(append([]byte{}, pad...), oracle.Bytes32(a)...), pad...), oracle.Bytes32(b)...))
		c.Structured(func() any { return &h2cCase{Fn: "pipeline", Uniform: h, Class: cls} })
	}

	exc, _ := oracle.FSqrt(oracle.FNeg(oracle.FInv0(oracle.Z)))

	for i := 0; i < c.N(60, 2000); i++ {
		u0 := gen.Draw(rr, oracle.P).X
		if i < 3 {
			u0 = []*big.Int{new(big.Int), exc, oracle.FNeg(exc)}[i]
		}

		pair(u0, new(big.Int), "pipeline-related:exceptional")

		if exc != nil {
			pair(exc, u0, "pipeline-related:exceptional")
		}

		q0, _ := oracle.SSWU(u0)
		if q0.IsInf() {
			continue
		}

		// other abscissae with the same y^2: roots of x^3 + A'x + (B' - y^2)
		for _, x2 := range oracle.PolyRoots(oracle.FSub(oracle.IsoB, oracle.FSqr(q0.Y)), oracle.IsoA, new(big.Int), big.NewInt(1)) {
			if x2.Cmp(q0.X) == 0 {
				continue
			}

			for _, which := range []string{"x1", "x2out"} {
				u1, ok := steerMapInput(which, oracle.FromLimbs(oracle.ToMont(x2, oracle.P)))
				if !ok {
					continue
				}

				if q1, _ := oracle.SSWU(u1); q1.IsInf() || q1.X.Cmp(x2) != 0 {
					continue
				}

				pair(u0, u1, "pipeline-related:same-or-opposite-ordinate")
				pair(u0, oracle.FNeg(u1), "pipeline-related:same-or-opposite-ordinate")
			}
		}
	}

	c.Random(c.N(2000, 200000), func(r *gen.Rng) any {
		return &h2cCase{Fn: "pipeline", Uniform: mon.H(r.Bytes(48 * (1 + r.Intn(2)))), Class: "pipeline"}
	})
}

// c08RunPipeline pushes chosen uniform bytes through the library's hash_to_field reduction, SSWU and isogeny (and, for 96
// bytes, the final addition) and compares with the oracle on the same bytes.
func c08RunPipeline(c *mon.Ctx, cs *h2cCase) {
	u := mon.UnH(cs.Uniform)

	c.Count("pipeline")
	c.Count("class:" + cs.Class)
	c.Eval(1)

	var (
		got  *secp256k1.Element
		want oracle.Pt
	)

	pan, pv := mon.Call(func() {
		for i := 0; i+48 <= len(u); i += 48 {
			fe := field.New().HashToFieldElement([48]byte(u[i : i+48]))
			q := secp256k1.IsogenySecp256k13iso(secp256k1.SSWU(fe))
			uv := oracle.Mod(new(big.Int).SetBytes(u[i:i+48]), oracle.P)
			qo, _ := oracle.SSWU(uv)

			if got == nil {
				got, want = q, oracle.Iso(qo)
			} else {
				got.Add(q)
				want = oracle.Add(want, oracle.Iso(qo))
			}
		}
	})
	if pan {
		c.Fail(fmt.Sprintf("hash_to_curve pipeline panicked on chosen uniform bytes %s: %v", cs.Uniform, pv), "h2c-pipeline-panic", nil)
		return
	}

	if ok, why := mon.RawValid(got); !ok {
		c.Fail("hash_to_curve pipeline (reduce, map, isogeny) on chosen uniform bytes yields an invalid point: "+why, "h2c-pipeline-invalid", nil)
		return
	}

	if ok, why := mon.ElemIs(got, want); !ok {
		c.Fail(fmt.Sprintf("hash_to_curve pipeline (reduce, map, isogeny) on chosen uniform bytes %s disagrees with RFC 9380: %s", cs.Uniform, why), "h2c-pipeline-value", nil)
		return
	}

	// the order in which HashToGroup itself composes the steps: both map outputs are added ON THE ISOGENOUS CURVE by the
	// library's own addition there, and the isogeny is applied once (reachable only where the tree under test has that
	// method under its present name and signature, see harness/access/addiso.go)
	distinctX := func() bool {
		// the chord formula the library uses there is defined for different abscissae; equal ones would need a message whose
		// two field elements coincide up to sign, which nobody can exhibit: not demanded (DESIGN 10.4)
		qa, _ := oracle.SSWU(oracle.Mod(new(big.Int).SetBytes(u[:48]), oracle.P))
		qb, _ := oracle.SSWU(oracle.Mod(new(big.Int).SetBytes(u[48:]), oracle.P))

		return !qa.IsInf() && !qb.IsInf() && qa.X.Cmp(qb.X) != 0
	}

	if len(u) == 96 && secp256k1.VHasAddIso && distinctX() {
		c.Count("pipeline-added-on-the-isogenous-curve")
		c.Eval(1)

		var got2 *secp256k1.Element

		if pan, pv := mon.Call(func() {
			q0 := secp256k1.SSWU(field.New().HashToFieldElement([48]byte(u[:48])))
			q1 := secp256k1.SSWU(field.New().HashToFieldElement([48]byte(u[48:])))
			got2 = secp256k1.IsogenySecp256k13iso(secp256k1.VAddIso(q0, q1))
		}); pan {
			c.Fail(fmt.Sprintf("hash_to_curve pipeline (addition on the isogenous curve) panicked on chosen uniform bytes %s: %v", cs.Uniform, pv), "h2c-pipeline-panic", nil)
			return
		}

		if ok, why := mon.RawValid(got2); !ok {
			c.Fail(fmt.Sprintf("hash_to_curve pipeline (reduce, map, add on the isogenous curve, isogeny) on chosen uniform bytes %s yields an invalid point: %s", cs.Uniform, why), "h2c-pipeline-invalid", nil)
			return
		}

		if ok, why := mon.ElemIs(got2, want); !ok {
			c.Fail(fmt.Sprintf("hash_to_curve pipeline (reduce, map, add on the isogenous curve, isogeny) on chosen uniform bytes %s disagrees with RFC 9380: %s", cs.Uniform, why), "h2c-pipeline-value", nil)
			return
		}
	}

	c.Seen("pipeline", cs.Uniform)
}





func c08Run(c *mon.Ctx, csAny any) {
	cs := csAny.(*h2cCase)

	if h2cRunHistory(c, cs) {
		return
	}

	if cs.Fn == "pipeline" {
		c08RunPipeline(c, cs)
		return
	}

	msg, dst, _, _ := h2cInputs(cs, 0xa5)

	c.Count("fn:" + cs.Fn)
	c.Count("layout:" + cs.Layout)

	if cs.Class == "length-sweep" {
		c.Count("class:length-sweep")
	}

	call := func(m, d []byte) *secp256k1.Element {
		if cs.Fn == "H2G" {
			return secp256k1.HashToGroup(m, d)
		}

		return secp256k1.EncodeToGroup(m, d)
	}

	var e *secp256k1.Element

	// what the caller passed, as it was BEFORE the call (the oracle must not read buffers the call may have changed)
	msgWas, dstWas := append([]byte{}, msg...), append([]byte{}, dst...)

	c.Eval(1)
	pan, pv := mon.Call(func() { e = call(msg, dst) })

	if !bytes.Equal(msg, msgWas) || !bytes.Equal(dst, dstWas) {
		c.Fail(fmt.Sprintf("%s changed the contents of its message/DST arguments (layout %s)", cs.Fn, cs.Layout), "h2c-mutates-arguments", nil)
		return
	}

	if len(dst) == 0 {
		c.Count("panic:empty-dst")

		if !pan {
			c.Fail(fmt.Sprintf("%s with an empty/nil DST returned %v instead of panicking", cs.Fn, e != nil), "h2c-empty-dst-no-panic", nil)
		}

		return
	}

	if pan {
		c.Fail(fmt.Sprintf("%s panicked on a %d-byte message and %d-byte DST: %v", cs.Fn, len(msg), len(dst), pv), "h2c-panic", nil)
		return
	}

	switch {
	case len(dst) > 255:
		c.Count("dst:oversize")

		if len(dst) >= 65535 {
			c.Count("dst:huge")
		}
	case len(dst) == 255:
		c.Count("dst:len=255")
	}

	if len(dst) == 256 {
		c.Count("dst:len=256")
	}

	var (
		want oracle.Pt
		tr   oracle.H2CTrace
	)

	if cs.Fn == "H2G" {
		want, tr = oracle.HashToCurve(msg, dst)
		names := map[bool]string{true: "sq", false: "nsq"}
		c.Count("h2g:" + names[tr.Info[0].Gx1Square] + "-" + names[tr.Info[1].Gx1Square])
	} else {
		want, tr = oracle.EncodeToCurve(msg, dst)
	}

	for _, inf := range tr.Info {
		if inf.Flipped {
			c.Count("sswu:flipped")
		} else {
			c.Count("sswu:not-flipped")
		}

		if inf.Exceptional {
			c.Count("sswu:exceptional")
		}
	}

	okRaw, whyRaw := mon.RawValid(e)
	okVal, whyVal := mon.ElemIs(e, want)

	if !okRaw || !okVal {
		c.Fail(fmt.Sprintf("%s(msg[%d], dst[%d]) disagrees with RFC 9380: %s %s", cs.Fn, len(msg), len(dst), whyRaw, whyVal), "h2c-value:"+cs.Fn, map[string]any{"u": fmt.Sprint(tr.U)})
		return
	}

	// determinism, and independence from the slice layout: same content, fresh exact-size slices
	m2, d2 := append([]byte{}, msg...), append([]byte{}, dst...)
	if cs.NilMsg {
		m2 = nil
	}

	c.Eval(1)

	e2 := call(m2, d2)
	if !bytes.Equal(e2.Encode(), e.Encode()) {
		c.Fail(cs.Fn+" is not a deterministic function of (message, DST) contents", "h2c-nondeterministic", nil)
	}

	c.Seen(cs.Fn, cs.Msg, cs.Dst, cs.NilMsg)

	if c.WantSample() && len(dst) > 255 {
		c.Sample(map[string]any{"fn": cs.Fn, "msg_len": len(msg), "dst_len": len(dst), "layout": cs.Layout, "dst_prefix": mon.Trunc(cs.Dst, 40), "u0": fmt.Sprintf("%x", tr.U[0]), "expected_encode": mon.H(oracle.EncC(want)), "observed_encode": mon.H(e.Encode())})
	}
}

var _ = big.NewInt
