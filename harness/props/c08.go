//go:build verif

package props

import (
	"bytes"
	"fmt"
	"math/big"
	"sync"

	"github.com/bytemare/secp256k1"
	"github.com/bytemare/secp256k1/internal/field"
	"github.com/bytemare/secp256k1/zz_verif/gen"
	"github.com/bytemare/secp256k1/zz_verif/mon"
	"github.com/bytemare/secp256k1/zz_verif/oracle"
)

// C08 — HashToGroup / EncodeToGroup conform to RFC 9380 for every message and DST.

type h2cCase struct {
	Fn     string `json:"fn"` // H2G | E2G | H2S
	Msg    string `json:"msg"`
	Dst    string `json:"dst"`
	NilMsg bool   `json:"nil_msg,omitempty"`
	NilDst bool   `json:"nil_dst,omitempty"`
	Layout string `json:"layout"` // exact | spare1 | spare8 | spare64 | interior
	Class  string `json:"class"`
	// Reuse: a sequence of calls whose message / DST are written, one after the other, into the SAME two buffers
	// (same address, same or different length): what a cache keyed on slice identity cannot tell apart.
	Reuse []h2cPair `json:"reuse,omitempty"`
	// Conc: calls executed simultaneously, one goroutine each, on buffers they own.
	Conc []h2cPair `json:"concurrent,omitempty"`
	// Uniform (Fn == "pipeline"): chosen expander output (48 or 96 bytes) pushed through the library's own reduction, map
	// and isogeny steps, i.e. everything of hash_to_curve after the hash. Hashing cannot steer these bytes; choosing them
	// reaches the thin sets on which the reduction or the map may err.
	Uniform string `json:"uniform,omitempty"`
}

type h2cPair struct {
	Msg string `json:"msg"`
	Dst string `json:"dst"`
}

var (
	h2cMsgLens = []int{0, 1, 2, 31, 32, 33, 54, 55, 56, 57, 63, 64, 65, 118, 119, 120, 121, 127, 128, 129, 255, 256, 1000}
	h2cDstLens = []int{1, 2, 15, 16, 17, 31, 32, 33, 49, 63, 64, 65, 127, 128, 200, 253, 254, 255, 256, 257, 258, 300, 511, 512, 1000}
	// DST lengths at which a length kept in 16 (or 8) bits wraps
	h2cHugeDstLens = []int{65535, 65536, 65537, 65551, 65791, 65792, 131072, 131088, 196863}
	h2cLayouts = []string{"exact", "spare1", "spare8", "spare64", "interior"}
)

// layoutSlice places content inside a larger backing array according to the layout name.
func layoutSlice(content []byte, layout string, fill byte) (s []byte, backing []byte) {
	pre, spare := 0, 0

	switch layout {
	case "spare1":
		spare = 1
	case "spare8":
		spare = 8
	case "spare64":
		spare = 64
	case "interior":
		pre, spare = 13, 29
	}

	backing = bytes.Repeat([]byte{fill}, pre+len(content)+spare+7)
	copy(backing[pre:], content)
	s = backing[pre : pre+len(content) : pre+len(content)+spare]

	return s, backing
}

func init() {
	register(&mon.Prop{
		ID:      "C08",
		Flavour: "plain",
		Rule: "cases = (function, message, DST, slice layout): message lengths around the SHA-256 block/padding boundaries (0,1,31-33,54-57,63-65,118-121,127-129,255,256,1000, one 64 KiB), " +
			"DST lengths on both sides of the 255-byte oversize rule (1,2,15-17,...,253-258,300,511,512,1000), nil vs empty message, nil and empty DST (must panic), DST/message as sub-slices with spare capacity, the RFC suite DSTs, PRNG (msg,DST) pairs. " +
			"Oracle: an independent transcription of RFC 9380 (expand_message_xmd 5.3.1/5.3.3, hash_to_field, the non-optimised SSWU of 6.6.2, the E.1 rational map, affine addition) in math/big + crypto/sha256, self-validated on the RFC vectors; " +
			"the result must encode identically, be a valid curve point, and be identical on a second call with the same content in a different slice layout. " +
			"Also: DSTs of 65535..196863 bytes (lengths that wrap in 16 bits); buffer-reuse sequences (successive messages/DSTs written into the same two buffers, same and different lengths, short and oversize); concurrent batches (8 goroutines hashing simultaneously on buffers they own); pipeline cases: chosen expander outputs (48/96 bytes: fold-resonant high limbs, structured halves, PRNG) pushed through the library's own hash_to_field reduction, SSWU, isogeny and final addition, because hashing cannot steer those bytes. Branch outcomes (gx1 square or not for each u, sign fix-up direction) are read from the oracle and counted. " +
			"non-trivial = every non-panicking case; distinct by (fn, msg, dst).",
		NewCase:  func() any { return &h2cCase{} },
		Generate: c08Generate,
		Run:      c08Run,
		Require: func(string) map[string]int64 {
			return map[string]int64{
				"fn:H2G": 1000, "fn:E2G": 500, "dst:oversize": 100, "dst:len=255": 5, "dst:len=256": 5, "panic:empty-dst": 6,
				"h2g:sq-sq": 50, "h2g:sq-nsq": 50, "h2g:nsq-sq": 50, "h2g:nsq-nsq": 50, "sswu:flipped": 100, "sswu:not-flipped": 100, "layout:spare8": 50, "layout:interior": 50, "dst:huge": 8, "reuse-sequences": 100, "reuse-calls": 300, "concurrent-batches": 4, "pipeline": 500,
			}
		},
	})
}

func h2cGenerate(c *mon.Ctx, fns []string, nq, nt int) {
	pat := func(n int, seed byte) []byte {
		b := make([]byte, n)
		for i := range b {
			b[i] = byte(i*7+3) ^ seed
		}

		return b
	}

	k := 0

	for _, ml := range h2cMsgLens {
		for _, dl := range h2cDstLens {
			// a sparse but complete-in-each-dimension product
			if !(ml == 0 || ml == 64 || dl == 16 || dl == 255 || dl == 256 || (ml+dl)%5 == 0) {
				continue
			}

			for _, fn := range fns {
				k++
				cs := &h2cCase{Fn: fn, Msg: mon.H(pat(ml, 0x11)), Dst: mon.H(pat(dl, 0x5a)), Layout: h2cLayouts[k%len(h2cLayouts)], Class: "lengths"}
				c.Structured(func() any { return cs })
			}
		}
	}

	for _, fn := range fns {
		fn := fn
		big64k := mon.H(pat(65536, 0x77))
		c.Structured(func() any { return &h2cCase{Fn: fn, Msg: big64k, Dst: mon.H([]byte("verif-64k-message-dst")), Layout: "exact", Class: "msg-64k"} })
		c.Structured(func() any { return &h2cCase{Fn: fn, NilMsg: true, Dst: mon.H([]byte("verif-nil-message-dst")), Layout: "exact", Class: "nil-msg"} })
		c.Structured(func() any { return &h2cCase{Fn: fn, Msg: "", Dst: mon.H([]byte("verif-nil-message-dst")), Layout: "spare8", Class: "empty-msg"} })
		c.Structured(func() any { return &h2cCase{Fn: fn, Msg: "616263", NilDst: true, Layout: "exact", Class: "nil-dst"} })
		c.Structured(func() any { return &h2cCase{Fn: fn, Msg: "616263", Dst: "", Layout: "exact", Class: "empty-dst"} })
		c.Structured(func() any { return &h2cCase{Fn: fn, Msg: "616263", Dst: "", Layout: "spare8", Class: "empty-dst"} })

		for _, suite := range []string{"QUUX-V01-CS02-with-secp256k1_XMD:SHA-256_SSWU_RO_", "QUUX-V01-CS02-with-secp256k1_XMD:SHA-256_SSWU_NU_", secp256k1.H2CSECP256K1, secp256k1.E2CSECP256K1} {
			for _, m := range []string{"", "abc", "abcdef0123456789"} {
				for _, lay := range h2cLayouts {
					cs := &h2cCase{Fn: fn, Msg: mon.H([]byte(m)), Dst: mon.H([]byte(suite)), Layout: lay, Class: "suite-dst"}
					c.Structured(func() any { return cs })
				}
			}
		}
	}

	for i, dl := range h2cHugeDstLens {
		for _, fn := range fns {
			cs := &h2cCase{Fn: fn, Msg: mon.H(pat(i, 0x19)), Dst: mon.H(pat(dl, byte(0x40+i))), Layout: "exact", Class: "huge-dst"}
			c.Structured(func() any { return cs })
		}
	}

	// buffer reuse
	rr := c.SharedRng("reuse")

	for i := 0; i < 160; i++ {
		fn := fns[i%len(fns)]
		dl := []int{16, 49, 255, 256, 300, 1, 32, 600}[i%8]
		cs := &h2cCase{Fn: fn, Layout: h2cLayouts[i%len(h2cLayouts)], Class: "reuse"}

		for j := 0; j < 3+i%2; j++ {
			l := dl
			if i%5 == 4 && j == 1 {
				l = dl + 1 // a different length in between
			}

			m := rr.Bytes(8)
			if j > 0 && i%3 == 0 {
				m = mon.UnH(cs.Reuse[0].Msg) // same message, only the DST changes
			}

			cs.Reuse = append(cs.Reuse, h2cPair{Msg: mon.H(m), Dst: mon.H(rr.Bytes(l))})
		}

		if i%4 == 0 {
			cs.Reuse = append(cs.Reuse, cs.Reuse[0]) // and back to the first content
		}

		c.Structured(func() any { return cs })
	}

	// concurrent batches
	for b := 0; b < c.N(8, 400); b++ {
		cs := &h2cCase{Fn: fns[b%len(fns)], Layout: "exact", Class: "concurrent"}

		for g := 0; g < 8; g++ {
			dl := []int{20, 300, 255, 256, 700, 16, 300, 49}[g]
			if b%2 == 1 {
				dl = []int{300, 300, 400, 400, 300, 256, 257, 1000}[g] // several different oversize DSTs at once
			}

			cs.Conc = append(cs.Conc, h2cPair{Msg: mon.H(rr.Bytes(5 + g)), Dst: mon.H(rr.Bytes(dl))})
		}

		c.Structured(func() any { return cs })
	}

	c.Random(c.N(nq, nt), func(r *gen.Rng) any {
		ml := h2cMsgLens[r.Intn(len(h2cMsgLens))]
		if r.Bool() {
			ml = r.Intn(200)
		}

		dl := h2cDstLens[r.Intn(len(h2cDstLens))]
		if r.Intn(3) == 0 {
			dl = 1 + r.Intn(300)
		}

		return &h2cCase{Fn: fns[r.Intn(len(fns))], Msg: mon.H(r.Bytes(ml)), Dst: mon.H(r.Bytes(dl)), Layout: h2cLayouts[r.Intn(len(h2cLayouts))], Class: "random"}
	})
}

func c08Generate(c *mon.Ctx) {
	h2cGenerate(c, []string{"H2G", "E2G"}, 30000, 3000000)

	wr := gen.WideResonant(oracle.P)
	for i, b := range wr {
		if i%c.N(3, 1) != int(c.Seed%uint64(c.N(3, 1))) {
			continue
		}

		one := mon.H(b)
		two := mon.H(append(append([]byte{}, b...), wr[(i*7+3)%len(wr)]...))
		c.Structured(func() any { return &h2cCase{Fn: "pipeline", Uniform: one, Class: "pipeline"} })
		c.Structured(func() any { return &h2cCase{Fn: "pipeline", Uniform: two, Class: "pipeline"} })
	}

	c.Random(c.N(2000, 200000), func(r *gen.Rng) any {
		return &h2cCase{Fn: "pipeline", Uniform: mon.H(r.Bytes(48 * (1 + r.Intn(2)))), Class: "pipeline"}
	})
}

// c08RunPipeline pushes chosen uniform bytes through the library's hash_to_field reduction, SSWU and isogeny (and, for 96
// bytes, the final addition) and compares with the oracle on the same bytes.
func c08RunPipeline(c *mon.Ctx, cs *h2cCase) {
	u := mon.UnH(cs.Uniform)

	c.Count("pipeline")
	c.Eval(1)

	var (
		got  *secp256k1.Element
		want oracle.Pt
	)

	pan, pv := mon.Call(func() {
		for i := 0; i+48 <= len(u); i += 48 {
			fe := field.New().HashToFieldElement([48]byte(u[i : i+48]))
			q := secp256k1.IsogenySecp256k13iso(secp256k1.SSWU(fe))
			uv := oracle.Mod(new(big.Int).SetBytes(u[i:i+48]), oracle.P)
			qo, _ := oracle.SSWU(uv)

			if got == nil {
				got, want = q, oracle.Iso(qo)
			} else {
				got.Add(q)
				want = oracle.Add(want, oracle.Iso(qo))
			}
		}
	})
	if pan {
		c.Fail(fmt.Sprintf("hash_to_curve pipeline panicked on chosen uniform bytes %s: %v", cs.Uniform, pv), "h2c-pipeline-panic", nil)
		return
	}

	if ok, why := mon.RawValid(got); !ok {
		c.Fail("hash_to_curve pipeline (reduce, map, isogeny) on chosen uniform bytes yields an invalid point: "+why, "h2c-pipeline-invalid", nil)
		return
	}

	if ok, why := mon.ElemIs(got, want); !ok {
		c.Fail(fmt.Sprintf("hash_to_curve pipeline (reduce, map, isogeny) on chosen uniform bytes %s disagrees with RFC 9380: %s", cs.Uniform, why), "h2c-pipeline-value", nil)
		return
	}

	c.Seen("pipeline", cs.Uniform)
}

// h2cInputs materialises the case's slices.
func h2cInputs(cs *h2cCase, fill byte) (msg, dst, msgBack, dstBack []byte) {
	if !cs.NilMsg {
		msg, msgBack = layoutSlice(mon.UnH(cs.Msg), cs.Layout, fill)
	}

	if !cs.NilDst {
		dst, dstBack = layoutSlice(mon.UnH(cs.Dst), cs.Layout, fill^0xff)
	}

	return
}

// h2cCallBytes runs fn and returns the bytes that identify the result (compressed point or scalar encoding).
func h2cCallBytes(fn string, m, d []byte) []byte {
	switch fn {
	case "H2G":
		return secp256k1.HashToGroup(m, d).Encode()
	case "E2G":
		return secp256k1.EncodeToGroup(m, d).Encode()
	default:
		return secp256k1.HashToScalar(m, d).Encode()
	}
}

func h2cWant(fn string, m, d []byte) []byte {
	switch fn {
	case "H2G":
		p, _ := oracle.HashToCurve(m, d)
		return oracle.EncC(p)
	case "E2G":
		p, _ := oracle.EncodeToCurve(m, d)
		return oracle.EncC(p)
	default:
		return oracle.Bytes32(oracle.HashToScalar(m, d))
	}
}

// h2cRunHistory handles the buffer-reuse and concurrent kinds for all three hashing functions; it reports whether
// the case was of one of those kinds.
func h2cRunHistory(c *mon.Ctx, cs *h2cCase) bool {
	switch {
	case len(cs.Reuse) > 0:
		c.Count("reuse-sequences")

		maxM, maxD := 0, 0
		for _, p := range cs.Reuse {
			maxM, maxD = max(maxM, len(p.Msg)/2), max(maxD, len(p.Dst)/2)
		}

		_, mback := layoutSlice(make([]byte, maxM), cs.Layout, 0x5a)
		_, dback := layoutSlice(make([]byte, maxD), cs.Layout, 0xa5)
		pre := 0
		if cs.Layout == "interior" {
			pre = 13
		}

		for i, p := range cs.Reuse {
			mb, db := mon.UnH(p.Msg), mon.UnH(p.Dst)
			copy(mback[pre:], mb)
			copy(dback[pre:], db)
			m := mback[pre : pre+len(mb) : pre+len(mb)]
			d := dback[pre : pre+len(db) : pre+len(db)]

			c.Eval(1)
			c.Count("reuse-calls")

			var got []byte

			if pan, pv := mon.Call(func() { got = h2cCallBytes(cs.Fn, m, d) }); pan {
				c.Fail(fmt.Sprintf("%s panicked at call %d of a buffer-reuse sequence: %v", cs.Fn, i, pv), "h2c-reuse-panic", nil)
				return true
			}

			if want := h2cWant(cs.Fn, mb, db); !bytes.Equal(got, want) {
				c.Fail(fmt.Sprintf("%s: call %d of a sequence that rewrites the same message/DST buffers in place (msg[%d], dst[%d]) returned %s, RFC 9380 value is %s", cs.Fn, i, len(mb), len(db), mon.H(got), mon.H(want)),
					"h2c-buffer-reuse:"+cs.Fn, map[string]any{"call": i})
				return true
			}
		}

		c.Seen(cs.Fn, cs.Reuse, cs.Layout)

		return true
	case len(cs.Conc) > 0:
		c.Count("concurrent-batches")

		type job struct {
			m, d, want, got []byte
			pan             any
		}

		jobs := make([]*job, len(cs.Conc))
		for i, p := range cs.Conc {
			jobs[i] = &job{m: mon.UnH(p.Msg), d: mon.UnH(p.Dst)}
			jobs[i].want = h2cWant(cs.Fn, jobs[i].m, jobs[i].d)
		}

		start := make(chan struct{})

		var wg sync.WaitGroup

		for _, j := range jobs {
			wg.Add(1)

			go func(j *job) {
				defer wg.Done()
				defer func() { j.pan = recover() }()
				<-start

				for rep := 0; rep < 20; rep++ {
					j.got = h2cCallBytes(cs.Fn, j.m, j.d)
					if !bytes.Equal(j.got, j.want) {
						return
					}
				}
			}(j)
		}

		close(start)
		wg.Wait()

		for i, j := range jobs {
			c.Eval(20)

			if j.pan != nil {
				c.Fail(fmt.Sprintf("%s panicked when %d goroutines hashed simultaneously on their own buffers: %v", cs.Fn, len(jobs), j.pan), "h2c-concurrent-panic", nil)
				return true
			}

			if !bytes.Equal(j.got, j.want) {
				c.Fail(fmt.Sprintf("%s wrong when %d goroutines hash simultaneously on buffers they own (job %d, dst[%d]): %s, RFC 9380 value is %s", cs.Fn, len(jobs), i, len(j.d), mon.H(j.got), mon.H(j.want)), "h2c-concurrent-value:"+cs.Fn, nil)
				return true
			}
		}

		c.Seen(cs.Fn, cs.Conc)

		return true
	}

	return false
}

func c08Run(c *mon.Ctx, csAny any) {
	cs := csAny.(*h2cCase)

	if h2cRunHistory(c, cs) {
		return
	}

	if cs.Fn == "pipeline" {
		c08RunPipeline(c, cs)
		return
	}

	msg, dst, _, _ := h2cInputs(cs, 0xa5)

	c.Count("fn:" + cs.Fn)
	c.Count("layout:" + cs.Layout)

	call := func(m, d []byte) *secp256k1.Element {
		if cs.Fn == "H2G" {
			return secp256k1.HashToGroup(m, d)
		}

		return secp256k1.EncodeToGroup(m, d)
	}

	var e *secp256k1.Element

	c.Eval(1)
	pan, pv := mon.Call(func() { e = call(msg, dst) })

	if len(dst) == 0 {
		c.Count("panic:empty-dst")

		if !pan {
			c.Fail(fmt.Sprintf("%s with an empty/nil DST returned %v instead of panicking", cs.Fn, e != nil), "h2c-empty-dst-no-panic", nil)
		}

		return
	}

	if pan {
		c.Fail(fmt.Sprintf("%s panicked on a %d-byte message and %d-byte DST: %v", cs.Fn, len(msg), len(dst), pv), "h2c-panic", nil)
		return
	}

	switch {
	case len(dst) > 255:
		c.Count("dst:oversize")

		if len(dst) >= 65535 {
			c.Count("dst:huge")
		}
	case len(dst) == 255:
		c.Count("dst:len=255")
	}

	if len(dst) == 256 {
		c.Count("dst:len=256")
	}

	var (
		want oracle.Pt
		tr   oracle.H2CTrace
	)

	if cs.Fn == "H2G" {
		want, tr = oracle.HashToCurve(msg, dst)
		names := map[bool]string{true: "sq", false: "nsq"}
		c.Count("h2g:" + names[tr.Info[0].Gx1Square] + "-" + names[tr.Info[1].Gx1Square])
	} else {
		want, tr = oracle.EncodeToCurve(msg, dst)
	}

	for _, inf := range tr.Info {
		if inf.Flipped {
			c.Count("sswu:flipped")
		} else {
			c.Count("sswu:not-flipped")
		}

		if inf.Exceptional {
			c.Count("sswu:exceptional")
		}
	}

	okRaw, whyRaw := mon.RawValid(e)
	okVal, whyVal := mon.ElemIs(e, want)

	if !okRaw || !okVal {
		c.Fail(fmt.Sprintf("%s(msg[%d], dst[%d]) disagrees with RFC 9380: %s %s", cs.Fn, len(msg), len(dst), whyRaw, whyVal), "h2c-value:"+cs.Fn, map[string]any{"u": fmt.Sprint(tr.U)})
		return
	}

	// determinism, and independence from the slice layout: same content, fresh exact-size slices
	m2, d2 := append([]byte{}, msg...), append([]byte{}, dst...)
	if cs.NilMsg {
		m2 = nil
	}

	c.Eval(1)

	e2 := call(m2, d2)
	if !bytes.Equal(e2.Encode(), e.Encode()) {
		c.Fail(cs.Fn+" is not a deterministic function of (message, DST) contents", "h2c-nondeterministic", nil)
	}

	c.Seen(cs.Fn, cs.Msg, cs.Dst, cs.NilMsg)

	if c.WantSample() && len(dst) > 255 {
		c.Sample(map[string]any{"fn": cs.Fn, "msg_len": len(msg), "dst_len": len(dst), "layout": cs.Layout, "dst_prefix": mon.Trunc(cs.Dst, 40), "u0": fmt.Sprintf("%x", tr.U[0]), "expected_encode": mon.H(oracle.EncC(want)), "observed_encode": mon.H(e.Encode())})
	}
}

var _ = big.NewInt
