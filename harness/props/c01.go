//go:build verif && (p_all || p_c01)

package props

import (
	"bytes"
	"fmt"
	"math/big"
	"sync"

	"github.com/bytemare/secp256k1"
	"github.com/bytemare/secp256k1/zz_verif/gen"
	"github.com/bytemare/secp256k1/zz_verif/mon"
	"github.com/bytemare/secp256k1/zz_verif/oracle"
)

// C01 — Multiply equals the k-fold sum for every (P, k).

type c01Case struct {
	E      mon.ElemCase `json:"elem"`
	K      string       `json:"k"` // hex; "nil" for a nil scalar
	KClass string       `json:"k_class"`
	K2     string       `json:"k2,omitempty"` // optional second multiplication chained on the result
	// SMove: the *Scalar object passed to Multiply first held SMove.From, was used (Bits, a multiplication), and was
	// then driven to K through one mutator. EMove: likewise for the receiver element (its target value replaces E).
	SMove *mon.ScalarMove `json:"scalar_move,omitempty"`
	EMove *mon.ElemMove   `json:"elem_move,omitempty"`
	// Conc: a batch of independent multiplications executed simultaneously, one goroutine each, on objects they own.
	Conc []c01Case `json:"concurrent,omitempty"`
}

func init() {
	register(&mon.Prop{
		ID:      "C01",
		Flavour: "plain",
		Rule: "cases = (point value, projective representation, scalar): structured scalars (0,1,2,n-1,2^i,2^255|2^i,n-2^i,stored-form adjacent to One(),Montgomery-structured) on G; " +
			"every pool point (O,±kG,[2^255]G,[(n±1)/2]G,phi(G),small-x,small-y,x near p,hashed,random) in affine/λ-scaled/(0:Y:0) representations x boundary scalars; " +
			"PRNG cases with >=50% of scalars having bit 255 set. Oracle: affine double-and-add in math/big (plus literal k-fold sums for k<=64). " +
			"" +
			"Steered cases: λ solved so that Z^2, Y^2, YZ or XY of the input point has a structured stored value (around multiples of 2^252..2^255, j*p/2^k, j*2^256/c and j*p/c for the small constants 3, 7, 11, 21, 1771). History cases: the scalar object (resp. the receiver) previously held another value, was used, and reached its value through each mutator of the API; concurrent batches: 8 goroutines multiply simultaneously on objects they own (no shared argument), each result judged against the oracle. " +
			"non-trivial = k not in {0,1} and P != O; distinct by (point, representation, scalar[, second scalar], history).",
		NewCase:  func() any { return &c01Case{} },
		Generate: c01Generate,
		Run:      c01Run,
		Finish:   nil,
		Require: func(string) map[string]int64 {
			return map[string]int64{"k:bit255": 50, "k:nil": 1, "k=0": 1, "k=1": 1, "k=n-1": 1, "P=O": 5, "repr:scaled": 20, "repr:id-y": 3, "ksum<=64": 10, "scalar-history": 40, "elem-history": 40, "concurrent-batches": 4, "concurrent-multiplications": 32, "steered": 100, "bits:scalar-bit-seen-as-0-or-1": 512}
		},
	})

	Registry["C01"].ColdStart = func(c *mon.Ctx) {
		r := c.SharedRng(fmt.Sprintf("cold%d", c.Shard))
		batch := &c01Case{KClass: "concurrent-cold-start"}

		// in two cold processes out of three every goroutine multiplies the GENERATOR (affine, as Base() gives it, or scaled):
		// whatever the library builds lazily for its most common operand is built at that instant, by all of them at once
		gpv := gen.PV{P: oracle.G(), Tag: "G"}

		for g := 0; g < 16; g++ {
			pv, rp := gen.Fresh(r), gen.DrawRepr(r, false)

			switch c.Shard % 3 {
			case 0:
				pv, rp = gpv, gen.Repr{Kind: "affine", L: big.NewInt(1)}
			case 1:
				pv = gpv
			}

			k := gen.Draw(r, oracle.N).X
			if g%5 == 4 {
				k = big.NewInt(0)
			}

			if c.Shard%2 == 1 && g >= 5 && g%5 != 4 {
				k = mon.BigH(batch.Conc[g%5].K) // shared scalar objects in every second cold process
			}

			batch.Conc = append(batch.Conc, c01Case{E: mon.MkElemCase(pv, rp), K: fmt.Sprintf("%x", k)})
		}

		c01RunConcurrent(c, batch)
	}
}

func c01Generate(c *mon.Ctx) {
	pool := gen.NewPool(c.SharedRng("pool"), 8)
	g := gen.PV{P: oracle.G(), Tag: "G"}
	aff := gen.Repr{Kind: "affine", L: big.NewInt(1)}

	// 1. structured scalars on G
	for _, k := range gen.ScalarSpecials() {
		k := k
		c.Structured(func() any {
			return &c01Case{E: mon.MkElemCase(g, aff), K: fmt.Sprintf("%x", k.X), KClass: k.Class}
		})
	}

	// 2. small k against literal sums, on several points
	for k := 0; k <= 64; k++ {
		k := k
		pv := pool.NonInf[k%len(pool.NonInf)]
		reprs := gen.StructuredReprs(false)
		rp := reprs[k%len(reprs)]
		c.Structured(func() any {
			return &c01Case{E: mon.MkElemCase(pv, rp), K: fmt.Sprintf("%x", k), KClass: "ksum"}
		})
	}

	// 3. pool points x representations x boundary scalars
	n := oracle.N
	bnd := []gen.V{
		{X: big.NewInt(0), Class: "zero"}, {X: big.NewInt(1), Class: "one"}, {X: big.NewInt(2), Class: "two"},
		{X: new(big.Int).Sub(n, big.NewInt(1)), Class: "n-1"}, {X: new(big.Int).Lsh(big.NewInt(1), 255), Class: "2^255"},
		{X: new(big.Int).Sub(n, big.NewInt(2)), Class: "n-2"},
	}
	sr := c.SharedRng("pool-scalars")

	for i, pv := range pool.All {
		reprs := gen.StructuredReprs(pv.P.IsInf())
		for j := 0; j < 3; j++ {
			rp := reprs[(i+j*5)%len(reprs)]
			if j == 0 {
				rp = reprs[0]
			}

			ks := []gen.V{bnd[(i+j)%len(bnd)], bnd[(i+j+3)%len(bnd)]}
			hi := gen.Draw(sr, n)
			hi.X.SetBit(hi.X, 255, 1)

			if hi.X.Cmp(n) >= 0 {
				hi.X.SetBit(hi.X, 254, 0)
				hi.X.SetBit(hi.X, 128, 0)
				hi.X.Mod(hi.X, n)
			}

			ks = append(ks, gen.V{X: hi.X, Class: "pool-hi"})

			if pv.P.IsInf() {
				ks = append(ks, bnd...)
			}

			for _, k := range ks {
				pv, rp, k := pv, rp, k
				c.Structured(func() any {
					return &c01Case{E: mon.MkElemCase(pv, rp), K: fmt.Sprintf("%x", k.X), KClass: k.Class}
				})
			}
		}

		pv := pv
		if i%4 == 0 {
			c.Structured(func() any { return &c01Case{E: mon.MkElemCase(pv, reprs[i%len(reprs)]), K: "nil", KClass: "nil"} })
		}
	}

	// 4. history cases: every scalar mutator and every element mutator, twice
	hr := c.SharedRng("moves")

	for rep := 0; rep < 2; rep++ {
		for _, via := range mon.ScalarVias {
			mv := mon.PlanScalarMove(via, hr)
			pv := pool.NonInf[hr.Intn(len(pool.NonInf))]
			e := mon.MkElemCase(pv, gen.DrawRepr(hr, false))
			c.Structured(func() any { return &c01Case{E: e, K: mv.To, KClass: "history:" + mv.Via, SMove: &mv} })
		}

		for _, via := range mon.ElemVias {
			mv := mon.PlanElemMove(via, hr)
			k := gen.Draw(hr, n)
			c.Structured(func() any { return &c01Case{K: fmt.Sprintf("%x", k.X), KClass: "elem-history:" + mv.Via, EMove: &mv} })
		}
	}

	// the receiver went through a decode that FAILED (at each stage of each decoder) before it is multiplied
	for rep := 0; rep < c.N(60, 2000); rep++ {
		mv := mon.PlanElemMove("decode-rejected", hr)
		k := gen.Draw(hr, n)
		c.Structured(func() any { return &c01Case{K: fmt.Sprintf("%x", k.X), KClass: "elem-history:" + mv.Via, EMove: &mv} })
	}

	// 4b. steered representations: λ chosen so that a first-level intermediate of the first ladder steps (Z^2, Y^2, YZ, XY
	// of the input point) has a structured stored value; scalars with bit 255 set so that the point enters the formulas at once
	targets := gen.StoredTargets(oracle.P)
	strideT := c.N(1, 1)
	hi := []string{fmt.Sprintf("%x", new(big.Int).Add(new(big.Int).Lsh(big.NewInt(1), 255), big.NewInt(3))), fmt.Sprintf("%x", new(big.Int).Sub(n, big.NewInt(1))), "2", "3"}

	for ti := int(c.Seed % uint64(strideT)); ti < len(targets); ti += strideT {
		pv := pool.NonInf[ti%len(pool.NonInf)]
		for wi, which := range []string{"Z2", "Y2", "YZ", "XY"} {
			if rp, ok := gen.ReprHitting(pv.P, which, targets[ti]); ok {
				e, k := mon.MkElemCase(pv, rp), hi[(ti+wi)%len(hi)]
				c.Structured(func() any { return &c01Case{E: e, K: k, KClass: "steered:" + which} })
			}
		}
	}

	// 5. concurrent batches
	for b := 0; b < c.N(8, 200); b++ {
		batch := &c01Case{KClass: "concurrent"}

		for g := 0; g < 8; g++ {
			pv := gen.Fresh(hr)
			k := gen.Draw(hr, n)
			if b%2 == 1 && g >= 2 {
				// every second batch: the goroutines multiply their own points by two scalar objects they all share
				k = gen.V{X: mon.BigH(batch.Conc[g%2].K), Class: batch.Conc[g%2].KClass}
			}

			batch.Conc = append(batch.Conc, c01Case{E: mon.MkElemCase(pv, gen.DrawRepr(hr, false)), K: fmt.Sprintf("%x", k.X), KClass: k.Class})
		}

		c.Structured(func() any { return batch })
	}

	// 6. PRNG cases
	c.Random(c.N(2000, 300000), func(r *gen.Rng) any {
		var pv gen.PV
		if r.Intn(2) == 0 {
			pv = pool.Draw(r)
		} else {
			pv = gen.Fresh(r)
		}

		rp := gen.DrawRepr(r, pv.P.IsInf())
		ec := mon.MkElemCase(pv, rp)

		if r.Intn(5) == 0 {
			ec = mon.MkNatElemCase(pv, r.Intn(8))
		}

		k := gen.Draw(r, n)

		if r.Intn(2) == 0 && k.X.Bit(255) == 0 {
			x := new(big.Int).SetBit(k.X, 255, 1)
			if x.Cmp(n) < 0 {
				k = gen.V{X: x, Class: k.Class + "+bit255"}
			}
		}

		cs := &c01Case{E: ec, K: fmt.Sprintf("%x", k.X), KClass: k.Class}
		if r.Intn(16) == 0 {
			cs.K2 = fmt.Sprintf("%x", gen.Draw(r, n).X)
		}

		return cs
	})
}

func c01RunConcurrent(c *mon.Ctx, cs *c01Case) {
	type job struct {
		e    *secp256k1.Element
		s    *secp256k1.Scalar
		want oracle.Pt
		got  []byte
		pan  any
	}

	// jobs whose scalar is the same value share ONE Scalar object: the scalar is an argument, which the API only reads
	shared := map[string]*secp256k1.Scalar{}
	jobs := make([]*job, len(cs.Conc))

	for i := range cs.Conc {
		sub := &cs.Conc[i]

		sc, ok := shared[sub.K]
		if !ok {
			sc = mon.Scal(mon.BigH(sub.K))
			shared[sub.K] = sc
		} else {
			c.Count("concurrent-jobs-sharing-a-scalar-object")
		}

		jobs[i] = &job{e: sub.E.Build(), s: sc, want: oracle.Mul(mon.BigH(sub.K), sub.E.P.Pt())}
	}

	c.Count("concurrent-batches")

	line := mon.StartLine(len(jobs))

	var wg sync.WaitGroup

	for _, j := range jobs {
		wg.Add(1)

		go func(j *job) {
			defer wg.Done()
			defer func() { j.pan = recover() }()
			line()

			for rep := 0; rep < 4; rep++ {
				x := j.e.Copy().Multiply(j.s)
				j.got = x.Encode()

				if !bytes.Equal(j.got, oracle.EncC(j.want)) {
					return
				}
			}
		}(j)
	}

	wg.Wait()

	for i, j := range jobs {
		c.Eval(4)
		c.CountN("concurrent-multiplications", 4)

		if j.pan != nil {
			c.Fail(fmt.Sprintf("Multiply panicked when %d goroutines multiplied simultaneously on their own objects: %v", len(jobs), j.pan), "multiply-concurrent-panic", nil)
			return
		}

		if !bytes.Equal(j.got, oracle.EncC(j.want)) {
			c.Fail(fmt.Sprintf("[k]P wrong when %d goroutines multiply simultaneously on their own points (job %d): Encode=%s want %s", len(jobs), i, mon.H(j.got), mon.H(oracle.EncC(j.want))), "multiply-concurrent-value", nil)
			return
		}
	}

	c.Seen(cs.Conc)
}

func c01Run(c *mon.Ctx, csAny any) {
	cs := csAny.(*c01Case)

	if len(cs.Conc) > 0 {
		c01RunConcurrent(c, cs)
		return
	}

	if cs.EMove != nil {
		cs.E = mon.ElemCase{P: cs.EMove.To, R: mon.ReprCase{Kind: "moved:" + cs.EMove.Via, L: "1"}}
	}

	p := cs.E.P.Pt()

	var e *secp256k1.Element

	if cs.EMove != nil {
		c.Count("elem-history")

		e = cs.EMove.Start()
		e.Copy().Multiply(mon.Scal(big.NewInt(5))) // the old value takes part in a multiplication (on a copy and in place)
		_ = e.Encode()

		if pan, pv := mon.Call(func() { mon.ApplyElemMove(e, *cs.EMove) }); pan {
			if m, ok := pv.(string); ok && len(m) > 8 && m[:8] == "harness:" {
				panic(m)
			}

			c.Fail(fmt.Sprintf("mutator %s panicked: %v", cs.EMove.Via, pv), "multiply-history-panic", nil)

			return
		}
	} else {
		e = cs.E.Build()
	}

	c.Count("repr:" + cs.E.R.Kind)
	c.Count("point:" + cs.E.P.Tag)

	if len(cs.KClass) > 8 && cs.KClass[:8] == "steered:" {
		c.Count("steered")
	}

	if p.IsInf() {
		c.Count("P=O")
	}

	if cs.K == "nil" {
		c.Eval(1)
		c.Count("k:nil")

		pan, pv := mon.Call(func() { e.Multiply(nil).Multiply(mon.NilScal) })
		if pan {
			c.Fail(fmt.Sprintf("Multiply(nil) panicked: %v", pv), "multiply-nil-panic", nil)
			return
		}

		if ok, why := mon.ElemIs(e, oracle.Inf()); !ok {
			c.Fail("Multiply(nil) is not the identity: "+why, "multiply-nil", nil)
		}

		c.Seen("nil", cs.E)

		return
	}

	var (
		k *big.Int
		s *secp256k1.Scalar
	)

	if cs.SMove == nil {
		k = mon.BigH(cs.K)
		s = mon.Scal(k)
	} else {
		c.Count("scalar-history")

		var (
			pan bool
			pv  any
		)

		s, k, pan, pv = mon.MoveScalar(*cs.SMove, func(s *secp256k1.Scalar) {
			_ = s.Bits()
			secp256k1.Base().Multiply(s) // the old value drives a multiplication
		})
		if pan {
			c.Fail(fmt.Sprintf("scalar mutator %s panicked: %v", cs.SMove.Via, pv), "multiply-history-panic", nil)

			return
		}
	}

	c.Eval(1)

	switch {
	case k.Sign() == 0:
		c.Count("k=0")
	case k.Cmp(big.NewInt(1)) == 0:
		c.Count("k=1")
	case k.Cmp(new(big.Int).Sub(oracle.N, big.NewInt(1))) == 0:
		c.Count("k=n-1")
	}

	if k.Bit(255) == 1 {
		c.Count("k:bit255")
	}

	for i := 0; i < 256; i++ {
		c.SetBit("scalar-bit-seen-as-0-or-1", 512, 2*i+int(k.Bit(i)))
	}

	var ret *secp256k1.Element

	pan, pv := mon.Call(func() { ret = e.Multiply(s) })
	if pan {
		c.Fail(fmt.Sprintf("Multiply panicked: %v", pv), "multiply-panic", nil)
		return
	}

	want := oracle.Mul(k, p)
	if ok, why := mon.ElemIs(e, want); !ok {
		c.Fail(fmt.Sprintf("[k]P wrong for k=%s (class %s), P=%s repr=%s: %s", cs.K, cs.KClass, cs.E.P.Tag, cs.E.R.Kind, why), "multiply-value", nil)
		return
	}

	if ret != nil && ret != e {
		if ok, why := mon.ElemIs(ret, want); !ok {
			c.Fail("value returned by Multiply differs from [k]P: "+why, "multiply-return", nil)
		}
	}

	if k.IsInt64() && k.Int64() <= 64 {
		c.Count("ksum<=64")
		kk := int(k.Int64())
		// literal k-fold sum in the oracle, and the implementation's own k-fold Add
		if !oracle.MulNaive(kk, p).Equal(want) {
			c.Inconclusive("oracle double-and-add disagrees with the oracle's literal sum")
		}

		acc := secp256k1.NewElement()
		base := mon.ElemAffine(p)

		for i := 0; i < kk; i++ {
			acc.Add(base)
		}

		c.Eval(kk)

		if acc.Equal(e) != 1 {
			c.Fail(fmt.Sprintf("[%d]P by Multiply differs from the %d-fold sum by Add", kk, kk), "multiply-vs-add-sum", nil)
		}
	}

	if cs.K2 != "" {
		k2 := mon.BigH(cs.K2)
		c.Eval(1)
		c.Count("chained")
		e.Multiply(mon.Scal(k2))

		want2 := oracle.Mul(k2, want)
		if ok, why := mon.ElemIs(e, want2); !ok {
			c.Fail("chained Multiply wrong: "+why, "multiply-chain", nil)
		}
	}

	if k.Cmp(big.NewInt(1)) > 0 && !p.IsInf() {
		c.Seen(cs.E, cs.K, cs.K2, cs.SMove, cs.EMove)
	}

	if c.WantSample() && k.BitLen() > 200 && !p.IsInf() && cs.EMove == nil {
		c.Sample(map[string]any{"case": cs, "expected_encode": mon.H(oracle.EncC(want)), "observed_encode": mon.H(cs.E.Build().Multiply(s).Encode())})
	}
}
